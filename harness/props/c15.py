"""C15 — rebuilding is pure and deterministic, independent of threads and history.

Tie:
  * translator: Gen/Effects.lean (heap-effect IR + certificate of every function reachable by name
    from a `rebuild`) and Gen/ProcState.lean (storage of parser / context variables, registry
    keying, written globals, ambient reads, set iterations); closing theorems in Props/C15.lean;
  * dynamic cross-check of the translator: every attribute store executed during `rebuild()` (class
    level `__setattr__` hooks) must be at an extracted store site, every store on a pre-existing
    object at a site the checker flagged, every observed change of the tree explained by a flagged
    site, no `@property` getter invoked;
  * correspondence of the schedule model: random schedules executed by real threads in lock-step
    (parser slot, context variables, registry) against the Lean driver.
Oracle (implementation only): shallow state of every object of the tree before/after `rebuild()`
(harness/oracle/heapwatch.py), rebuild twice, serial vs shuffled-with-history vs N threads vs
subprocesses with different PYTHONHASHSEED and cwd.
"""
from __future__ import annotations

import gc
import hashlib
import json
import os
import queue
import re
import shutil
import subprocess
import sys
import tempfile
import threading
import time
from pathlib import Path

from .. import framework as fw
from ..framework import unhx
from ..gen import nixdocs
from ..oracle import heapwatch as H

GEN_TABLES = ("effects", "sched_cfg", "registry", "written_globals", "ambient")
MAX_PER_KEY = 40


def known_offending() -> list[str]:
    """The list `knownOffending` of Props/C15.lean (single source of truth)."""
    src = (fw.LEAN / "NimaVerif" / "Props" / "C15.lean").read_text()
    m = re.search(r"def knownOffending : List String :=\s*\[(.*?)\]", src, re.S)
    return re.findall(r'"([^"]*)"', m.group(1)) if m else []


def exc_class(exc: BaseException) -> str:
    return "raises:" + type(exc).__name__


# ------------------------------------------------------------------------------------------------
# operations on the implementation (used serially, shuffled, in threads and in subprocesses)
# ------------------------------------------------------------------------------------------------
def op_render(text: str) -> str:
    from nix_manipulator import parse

    try:
        src = parse(text)
        a = src.rebuild()
        b = src.rebuild()
        return a if a == b else "REBUILD-TWICE-DIFFERS\n" + a + "\n----\n" + b
    except RecursionError:
        return "raises:RecursionError"
    except Exception as exc:  # noqa: BLE001
        return exc_class(exc)


def op_edit(text: str) -> str:
    from nix_manipulator import parse
    from nix_manipulator.cli import manipulations as M

    try:
        return M.set_value(parse(text), "zq", "1")
    except RecursionError:
        return "raises:RecursionError"
    except Exception as exc:  # noqa: BLE001
        return exc_class(exc)


def op_resolve(text: str) -> str:
    """mapping access + identifier resolution (touches the registry), then render the result"""
    from nix_manipulator import parse

    try:
        src = parse(text)
        out = []
        for key in ("a", "x", "y"):
            try:
                v = src[key]
                try:
                    v = v.value if type(v).__name__ == "Identifier" else v
                except Exception as exc:  # noqa: BLE001
                    out.append(f"{key}:value:{exc_class(exc)}")
                    continue
                out.append(f"{key}={v.rebuild() if hasattr(v, 'rebuild') else v!r}")
            except RecursionError:
                out.append(f"{key}:raises:RecursionError")
            except Exception as exc:  # noqa: BLE001
                out.append(f"{key}:{exc_class(exc)}")
        return "|".join(out) + "||" + src.rebuild()
    except RecursionError:
        return "raises:RecursionError"
    except Exception as exc:  # noqa: BLE001
        return exc_class(exc)


OPS = {"render": op_render, "edit": op_edit, "resolve": op_resolve}


def tree_fingerprint() -> str:
    """(path, mtime, size) of every source file of the package under test: the in-process code, the
    subprocesses and the translator must all see the same tree"""
    h = hashlib.sha1()
    for p in sorted((fw.REPO / "nix_manipulator").rglob("*.py")):
        st = p.stat()
        h.update(f"{p}:{st.st_mtime_ns}:{st.st_size};".encode())
    return h.hexdigest()


def digest(s: str) -> str:
    return hashlib.sha1(s.encode("utf-8", "surrogatepass")).hexdigest()[:16]


# ------------------------------------------------------------------------------------------------
# (a) purity
# ------------------------------------------------------------------------------------------------
def api_built(name: str):
    """documents assembled through the construction API (nodes that never went through from_cst: their
    layout fields are unset and decided while rendering)"""
    from nix_manipulator import parse
    from nix_manipulator.expressions.identifier import Identifier
    from nix_manipulator.expressions.list import NixList
    from nix_manipulator.expressions.set import AttributeSet
    from nix_manipulator.expressions.with_statement import WithStatement

    if name == "with-list":
        src = parse("{\n  a = 1;\n}\n")
        src["buildInputs"] = WithStatement(environment=Identifier(name="pkgs"),
                                           body=NixList(value=[Identifier(name="a"), Identifier(name="b")]))
        return src
    if name == "lists":
        return AttributeSet.from_dict({"k": [1, 2], "n": {"l": [[1], [2, 3]], "e": []}, "s": ["a", "b"]})
    if name == "nested":
        return AttributeSet.from_dict({"a": {"b": {"c": 1, "d": [1]}}, "z": None, "t": True})
    if name == "parsed-plus":
        src = parse("{ pkgs }:\n{\n  a = [ 1 2 ];\n}\n")
        src["b"] = [1, [2, 3]]
        src["c"] = {"x": [1]}
        return src
    raise KeyError(name)


API_DOCS = ["API:with-list", "API:lists", "API:nested", "API:parsed-plus"]


class Purity:
    def __init__(self, ctx: fw.Ctx, ex):
        self.ctx, self.ex = ctx, ex
        self.per_key: dict[str, int] = {}
        self.tie_seen: set[str] = set()
        self.pkg_root = str(fw.REPO / "nix_manipulator") + os.sep
        self.site_lines: dict[tuple[str, int], list[str]] = {}
        self.flagged_lines: set[tuple[str, int]] = set()
        self.flagged_attrs: set[str] = set()
        self.all_attrs: set[str] = set()
        if ex is not None:
            for name, sites in ex.label_sites.items():
                for fl in sites:
                    self.site_lines.setdefault(tuple(fl), []).append(name)
                self.all_attrs.add(ex.label_attr[name])
            for name in ex.violations:
                self.flagged_attrs.add(ex.label_attr[name] if ex.label_kind.get(name) == "store" else "[]")
                for fl in ex.label_sites[name]:
                    self.flagged_lines.add(tuple(fl))

    def tie(self, kind: str, what: str, **more):
        if what in self.tie_seen or len(self.tie_seen) > 20:
            return
        self.tie_seen.add(what)
        self.ctx.tie_break(kind, what, **more)

    def fail(self, key: dict, input_: dict, what: str):
        k = json.dumps(key, sort_keys=True)
        self.per_key[k] = self.per_key.get(k, 0) + 1
        self.ctx.count("fail:" + ":".join(str(v) for v in key.values()))
        if self.per_key[k] <= MAX_PER_KEY:
            self.ctx.fail(key, input_, what)

    def check_doc(self, text: str, hooks: H.WriteHooks, props: H.PropertyCounter, record: bool = True) -> list[dict]:
        """Run the purity oracle on one document. Returns the failures (key, input, what)."""
        from nix_manipulator import parse

        ctx = self.ctx
        found: list[dict] = []
        try:
            src = api_built(text[4:]) if text.startswith("API:") else parse(text)
        except RecursionError:
            ctx.count("skipped:parse-recursion")
            return found
        except Exception as exc:  # noqa: BLE001
            ctx.count("skipped:parse-" + type(exc).__name__)
            return found
        if getattr(src, "contains_error", False):
            ctx.count("pass-through-documents")
        ts = H.TreeState(src)
        start = len(hooks.records)
        calls0 = dict(props.calls)
        try:
            r1 = src.rebuild()
        except RecursionError:
            ctx.count("skipped:rebuild-recursion")
            return found
        except Exception as exc:  # noqa: BLE001
            ctx.count("skipped:rebuild-" + type(exc).__name__)
            return found
        recs = hooks.records[start:]
        del hooks.records[start:]
        ch1 = ts.changes()
        r2 = src.rebuild()
        del hooks.records[start:]
        ch2 = ts.changes()
        nontrivial = any(c in text for c in "#/*") or "\n" in text.strip()
        if record:
            ctx.case({"doc": text}, nontrivial)
        if r1 != r2:
            found.append(dict(key={"clause": "rebuild-twice-text"}, input={"doc": text, "first": r1, "second": r2},
                              what=f"second rebuild() of the same document returns different text: {r1!r} then {r2!r}"))
        seen = set()
        for c in ch1 + ch2:
            sig = (c["cls"], c["field"], c["kind"], c["path"])
            if sig in seen:
                continue
            seen.add(sig)
            when = "first" if c in ch1 else "second"
            found.append(dict(
                key={"clause": "tree-mutated", "cls": c["cls"], "field": c["field"], "kind": c["kind"]},
                input={"doc": text, "path": c["path"]},
                what=f"{when} rebuild() changed {c['path']} ({c['cls']}.{c['field']}): {c['what']}"))
            # every observed change must be explained by a write site the checker flagged
            if self.ex is not None and c["field"] not in self.flagged_attrs:
                self.tie("checker-crosscheck",
                         f"rebuild() changed {c['cls']}.{c['field']} but no write site of `{c['field']}` is flagged by "
                         f"Effects.check (flagged: {sorted(self.flagged_attrs)})", doc=text, path=c["path"])
        # the translator's store sites vs the stores that were executed
        pre = ts.ids()
        for r in recs:
            f = r["file"]
            if not f.startswith(self.pkg_root):
                continue  # dataclass-generated __init__ ("<string>") etc.
            rel = f[len(self.pkg_root):]
            ctx.count("stores-observed")
            if self.ex is None:
                continue
            if (rel, r["line"]) not in self.site_lines:
                self.tie("translator-crosscheck",
                         f"attribute store {r['cls']}.{r['attr']} executed during rebuild() at {rel}:{r['line']} "
                         f"({r['func']}) is not among the extracted store sites", doc=text)
            elif r["id"] in pre and (rel, r["line"]) not in self.flagged_lines:
                self.tie("checker-crosscheck",
                         f"store {r['cls']}.{r['attr']} at {rel}:{r['line']} hit an object of the original tree but "
                         f"Effects.check accepts that site", doc=text)
            elif r["id"] in pre:
                ctx.count("stores-on-original-tree")
        for k, n in props.calls.items():
            if n != calls0.get(k, 0):
                if self.ex is not None and any(r.endswith(":" + k) for r in self.ex.reachable):
                    continue  # a special method that the by-name call graph did reach
                self.tie("translator-crosscheck",
                         f"{k} was invoked during rebuild(): property reads and implicit special-method calls "
                         f"(subscript, ==, iteration, truth test) are not in the by-name call graph", doc=text)
        self.ctx.corr_checked += len(recs)
        return found

    def run_stream(self, docs):
        open_known, _ = fw.load_known(self.ctx.pid)
        shrunk = 0
        with H.WriteHooks() as hooks, H.PropertyCounter() as props:
            for text in docs:
                for f in self.check_doc(text, hooks, props):
                    k = json.dumps(f["key"], sort_keys=True)
                    is_known = any(fw.key_matches(e["key"], f["key"]) for e in open_known)
                    if k not in self.per_key and not is_known and shrunk < 6 and len(text) > 12:
                        # first failure of a new kind: minimise the document (same key must keep failing)
                        shrunk += 1
                        saved_ties = set(self.tie_seen)
                        self.tie_seen = self.tie_seen | set(range(100))  # silence tie messages while shrinking

                        def still(cand, key=f["key"]):
                            try:
                                return any(g["key"] == key for g in self.check_doc(cand, hooks, props, record=False))
                            except Exception:  # noqa: BLE001
                                return False

                        small = shrink(text, still)
                        self.tie_seen = saved_ties
                        if small != text:
                            for g in self.check_doc(small, hooks, props, record=False):
                                if g["key"] == f["key"]:
                                    g["input"]["shrunk_from"] = text
                                    f = g
                                    break
                    self.fail(f["key"], f["input"], f["what"])


def shrink(text: str, still_fails, budget_s: float = 3.0) -> str:
    """ddmin over characters (chunks first), keeping the predicate true"""
    t0 = time.time()
    n = 2
    cur = text
    while len(cur) >= 2 and time.time() - t0 < budget_s:
        size = max(1, len(cur) // n)
        reduced = False
        for i in range(0, len(cur), size):
            cand = cur[:i] + cur[i + size:]
            if cand and still_fails(cand):
                cur = cand
                n = max(n - 1, 2)
                reduced = True
                break
            if time.time() - t0 > budget_s:
                break
        if not reduced:
            if size == 1:
                break
            n = min(len(cur), n * 2)
    return cur


# ------------------------------------------------------------------------------------------------
# (b) determinism: history, hash seed, cwd
# ------------------------------------------------------------------------------------------------
SUBPROC = r"""
import json, sys, hashlib, os
docs = json.load(open(sys.argv[1]))
order = list(range(len(docs)))
if sys.argv[2] == "rev":
    order.reverse()
sys.path.insert(0, sys.argv[3])
from harness.props.c15 import OPS, digest
out = {}
for i in order:
    op, text = docs[i]
    out[i] = digest(OPS[op](text))
# parse_file with a path relative to this cwd, and an absolute one
from nix_manipulator import parse_file
extra = []
for name in sorted(os.listdir(sys.argv[4]))[:20]:
    p = os.path.join(sys.argv[4], name)
    try:
        a = parse_file(p).rebuild()
        b = parse_file(os.path.relpath(p)).rebuild()
        extra.append(digest(a) + digest(b))
    except Exception as exc:
        extra.append("raises:" + type(exc).__name__)
print(json.dumps({"out": [out[i] for i in range(len(docs))], "files": extra, "seed": os.environ.get("PYTHONHASHSEED"),
                  "cwd": os.getcwd()}))
"""


def file_history(ctx: fw.Ctx, docs: list[str]):
    """the same PATH read several times with different contents in between (parse_file / parse with
    source_path / save): every read depends on the bytes in the file now, not on what the path held before"""
    from nix_manipulator import parse, parse_file

    def render(fn):
        try:
            return fn().rebuild()
        except RecursionError:
            return "raises:RecursionError"
        except Exception as exc:  # noqa: BLE001
            return exc_class(exc)

    tmp = Path(tempfile.mkdtemp(prefix="c15-files-"))
    try:
        p = tmp / "doc.nix"
        for i, t in enumerate(docs):
            want = render(lambda t=t: parse(t))
            p.write_text(t, encoding="utf-8", newline="")
            got = render(lambda: parse_file(p))
            got2 = render(lambda t=t: parse(t, source_path=p)) if i % 2 else got
            ctx.count("file-history-reads")
            if got != want or got2 != want:
                ctx.fail({"clause": "file-history", "via": "parse_file" if got != want else "source_path"},
                         {"doc": t, "previous": docs[i - 1] if i else None, "expected": want, "got": got if got != want else got2},
                         "reading a path whose content was replaced gives a result that depends on what the path held before")
                break
        # a file the library rejects, then a document with a relative path literal: it resolves against the
        # working directory as before (nothing of the rejected file stays behind)
        probe = "{ p = ./x.nix; }"
        try:
            before = str(parse(probe)["p"].resolved_path())
        except Exception as exc:  # noqa: BLE001
            before = exc_class(exc)
        sub = tmp / "rejected"
        sub.mkdir(exist_ok=True)
        for bad in ("{ url = http://example.org/x.tar.gz; }\n", "{ a.b = 1; a.b = 2; }\n", "{ a = 1;\n"):
            bp = sub / "bad.nix"
            bp.write_text(bad, encoding="utf-8")
            try:
                parse_file(bp).rebuild()
            except Exception:  # noqa: BLE001
                pass
            try:
                after = str(parse(probe)["p"].resolved_path())
            except Exception as exc:  # noqa: BLE001
                after = exc_class(exc)
            ctx.count("file-history-rejected")
            if after != before:
                ctx.fail({"clause": "file-history", "via": "rejected-file"}, {"doc": probe, "rejected": bad, "expected": before, "got": after},
                         f"after parse_file() of a file the library rejects ({bad!r}), a path literal of an unrelated "
                         f"document resolves to {after!r} instead of {before!r}")
                break
        # edit, save, read again
        for t in docs[:10]:
            p.write_text(t, encoding="utf-8", newline="")
            try:
                src = parse_file(p)
                src["zq"] = 1
                src.save()
                after = p.read_text(encoding="utf-8")
                again = parse_file(p).rebuild()
            except Exception:  # noqa: BLE001
                continue
            want = render(lambda after=after: parse(after))
            ctx.count("file-history-saves")
            if again != want:
                ctx.fail({"clause": "file-history", "via": "save"}, {"doc": t, "saved": after, "expected": want, "got": again},
                         "parse_file after save() does not read what save() wrote")
                break
    finally:
        shutil.rmtree(tmp, ignore_errors=True)


def determinism(ctx: fw.Ctx, docs: list[str], n_configs: int):
    rng = ctx.rng
    items = [(rng.choice(["render", "render", "edit", "resolve"]), t) for t in docs]
    serial = [OPS[op](t) for op, t in items]
    ctx.count("determinism-items", len(items))
    # shuffled order with unrelated work in between (history)
    order = list(range(len(items)))
    rng.shuffle(order)
    for i in order:
        op, t = items[i]
        j = rng.randrange(len(items))
        OPS[rng.choice(["edit", "resolve", "render"])](items[j][1])  # prior work on another document
        got = OPS[op](t)
        if got != serial[i]:
            ctx.fail({"clause": "history", "op": op}, {"doc": t, "op": op, "expected": serial[i], "got": got},
                     f"{op} of a document gives a different result after other documents were processed")
    file_history(ctx, [t for _op, t in items][:40])
    gc.collect()
    # subprocesses: hash seeds x working directories x order
    tmp = Path(tempfile.mkdtemp(prefix="c15-"))
    try:
        (tmp / "docs.json").write_text(json.dumps(items))
        files = tmp / "files"
        files.mkdir()
        for k, (op, t) in enumerate(items[:20]):
            (files / f"d{k:02d}.nix").write_text(t, encoding="utf-8")
        expected = [digest(s) for s in serial]
        seeds = ["0", "1", "12345", "4294967295", "random"] + [str(rng.randrange(2 ** 32)) for _ in range(n_configs)]
        configs = []
        for k in range(n_configs):
            cwd = tmp / ("w" + "/sub" * (k % 3) + str(k))
            cwd.mkdir(parents=True)
            configs.append((seeds[k % len(seeds)] if k < 5 else seeds[5 + k % n_configs], cwd, "rev" if k % 2 else "fwd"))
        env_base = dict(os.environ)
        results = []
        pending = list(configs)
        running: list = []
        file_digests = None
        while pending or running:
            while pending and len(running) < 4:
                seed, cwd, orderflag = pending.pop(0)
                env = dict(env_base, PYTHONHASHSEED=seed)
                p = subprocess.Popen(
                    [sys.executable, "-c", SUBPROC, str(tmp / "docs.json"), orderflag, str(fw.VERIF), str(files)],
                    cwd=str(cwd), env=env, stdout=subprocess.PIPE, stderr=subprocess.PIPE, text=True)
                running.append((p, seed, cwd, orderflag))
            p, seed, cwd, orderflag = running.pop(0)
            try:
                out, err = p.communicate(timeout=900)
            except subprocess.TimeoutExpired:
                p.kill()
                raise fw.Infra("determinism subprocess timeout")
            if p.returncode != 0:
                raise fw.Infra(f"determinism subprocess failed: {err[-800:]}")
            res = json.loads(out.strip().splitlines()[-1])
            ctx.count("subprocess-configs")
            for i, (d, e) in enumerate(zip(res["out"], expected)):
                if d != e:
                    # fetch the other process's text (same seed, the document alone) for the replay file
                    code = ("import sys; sys.path.insert(0, %r); from harness.props.c15 import OPS; "
                            "sys.stdout.write(OPS[%r](%r))" % (str(fw.VERIF), items[i][0], items[i][1]))
                    try:
                        alone = subprocess.run([sys.executable, "-c", code], cwd=str(cwd),
                                               env=dict(env_base, PYTHONHASHSEED=seed), capture_output=True,
                                               text=True, timeout=300).stdout
                    except subprocess.TimeoutExpired:
                        alone = "<timeout>"
                    again = OPS[items[i][0]](items[i][1])
                    ctx.fail({"clause": "hashseed-cwd", "op": items[i][0]},
                             {"doc": items[i][1], "op": items[i][0], "hashseed": seed, "cwd_depth": str(cwd),
                              "order": orderflag, "expected_digest": e, "got_digest": d,
                              "this_process_first": serial[i], "this_process_again": again,
                              "other_process_alone": alone, "other_process_alone_digest": digest(alone),
                              "this_process_hash_randomization": os.environ.get("PYTHONHASHSEED", "unset (random)")},
                             f"{items[i][0]} of a document differs in a process with PYTHONHASHSEED={seed}, "
                             f"cwd={cwd}, order={orderflag}")
                    break
            if file_digests is None:
                file_digests = res["files"]
            elif res["files"] != file_digests:
                ctx.fail({"clause": "hashseed-cwd", "op": "parse_file"},
                         {"hashseed": seed, "cwd": str(cwd), "files": res["files"], "expected": file_digests},
                         "parse_file(...).rebuild() differs between processes / relative vs absolute path")
            for fd in res["files"]:
                if not fd.startswith("raises:") and fd[:16] != fd[16:]:
                    ctx.fail({"clause": "hashseed-cwd", "op": "parse_file-relative"}, {"cwd": str(cwd)},
                             "parse_file with a relative path differs from the absolute path")
    finally:
        shutil.rmtree(tmp, ignore_errors=True)


# ------------------------------------------------------------------------------------------------
# (c) threads
# ------------------------------------------------------------------------------------------------
def threads_run(ctx: fw.Ctx, docs: list[str], n_threads: int, per_thread: int, record=True) -> int:
    rng = ctx.rng
    plans = []
    for _ in range(n_threads):
        plans.append([(rng.choice(["render", "render", "edit", "resolve"]), rng.choice(docs)) for _ in range(per_thread)])
    expected: dict[tuple[str, str], str] = {}
    for plan in plans:
        for op, t in plan:
            if (op, t) not in expected:
                expected[(op, t)] = OPS[op](t)
    results: list[list] = [[] for _ in range(n_threads)]
    barrier = threading.Barrier(n_threads)
    errors: list = []

    def work(k):
        try:
            barrier.wait()
            for op, t in plans[k]:
                results[k].append(OPS[op](t))
        except BaseException as exc:  # noqa: BLE001
            errors.append(repr(exc))

    old = sys.getswitchinterval()
    sys.setswitchinterval(1e-5)
    try:
        ths = [threading.Thread(target=work, args=(k,)) for k in range(n_threads)]
        for t in ths:
            t.start()
        for t in ths:
            t.join()
    finally:
        sys.setswitchinterval(old)
    if errors:
        raise fw.Infra(f"thread run crashed: {errors[:2]}")
    bad = 0
    for k in range(n_threads):
        for (op, t), got in zip(plans[k], results[k]):
            if record:
                ctx.count("thread-ops")
            if got != expected[(op, t)]:
                bad += 1
                if bad <= MAX_PER_KEY:
                    ctx.fail({"clause": "threads", "op": op},
                             {"doc": t, "op": op, "threads": n_threads, "expected": expected[(op, t)], "got": got},
                             f"{op} of a document in one of {n_threads} threads differs from its serial result")
    return bad


# ------------------------------------------------------------------------------------------------
# (c) correspondence of the schedule model: real threads in lock-step vs the Lean driver
# ------------------------------------------------------------------------------------------------
class Worker(threading.Thread):
    def __init__(self):
        super().__init__(daemon=True)
        self.inbox: queue.Queue = queue.Queue()
        self.outbox: queue.Queue = queue.Queue()

    def run(self):
        while True:
            fn = self.inbox.get()
            if fn is None:
                return
            try:
                self.outbox.put(("ok", fn()))
            except BaseException as exc:  # noqa: BLE001
                self.outbox.put(("exc", repr(exc)))

    def call(self, fn):
        self.inbox.put(fn)
        kind, val = self.outbox.get(timeout=120)
        if kind == "exc":
            raise fw.Infra(f"lock-step worker raised {val}")
        return val


def _current(module: str, name: str):
    """the value the code would read now, however the slot is implemented (ContextVar, thread-local
    attribute or plain module variable): a change of mechanism must show as behaviour, not as a
    harness error"""
    import importlib

    slot = getattr(importlib.import_module("nix_manipulator.expressions." + module), name)
    if hasattr(slot, "get") and not isinstance(slot, (bytes, str, type(None), Path)):
        return slot.get()
    return slot


def sched_correspondence(ctx: fw.Ctx, n_sched: int, n_steps: int, docs: list[str]):
    import nix_manipulator.parser as P
    import nix_manipulator.resolution as R
    from nix_manipulator.expressions.identifier import Identifier
    from nix_manipulator.expressions.path import _SOURCE_PATH, source_path_context
    from nix_manipulator.expressions.scope import Scope
    from nix_manipulator.expressions.trivia import _SOURCE_BYTES, source_bytes_context

    rng = ctx.rng
    sample = [d for d in docs if op_render(d) and not op_render(d).startswith("raises:")][:50]
    serial = [op_render(d) for d in sample]
    reqs, expect, descr = [], [], []
    seen_parsers: dict[int, object] = {}
    gc.collect()
    gc.freeze()  # explicit collections below then only look at the objects of the schedules
    try:
        _sched_runs(ctx, n_sched, n_steps, sample, serial, reqs, expect, descr, seen_parsers)
    finally:
        gc.unfreeze()
    replies = ctx.driver.ask_many(reqs)
    bad = 0
    for rq, ex_, got, st in zip(reqs, expect, replies, descr):
        ctx.corr_checked += len(st)
        if ex_ != got:
            bad += 1
            if bad <= 3:
                first = next((i for i, (a, b) in enumerate(zip(ex_[1:], got[1:])) if a != b), None)
                ctx.tie_break("correspondence",
                              f"schedule model and real threads disagree at step {first}: "
                              f"{st[first] if first is not None and first < len(st) else '?'}: implementation "
                              f"{ex_[1:][first] if first is not None else ex_}, model {got[1:][first] if first is not None and first < len(got) - 1 else got}",
                              request=rq[:40], implementation=ex_[:40], model=got[:40])
    ctx.count("sched-schedules", len(reqs))
    ctx.count("sched-disagreements", bad)


def _sched_runs(ctx, n_sched, n_steps, sample, serial, reqs, expect, descr, seen_parsers):
    import nix_manipulator.parser as P
    import nix_manipulator.resolution as R
    from nix_manipulator.expressions.identifier import Identifier
    from nix_manipulator.expressions.path import _SOURCE_PATH, source_path_context
    from nix_manipulator.expressions.scope import Scope
    from nix_manipulator.expressions.trivia import _SOURCE_BYTES, source_bytes_context

    rng = ctx.rng
    for _ in range(n_sched):
        n_thr = rng.choice([2, 3, 3, 4])
        workers = [Worker() for _ in range(n_thr)]
        for w in workers:
            w.start()
        toks: list[list] = [[] for _ in range(n_thr)]  # per thread: stack of (var, cm)
        objs: dict[tuple[int, int], object] = {}
        freed_ids: dict[int, int] = {}
        nexto = [0] * n_thr
        steps, obs = [], []
        try:
            for _s in range(n_steps):
                t = rng.randrange(n_thr)
                w = workers[t]
                live = [k for k in objs if k[0] == t]
                choices = ["parse", "cset", "cget", "ralloc"]
                if toks[t]:
                    choices += ["creset", "creset"]
                if live:
                    choices += ["rfree", "rstore", "rstore", "rget", "rget", "rclear"]
                c = rng.choice(choices)
                if c == "parse":
                    d = rng.randrange(len(sample))

                    def do_parse(d=d):
                        pr = P._get_parser()
                        new = id(pr) not in seen_parsers
                        seen_parsers[id(pr)] = pr
                        from nix_manipulator import parse

                        out = parse(sample[d]).rebuild()
                        return new, out == serial[d]

                    new, same = w.call(do_parse)
                    steps += [[t, "getparser"], [t, "pbegin", d], [t, "pend"]]
                    obs += [[t, "t" if new else "f"], [t, "u"], [t, ["v", str(d)] if same else ["v", "none"]]]
                elif c == "cset":
                    v = rng.choice(["b", "p"])
                    x = rng.randrange(1000)

                    def do_set(v=v, x=x):
                        cm = source_bytes_context(str(x).encode()) if v == "b" else source_path_context(Path(str(x)))
                        cm.__enter__()
                        return cm

                    toks[t].append((v, w.call(do_set)))
                    steps.append([t, "cset", v, x])
                    obs.append([t, "u"])
                elif c == "cget":
                    v = rng.choice(["b", "p"])

                    def do_get(v=v):
                        val = _current("trivia", "_SOURCE_BYTES") if v == "b" else _current("path", "_SOURCE_PATH")
                        try:
                            return None if val is None else int(val.decode() if v == "b" else str(val))
                        except (ValueError, AttributeError, UnicodeDecodeError):
                            return "foreign"  # a value nobody in this schedule set: leaked from elsewhere

                    val = w.call(do_get)
                    steps.append([t, "cget", v])
                    obs.append([t, ["v", "none" if val is None else str(val)]])
                elif c == "creset":
                    v, cm = toks[t].pop()
                    w.call(lambda cm=cm: cm.__exit__(None, None, None))
                    steps.append([t, "creset", v])
                    obs.append([t, "u"])
                elif c == "ralloc":
                    n = nexto[t]
                    nexto[t] += 1
                    o = w.call(lambda: Identifier(name="v"))
                    objs[(t, n)] = o
                    if id(o) in freed_ids:
                        ctx.count("sched-id-reuse")
                        if freed_ids[id(o)] != t:
                            ctx.count("sched-id-reuse-across-threads")
                    steps.append([t, "ralloc", n, id(o)])
                    obs.append([t, "u"])
                else:
                    key = rng.choice(live)
                    n = key[1]
                    if c == "rfree":
                        def do_free(key=key):
                            freed_ids[id(objs[key])] = key[0]
                            del objs[key]
                            gc.collect()

                        w.call(do_free)
                        steps.append([t, "rfree", n])
                        obs.append([t, "u"])
                    elif c == "rstore":
                        x = rng.randrange(1000)

                        def do_store(key=key, x=x):
                            sc = Scope()
                            sc.marker = x
                            R.set_resolution_context(objs[key], [sc])

                        w.call(do_store)
                        steps.append([t, "rstore", n, x])
                        obs.append([t, "u"])
                    elif c == "rget":
                        def do_rget(key=key):
                            c_ = R.get_resolution_context(objs[key])
                            return None if c_ is None else c_.scopes[0].marker

                        val = w.call(do_rget)
                        steps.append([t, "rget", n])
                        obs.append([t, ["v", "none" if val is None else str(val)]])
                    else:
                        w.call(lambda key=key: R.clear_resolution_context(objs[key]))
                        steps.append([t, "rclear", n])
                        obs.append([t, "u"])
            # unwind context managers so that nothing leaks into later schedules
            for t in range(n_thr):
                while toks[t]:
                    v, cm = toks[t].pop()
                    workers[t].call(lambda cm=cm: cm.__exit__(None, None, None))
        finally:
            for w in workers:
                w.inbox.put(None)
            for w in workers:
                w.join(timeout=10)
            objs.clear()
            gc.collect()
        reqs.append(["sched", ["cfg", "t", "t", "t"]] + steps)
        expect.append(["ok"] + [[str(a), b] for a, b in obs])
        descr.append(steps)


# ------------------------------------------------------------------------------------------------
# run / search / replay
# ------------------------------------------------------------------------------------------------
def static_part(ctx: fw.Ctx):
    """Lean's verdict on the generated program vs the translator's own; names of unchecked writes."""
    from ..translate import effects_selftest, gen_effects

    problems = effects_selftest.run()
    ctx.extra["translator_selftest"] = "ok" if not problems else problems[:5]
    for pb in problems[:3]:
        ctx.tie_break("translator-selftest", pb)
    try:
        ex = gen_effects.extracted()
    except Exception as exc:  # noqa: BLE001 - already recorded as translator problem by the framework
        ctx.extra["effects_extraction"] = f"failed: {type(exc).__name__}: {exc}"
        return None
    known = known_offending()
    ctx.extra["effects"] = {
        "statements": len(ex.stmts), "raw_statements": ex.raw_stmt_count, "variables": ex.nvars,
        "write_statements": len(ex.labels), "allocation_sites": len(ex.site_names),
        "functions_translated": len(ex.reachable), "flagged_by_checker": ex.violations,
        "known_offending": known, "external_callees_assumed_pure": ex.externals,
        "property_reads_not_in_call_graph": {k: len(v) for k, v in ex.property_uses.items()},
        "dict_iterations_insertion_ordered": ex.dict_iterations, "set_iterations": ex.set_iterations,
    }
    try:
        rep = ctx.driver.ask(["effects-report"])
    except fw.Infra as exc:
        ctx.tie_break("driver", f"effects-report unavailable: {exc}")
        return ex
    if rep and rep[0] == "ok":
        d = {x[0]: x[1:] for x in rep[1:]}
        lean_v = sorted(unhx(a) for a in d.get("violations", []))
        if lean_v != sorted(ex.violations):
            ctx.tie_break("translator", f"Lean's checker flags {lean_v}, the translator's inference {sorted(ex.violations)}")
        if d.get("certerrors", ["0"])[0] != "0":
            ctx.tie_break("translator", f"the generated certificate is rejected on {d['certerrors'][0]} non-write statements")
        new = [v for v in lean_v if v not in known]
        if new:
            ctx.extra["unchecked_writes"] = [{"site": v, "at": ex.label_sites.get(v)} for v in new]
            ctx.tie_break("theorem", "Effects.check rejects write statements that are not known findings: "
                          + "; ".join(f"{v} at {ex.label_sites.get(v)}" for v in new))
    else:
        ctx.tie_break("translator", f"no effect program was generated: {rep}")
    return ex


def doc_stream(ctx: fw.Ctx, n: int, depth: int) -> list[str]:
    docs = [t for t, _k in nixdocs.stream(ctx.rng, n, max_depth=depth)]
    for k, v in nixdocs.stream.constructs.items():
        ctx.count("construct:" + k, v)
    return docs


def run(ctx: fw.Ctx):
    ctx.extra["rule"] = (
        "documents: 61 hand-written templates (one per construct / trivia position the renderers treat specially) "
        "+ seeded random programs (sets, lists, let, with, lambdas, application, select, binary chains, if, assert, "
        "inherit, attrpaths) with whitespace / line / block comments injected in every gap; non-trivial = contains "
        "a comment or a line break; schedules: random lock-step schedules of 2-4 real threads over parser, "
        "context-variable and registry steps"
    )
    ctx.trusted_base = [
        "Lean 4 kernel; axioms propext, Classical.choice, Quot.sound only",
        "translator harness/translate/effects_ir.py (Python ast -> effect IR: by-name call graph, reaching "
        "definitions, immutability from annotations) and gen_procstate.py; cross-checked on every run against the "
        "attribute stores actually executed (class-level __setattr__ hooks) and the observed changes of the tree",
        "harness/oracle/heapwatch.py (shallow state of every object reachable from the document)",
        "the lock-step executor and the driver's line protocol (schedule correspondence)",
        "SPEC definitions Effects.Pure, Sched.run/obsOf/proj/ValidFrom (Model/Effects.lean, Model/Sched.lean)",
    ]
    ctx.assumptions = [
        "CPython: distinct live objects have distinct id(); weakref callbacks run when the referent is collected",
        "CPython: copy.copy / dataclasses.replace are shallow; ContextVar values and threading.local attributes are "
        "per thread; the GIL makes single dict operations on _CONTEXTS atomic (exercised by N-thread runs, not proved)",
        "tree-sitter's C parser state is confined to the Parser object (exercised by N-thread runs, not proved)",
        "external callees listed in evidence (coverage.effects.external_callees_assumed_pure) and builtins do not "
        "write through their arguments; @property getters and the package's own special methods (__getitem__, "
        "__eq__, ...) are not invoked implicitly by rebuild (asserted dynamically on every document)",
        "annotations of immutable types (str, int, bool, float, bytes, None, Path) in the package are truthful",
        "calls are resolved by name; calls through function values held in variables are not followed",
    ]
    ctx.extra["fragment"] = (
        "(a) every function reachable by name from a `rebuild` method, plus the constructors / __post_init__ / "
        "__init__ they run (see coverage.effects.functions_translated); not covered: calls through function "
        "values, implicit special-method calls and property getters (asserted absent at run time), external "
        "callees; (b) code reachable by name from parser.parse/parse_file/parse_to_ast and from `rebuild`; "
        "(c) parser slot, the two source context variables, the resolution registry; document heaps are owned "
        "by one thread"
    )
    fp0 = tree_fingerprint()
    ex = static_part(ctx)
    quick = ctx.quick
    docs = doc_stream(ctx, 1500 if quick else 40000, 4 if quick else 6)
    ctx.count("documents", len(docs))

    # known findings first (their witnesses are the first templates), then the stream
    pur = Purity(ctx, ex)
    pur.run_stream(API_DOCS + docs)
    ctx.extra["purity_failure_keys"] = dict(sorted(pur.per_key.items()))

    det_docs = docs[: 61 + (240 if quick else 1500)]
    determinism(ctx, det_docs, 4 if quick else 32)
    threads_run(ctx, docs[: 61 + (600 if quick else 6000)], 8 if quick else 16, 200 if quick else 5000)
    sched_correspondence(ctx, 120 if quick else 1500, 40, docs[:120])
    if tree_fingerprint() != fp0:
        # the code imported in this process is no longer the code on disk (subprocesses and the
        # translator saw another tree): nothing observed on this run can be trusted either way
        raise fw.Infra(f"{fw.REPO}/nix_manipulator changed while the check was running; run again")


def search(ctx: fw.Ctx):
    """Broken tie and no failing input yet: look wider with the oracles."""
    budget = 30 if ctx.quick else 300
    t0 = time.time()
    from ..translate import gen_effects

    try:
        ex = gen_effects.extracted()
    except Exception:  # noqa: BLE001
        ex = None
    pur = Purity(ctx, ex)
    pur.tie_seen = set(range(100))  # no further tie messages from the search
    g = nixdocs.Gen(ctx.rng, max_depth=5)
    with H.WriteHooks() as hooks, H.PropertyCounter() as props:
        n = 0
        while time.time() - t0 < budget * 0.5:
            text = g.document()
            n += 1
            for f in pur.check_doc(text, hooks, props, record=False):
                pur.fail(f["key"], f["input"], f["what"])
    ctx.count("search-documents", n)
    docs = [t for t, _ in nixdocs.stream(ctx.rng, 400)]
    while time.time() - t0 < budget:
        if threads_run(ctx, docs, 8, 150, record=False):
            break
        ctx.count("search-thread-rounds")


def replay(payload: dict) -> int:
    inp = payload.get("input", {})
    key = payload.get("key", {})
    print("replaying", json.dumps(key), json.dumps(inp)[:400])
    clause = key.get("clause") if isinstance(key, dict) else None
    if clause in ("threads",):
        ctx = fw.Ctx("C15", "quick", int(payload.get("seed", 0)))
        docs = [inp["doc"]] + nixdocs.TEMPLATES
        bad = 0
        for _ in range(20):
            bad += threads_run(ctx, docs, int(inp.get("threads", 8)), 100, record=False)
        print("mismatches in 20 rounds:", bad)
        return 1 if bad else 0
    if clause in ("history",):
        a = OPS[inp["op"]](inp["doc"])
        for t in nixdocs.TEMPLATES:
            OPS["edit"](t)
            OPS["resolve"](t)
        b = OPS[inp["op"]](inp["doc"])
        print("first:", repr(a), "after other work:", repr(b))
        return 1 if a != b else 0
    if clause == "hashseed-cwd" and "doc" in inp:
        outs = set()
        for seed in ("0", "1", str(inp.get("hashseed", "2"))):
            code = ("import sys; sys.path.insert(0, %r); from harness.props.c15 import OPS; "
                    "print(OPS[%r](%r))" % (str(fw.VERIF), inp["op"], inp["doc"]))
            tmp = tempfile.mkdtemp(prefix="c15-")
            try:
                r = subprocess.run([sys.executable, "-c", code], cwd=tmp, env=dict(os.environ, PYTHONHASHSEED=seed),
                                   capture_output=True, text=True, timeout=120)
            finally:
                shutil.rmtree(tmp, ignore_errors=True)
            outs.add(r.stdout)
            print("PYTHONHASHSEED", seed, "->", repr(r.stdout[:200]))
        return 1 if len(outs) > 1 else 0
    if "doc" in inp:
        from nix_manipulator import parse

        src = parse(inp["doc"])
        ts = H.TreeState(src)
        r1 = src.rebuild()
        ch = ts.changes()
        r2 = src.rebuild()
        ch2 = ts.changes()
        print("first rebuild :", repr(r1))
        print("second rebuild:", repr(r2))
        for c in ch + [c for c in ch2 if c not in ch]:
            print(f"changed: {c['path']} ({c['cls']}.{c['field']}, {c['kind']}): {c['what']}")
        return 1 if (ch or ch2 or r1 != r2) else 0
    print("nothing to replay for this payload")
    return 0
