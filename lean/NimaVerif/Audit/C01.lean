import NimaVerif.Props.C01
open Nima.C01
#print axioms formatTrivia_nil
