import NimaVerif.Lemmas.NPath
/-!
Lemmas about the name comparison of the lookups (`_decode_attr_name`, `_same_attr_name`; model
`decodeAttrName`, `sameName` in Model/NPath.lean) against the SPEC reading `nixDecodeName`.
-/
namespace Nima

theorem char_eq_dash (c : Char) : (c = '-') ↔ c.toNat = 45 := by
  constructor
  · rintro rfl; rfl
  · intro e
    apply Char.ext
    apply UInt32.toNat_inj.mp
    exact e

theorem nameIdentRest_eq_spec (c : Char) : nameIdentRest c = nixIdentRest c := by
  unfold nameIdentRest nixIdentRest identRest
  have h := char_eq_dash c
  generalize c.toNat = n at *
  by_cases h45 : n = 45
  · subst h45; simp [h]; decide
  · have : ¬ c = '-' := fun e => h45 (h.mp e)
    have h0 : (decide (45 ≤ n) && decide (n ≤ 45)) = false := by
      simp only [Bool.and_eq_false_imp, decide_eq_true_eq, decide_eq_false_iff_not]; omega
    simp [this, inRanges, nameRestRanges, identRestRanges, h0]

theorem nameIdent_eq_spec (t : Text) : nameIdent t = isNixIdent t := by
  cases t with
  | nil => rfl
  | cons c cs =>
    have : nameIdentRest = nixIdentRest := funext nameIdentRest_eq_spec
    simp only [nameIdent, isNixIdent, this]
    rfl

theorem nameUnesc_eq_spec (c : Char) : nameUnesc c = unescChar c := by
  unfold nameUnesc unescChar nameEscapes
  by_cases hn : c = 'n'
  · subst hn; rfl
  · by_cases hr : c = 'r'
    · subst hr; rfl
    · by_cases ht : c = 't'
      · subst ht; rfl
      · have e1 : (c == 'n') = false := by simpa using hn
        have e2 : (c == 'r') = false := by simpa using hr
        have e3 : (c == 't') = false := by simpa using ht
        simp [List.lookup, hn, hr, ht, e1, e2, e3]

/-- the loop of `_decode_attr_name` reads a string body exactly as the SPEC says Nix does -/
theorem decodeNameBodyF_eq_spec (s : Text) : ∀ n, s.length < n → decodeNameBodyF n s = decodeBody s := by
  induction s using decodeBody.induct with
  | case1 => intro n hn; cases n with | zero => omega | succ n => simp [decodeNameBodyF, decodeBody]
  | case2 => intro n hn; cases n with | zero => omega | succ n => simp [decodeNameBodyF, decodeBody]
  | case3 c cs ih =>
    intro n hn; cases n with
    | zero => omega
    | succ n =>
      rw [decodeNameBodyF.eq_def, decodeBody]
      simp [ih n (by simp at hn; omega), nameUnesc_eq_spec]
  | case4 x => intro n hn; cases n with | zero => omega | succ n => rw [decodeNameBodyF.eq_def, decodeBody]; simp
  | case5 x => intro n hn; cases n with | zero => omega | succ n => rw [decodeNameBodyF.eq_def, decodeBody]; simp
  | case6 => intro n hn; cases n with | zero => omega | succ n => simp [decodeNameBodyF, decodeBody]
  | case7 c cs h1 h2 ih =>
    intro n hn; cases n with
    | zero => omega
    | succ n =>
      rw [decodeNameBodyF.eq_def, decodeBody]
      · simp [h2, ih n (by simp at hn ⊢; omega)]
        intro a b
        rcases h2 with h | h <;> contradiction
      · exact fun h => h1 h
  | case8 c cs h1 h2 ih =>
    intro n hn; cases n with
    | zero => omega
    | succ n =>
      rw [decodeNameBodyF.eq_def, decodeBody]
      · have h3 := not_or.mp h2
        have h4 : ¬ c = '{' := fun h => h1 h
        simp [ih n (by simp at hn; omega), h3, h4]
      · exact fun h => h1 h
  | case9 c cs h1 h2 h3 h4 h5 h6 ih =>
    intro n hn; cases n with
    | zero => omega
    | succ n =>
      have hb : c ≠ '\\' := by
        intro h; cases cs with
        | nil => exact h1 h rfl
        | cons a b => exact h2 a b h rfl
      have hd : c ≠ '$' := by
        intro h; cases cs with
        | nil => exact h5 h rfl
        | cons a b => exact h6 a b h rfl
      have hq : c ≠ '"' := fun h => h3 h
      rw [decodeNameBodyF.eq_def, decodeBody]
      · simp only [hb, hq, hd, if_false, false_and]
        cases cs with
        | nil => simp [decodeBody]
        | cons f more => simp [ih n (by simp at hn ⊢; omega)]
      all_goals first | assumption | (intros; simp_all)

theorem decodeNameBody_eq_spec (s : Text) : decodeNameBody s = decodeBody s :=
  decodeNameBodyF_eq_spec s _ (Nat.lt_succ_self _)

theorem nameIdent_quote (rest : Text) : nameIdent ('"' :: rest) = false := by
  have : nameIdentStart '"' = false := by decide
  simp [nameIdent, this]

theorem decodeAttrName_quoted (rest : Text) :
    decodeAttrName ('"' :: rest) =
      if rest.getLast? = some '"' then decodeNameBody rest.dropLast else none := by
  simp only [decodeAttrName, nameIdent_quote]
  split <;> simp

theorem decodeAttrName_bare (c : Char) (rest : Text) (hc : c ≠ '"') :
    decodeAttrName (c :: rest) = if nameIdent (c :: rest) then some (c :: rest) else none := by
  unfold decodeAttrName
  split
  · rename_i r heq; injection heq with h1; exact absurd h1 hc
  · rfl

theorem nixDecodeName_bare (c : Char) (rest : Text) (hc : c ≠ '"') :
    nixDecodeName (c :: rest) =
      if isNixIdent (c :: rest) && !nixKeywords.contains (c :: rest) then some (c :: rest) else none := by
  unfold nixDecodeName
  split
  · rename_i r heq; injection heq with h1; exact absurd h1 hc
  · rfl

/-- the model's reading of a token agrees with the SPEC wherever the SPEC reads a name -/
theorem decodeAttrName_of_spec (tok n : Text) (h : nixDecodeName tok = some n) :
    decodeAttrName tok = some n := by
  cases tok with
  | nil => simp [nixDecodeName, isNixIdent] at h
  | cons c rest =>
    by_cases hc : c = '"'
    · subst hc
      rw [decodeAttrName_quoted]
      simp only [nixDecodeName] at h
      simpa [decodeNameBody_eq_spec] using h
    · rw [nixDecodeName_bare c rest hc] at h
      rw [decodeAttrName_bare c rest hc, nameIdent_eq_spec]
      split at h
      · rename_i hid
        simp only [Bool.and_eq_true] at hid
        simp [hid.1]; simpa using h
      · cases h

/-- … and reads nothing else, reserved words apart -/
theorem decodeAttrName_sound (tok n : Text) (h : decodeAttrName tok = some n)
    (hk : nixKeywords.contains tok = false) : nixDecodeName tok = some n := by
  cases tok with
  | nil => simp [decodeAttrName, nameIdent] at h
  | cons c rest =>
    by_cases hc : c = '"'
    · subst hc
      rw [decodeAttrName_quoted] at h
      simp only [nixDecodeName]
      simpa [decodeNameBody_eq_spec] using h
    · rw [decodeAttrName_bare c rest hc, nameIdent_eq_spec] at h
      rw [nixDecodeName_bare c rest hc]
      split at h
      · rename_i hid
        have hk' : ¬ (c :: rest) ∈ nixKeywords := by simpa using hk
        simp [hid]; exact ⟨hk', by simpa using h⟩
      · cases h

theorem sameName_refl (a : Text) : sameName a a = true := by simp [sameName]

theorem sameName_symm (a b : Text) : sameName a b = sameName b a := by
  unfold sameName
  by_cases h : a = b
  · subst h; rfl
  · have h' : ¬ b = a := fun e => h e.symm
    have e1 : (a == b) = false := by simpa using h
    have e2 : (b == a) = false := by simpa using h'
    rw [e1, e2]
    cases ha : decodeAttrName a <;> cases hb : decodeAttrName b <;> simp
    rename_i x y
    by_cases hxy : x = y
    · subst hxy; rfl
    · have e3 : (x == y) = false := by simpa using hxy
      have e4 : (y == x) = false := by simpa using fun e => hxy (Eq.symm e)
      rw [e3, e4]

theorem sameName_trans (a b c : Text) (h1 : sameName a b = true) (h2 : sameName b c = true) :
    sameName a c = true := by
  unfold sameName at *
  simp only [Bool.or_eq_true, beq_iff_eq] at *
  rcases h1 with rfl | h1
  · exact h2
  · rcases h2 with rfl | h2
    · exact Or.inr h1
    · right
      cases ha : decodeAttrName a with
      | none => simp [ha] at h1
      | some n =>
        simp only [ha] at h1
        simp only [beq_iff_eq] at h1
        simp only [h1] at h2
        simpa using h2

/-- tokens without a static name are only equal to themselves -/
theorem sameName_dynamic (a b : Text) (h : decodeAttrName a = none) :
    sameName a b = true ↔ a = b := by
  simp [sameName, h]

/-- on tokens Nix can read, `sameName` is equality of the names they denote -/
theorem sameName_iff_spec (f g a b : Text) (hf : nixDecodeName f = some a) (hg : nixDecodeName g = some b) :
    sameName f g = true ↔ a = b := by
  have h1 := decodeAttrName_of_spec f a hf
  have h2 := decodeAttrName_of_spec g b hg
  unfold sameName
  simp only [h1, h2, Bool.or_eq_true, beq_iff_eq, Option.some.injEq]
  constructor
  · rintro (rfl | h)
    · rw [hf] at hg; injection hg
    · exact h.symm
  · intro h; exact Or.inr h.symm

end Nima
