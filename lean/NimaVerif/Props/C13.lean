import NimaVerif.Model.Value
import NimaVerif.Model.DataReader
import NimaVerif.Gen.Tables
import NimaVerif.Gen.Value
/-! # C13 (work in progress: ties only) -/
namespace Nima.C13

theorem tie_escape_table : Gen.escapeTable = some escapeTable := by decide
theorem tie_max_inline_width : Gen.maxInlineListWidth = some maxInlineListWidth := by decide
theorem tie_auto_multiline : Gen.autoMultilineThresholds = some autoMultilineThresholds := by decide
theorem tie_single_binding : Gen.singleBindingCount = some singleBindingCount := by decide
theorem tie_literals :
    Gen.litNull = some litNull ∧ Gen.litTrue = some litTrue ∧ Gen.litFalse = some litFalse ∧
    Gen.stringQuotes = some stringQuotes ∧
    Gen.stringEscapesInterpolation = some stringEscapesInterpolation := by decide
theorem tie_coerce_order :
    Gen.coerceOrder = some coerceOrder ∧ Gen.primitiveOrder = some primitiveOrder := by decide

end Nima.C13
