import NimaVerif.Model.ResolveSpec
/-!
L7 (d): the decidable side conditions of `C10.resolve_partial`, which are at the same time the
root-cause classes of the open C10 findings (harness/props/c10.py attributes every deviation of
the real code from `specResolve` to the first of these that holds on the shrunk input; a deviation
on an input where none holds is a new defect).
-/
namespace Nima.Scope
open Nima

mutual
/-- some node of the program satisfies `p` (let wrappers included) -/
def anyExpr (p : Expr → Bool) : Expr → Bool
  | .lit id => p (.lit id)
  | .ref id n => p (.ref id n)
  | .set id r items => p (.set id r items) || anyItems p items
  | .letE items body => p (.letE items body) || anyItems p items || anyExpr p body
  | .withE id env body => p (.withE id env body) || anyExpr p env || anyExpr p body
  | .paren id e => p (.paren id e) || anyExpr p e
  | .app id f a => p (.app id f a) || anyExpr p f || anyExpr p a
  | .lam1 id n b => p (.lam1 id n b) || anyExpr p b
  | .lamP id fs b => p (.lamP id fs b) || anyFormals p fs || anyExpr p b
def anyItems (p : Expr → Bool) : List Item → Bool
  | [] => false
  | .bind _ _ v :: rest => anyExpr p v || anyItems p rest
  | .inh _ _ :: rest => anyItems p rest
  | .inhFrom _ _ src :: rest => anyExpr p src || anyItems p rest
def anyFormals (p : Expr → Bool) : List Formal → Bool
  | [] => false
  | .req _ :: rest => anyFormals p rest
  | .opt _ d :: rest => anyExpr p d || anyFormals p rest
end

mutual
/-- some item of the program satisfies `q` -/
def anyItemE (q : Item → Bool) : Expr → Bool
  | .lit _ => false
  | .ref _ _ => false
  | .set _ _ items => anyItemL q items
  | .letE items body => anyItemL q items || anyItemE q body
  | .withE _ env body => anyItemE q env || anyItemE q body
  | .paren _ e => anyItemE q e
  | .app _ f a => anyItemE q f || anyItemE q a
  | .lam1 _ _ b => anyItemE q b
  | .lamP _ fs b => anyItemF q fs || anyItemE q b
def anyItemL (q : Item → Bool) : List Item → Bool
  | [] => false
  | .bind id n v :: rest => q (.bind id n v) || anyItemE q v || anyItemL q rest
  | .inh id ns :: rest => q (.inh id ns) || anyItemL q rest
  | .inhFrom id ns src :: rest => q (.inhFrom id ns src) || anyItemE q src || anyItemL q rest
def anyItemF (q : Item → Bool) : List Formal → Bool
  | [] => false
  | .req _ :: rest => anyItemF q rest
  | .opt _ d :: rest => anyItemE q d || anyItemF q rest
end

def isRefCore : Expr → Bool
  | .ref .. => true
  | .letE _ b => isRefCore b
  | _ => false

/-- `let … in x`: an identifier that carries let layers of its own -/
def hasLetOnIdent (prog : Expr) : Bool :=
  anyExpr (fun e => match e with | .letE _ b => isRefCore b | _ => false) prog
def hasInheritFrom (prog : Expr) : Bool :=
  anyItemE (fun it => match it with | .inhFrom .. => true | _ => false) prog
def hasLambda (prog : Expr) : Bool :=
  anyExpr (fun e => match e with | .lam1 .. => true | .lamP .. => true | _ => false) prog
def hasApp (prog : Expr) : Bool := anyExpr (fun e => match e with | .app .. => true | _ => false) prog
def hasParen (prog : Expr) : Bool := anyExpr (fun e => match e with | .paren .. => true | _ => false) prog
def hasWith (prog : Expr) : Bool := anyExpr (fun e => match e with | .withE .. => true | _ => false) prog
def hasQuotedName (prog : Expr) : Bool :=
  anyItemE (fun it => match it with | .bind _ ('"' :: _) _ => true | _ => false) prog
/-- the document is `let … in rec { … }` (the document-level set is asked for its scopes twice) -/
def letOnRecTop (prog : Expr) : Bool :=
  !prog.layers.isEmpty && (match prog.core with | .set _ true _ => true | _ => false)
def hasDeref (path : List Step) : Bool := path.any (fun s => s == .deref)
/-- a name written without quotes -/
def bareName (n : Text) : Bool := n.all (fun c => c != '"')
/-- every key of the path is written without quotes (`doc["a"]`, never `doc["\"a\""]`) -/
def keysBare (path : List Step) : Bool :=
  path.all (fun s => match s with | .key k => bareName k | .deref => true)
/-- the set a key step indexes, found on the syntax alone (through let layers, `with` bodies,
    parentheses and lambda bodies, to the argument of a call); identifiers are not followed -/
def synTarget : Expr → Option (Bool × List Item)
  | .set _ r items => some (r, items)
  | .letE _ body => synTarget body
  | .withE _ _ body => synTarget body
  | .paren _ e => synTarget e
  | .lam1 _ _ body => synTarget body
  | .lamP _ _ body => synTarget body
  | .app _ _ arg => synTarget arg
  | _ => none

/-- the value of the binding `key` of a binding list -/
def bindValue (key : Text) : List Item → Option Expr
  | [] => none
  | .bind _ n v :: rest => if n = key then some v else bindValue key rest
  | _ :: rest => bindValue key rest

/-- the path (keys only) ends on a name that a `rec` set inherits -/
def endsOnRecInherit : Nat → Expr → List Step → Bool
  | 0, _, _ => false
  | _, _, [] => false
  | n + 1, e, .key k :: rest =>
    match synTarget e with
    | none => false
    | some (r, items) =>
      match bindValue k items with
      | some v => endsOnRecInherit n v rest
      | none => rest.isEmpty && r && (findInherit k items).isSome
  | _, _, .deref :: _ => false

def recInheritKey (prog : Expr) (path : List Step) : Bool := endsOnRecInherit (path.length + 1) prog path

/-- the same, for paths with `.value` steps: the spec's own traversal takes `.value` (in the middle
    or at the end) of a name that a `rec` set inherits -/
def recInheritWalk (fuel : Nat) (prog : Expr) : SCur → List Step → Bool
  | .atInh _ _ _ _ true, [] => true
  | .atInh _ _ _ _ true, .deref :: _ => true
  | _, [] => false
  | cur, s :: rest =>
    match specStep fuel prog cur s with
    | .ok cur1 => recInheritWalk fuel prog cur1 rest
    | _ => false

def recInheritKeySem (fuel : Nat) (prog : Expr) (path : List Step) : Bool :=
  recInheritWalk fuel prog .root path

/-- The root-cause classes that hold of an input, most specific first. -/
def causes (fuel : Nat) (prog : Expr) (path : List Step) : List String :=
  (if hasLetOnIdent prog then ["let-on-identifier"] else []) ++
  (if hasInheritFrom prog then ["inherit-from"] else []) ++
  (if recInheritKey prog path || recInheritKeySem fuel prog path then ["inherit-in-rec-by-key"] else []) ++
  (if hasLambda prog then ["lambda"] else []) ++
  (if hasApp prog then ["application"] else []) ++
  (if hasParen prog then ["parenthesis"] else []) ++
  (if hasWith prog then ["with"] else []) ++
  (if letOnRecTop prog then ["let-on-document-rec"] else []) ++
  (if hasQuotedName prog then ["quoted-name"] else []) ++
  (if keysBare path then [] else ["quoted-key"]) ++
  (if hasDeref path then ["value-step"] else [])

mutual
/-- the expressions of the fragment of `C10.resolve_partial`: literals, references, `rec` and plain
    sets of bindings and `inherit` clauses, non-empty let layers around anything but a reference -/
def fragE : Expr → Bool
  | .lit _ => true
  | .ref _ _ => true
  | .set _ _ items => fragItems items
  | .letE items body => !items.isEmpty && fragItems items && !isRefCore body && fragE body
  | _ => false
def fragItems : List Item → Bool
  | [] => true
  | .bind _ n v :: rest => bareName n && fragE v && fragItems rest
  | .inh _ _ :: rest => fragItems rest
  | .inhFrom .. :: _ => false
end

def keysOnly (path : List Step) : Bool := path.all (fun s => s != .deref)

/-- The fragment of `C10.resolve_partial`: let layers, `rec` and plain sets, `inherit`, references
    and literals, nested to any depth and with any shadowing, walked by keys; the two exclusions
    inside it are the two findings that live there (`cex_inherit_in_rec_by_key`,
    `cex_document_rec_duplicates_lets`). On every generated input the harness checks that this
    predicate holds exactly when no root-cause class does.

    Names and keys are written without quotes (`bareName` in `fragItems`, `keysBare`). Quoted KEYS
    are outside because the two sides read a key differently: the SPEC `specResolve` (`keyInSet`)
    takes the key for the attribute's name as it is written in the set, the code
    (`AttributeSet.__getitem__`, `findBindKey`) takes it for a name TOKEN and compares what the
    tokens denote (`sameName`), so `doc["\"a\""]` reaches the binding `a = …;` in the code and no
    attribute in the spec (`C10.quoted_key_finds_bare_binding`). On bare tokens the two readings
    coincide (`sameName_of_bare`). -/
def InFragment (prog : Expr) (path : List Step) : Bool :=
  fragE prog && keysOnly path && keysBare path && !recInheritKey prog path && !letOnRecTop prog

end Nima.Scope
