import NimaVerif.Props.C18
open Nima.C18
#print axioms formatTrivia_nil
