import NimaVerif.Model.NodeEq
/-! `Node.beq` is equality; decidable equality of nodes and layers. -/
namespace Nima
namespace Node

mutual
  theorem beq_refl : ∀ a : Node, beq a a = true
    | atom a => by simp [beq]
    | ident a => by simp [beq]
    | set s vs o m r => by simp [beq, beqL_refl vs, beqL_refl o]
    | bind i n ne v b a => by simp [beq, beq_refl v]
    | inherit i ns => by simp [beq]
    | entry segs l b a => by simp [beq, beq_refl l]
  theorem beqL_refl : ∀ xs : List Node, beqL xs xs = true
    | [] => by simp [beqL]
    | x :: xs => by simp [beqL, beq_refl x, beqL_refl xs]
end

mutual
  theorem eq_of_beq : ∀ a b : Node, beq a b = true → a = b
    | atom a, b => by cases b <;> simp [beq]
    | ident a, b => by cases b <;> simp [beq]
    | set s vs o m r, b => by
        cases b <;> simp [beq]
        rename_i s' vs' o' m' r'
        intro h1 h2 h3 h4 h5
        exact ⟨h1, eqL_of_beqL vs vs' h2, eqL_of_beqL o o' h3, h4, h5⟩
    | bind i n ne v b0 a, b => by
        cases b <;> simp [beq]
        rename_i i' n' ne' v' b' a'
        intro h1 h2 h3 h4 h5 h6
        exact ⟨h1, h2, h3, eq_of_beq v v' h4, h5, h6⟩
    | inherit i ns, b => by cases b <;> simp [beq]
    | entry segs l b0 a, b => by
        cases b <;> simp [beq]
        rename_i segs' l' b' a'
        intro h1 h2 h3 h4
        exact ⟨h1, eq_of_beq l l' h2, h3, h4⟩
  theorem eqL_of_beqL : ∀ xs ys : List Node, beqL xs ys = true → xs = ys
    | [], ys => by cases ys <;> simp [beqL]
    | x :: xs, ys => by
        cases ys with
        | nil => simp [beqL]
        | cons y ys =>
          simp only [beqL, Bool.and_eq_true, List.cons.injEq]
          intro ⟨h1, h2⟩
          exact ⟨eq_of_beq x y h1, eqL_of_beqL xs ys h2⟩
end

theorem beq_iff (a b : Node) : beq a b = true ↔ a = b :=
  ⟨eq_of_beq a b, fun h => h ▸ beq_refl a⟩
theorem beqL_iff (xs ys : List Node) : beqL xs ys = true ↔ xs = ys :=
  ⟨eqL_of_beqL xs ys, fun h => h ▸ beqL_refl xs⟩

instance : DecidableEq Node := fun a b => decidable_of_iff _ (beq_iff a b)

end Node

instance : DecidableEq Layer := fun a b =>
  decidable_of_iff (a.scope = b.scope ∧ a.order = b.order ∧ a.bodyBefore = b.bodyBefore ∧
      a.bodyAfter = b.bodyAfter ∧ a.afterLet = b.afterLet)
    (by cases a; cases b; simp)

instance : DecidableEq Doc := fun a b =>
  decidable_of_iff (a.noTarget = b.noTarget ∧ a.target = b.target ∧ a.tBefore = b.tBefore ∧
      a.tAfter = b.tAfter ∧ a.scope = b.scope ∧ a.stBodyBefore = b.stBodyBefore ∧
      a.stBodyAfter = b.stBodyAfter ∧ a.stOrder = b.stOrder ∧ a.stAfterLet = b.stAfterLet ∧
      a.stack = b.stack ∧ a.trailing = b.trailing ∧ a.topScope = b.topScope ∧ a.next = b.next ∧
      a.rstripped = b.rstripped ∧ a.scratch = b.scratch)
    (by cases a; cases b; simp)

end Nima
