"""C20 — parse and rebuild terminate quickly and fail only in documented ways.

Tie
  * translator: Gen/Multiplicity.lean (render multiplicities per class and child field, from the Python
    AST), Gen/Raises.lean (explicit raise sites that can escape parse/from_cst/rebuild); the theorems
    of Props/C20.lean are re-checked against them on every run;
  * translator cross-check at run time: a tracer wraps every `rebuild` (no source hook) and counts
    renders per (parent class, child field) — observed <= table on every document, the doubled rows are
    reproduced by their depth families;
  * correspondence: the Lean cost model `calls m skeleton` (driver) against the observed number of
    `rebuild` invocations: >= on every document, equality on the finding families.
Oracle (implementation only)
  * exception classes of parse(text).rebuild() on valid programs, damaged programs (token deletion /
    duplication / insertion, truncation at every byte) and random UTF-8 text;
  * depth-parameterised families for every construct: calls(2n) / calls(n) must stay polynomial.
"""
from __future__ import annotations

import json
import os
import signal
import subprocess
import sys
import time
import traceback

from .. import framework as fw
from ..oracle.rendercount import BudgetExceeded, Tracer
from ..translate import gen_multiplicity, gen_raises

GEN_TABLES = ("multiplicity", "raises")

NESTING_BOUND = 150
RATIO = 4.4  # calls(2n) <= RATIO * calls(n): quadratic growth (ratio 4) passes, 2^n does not
HOLE = "§"
TIME_RATIO = 40
TIME_CAP = 45.0  # CPU seconds for one parse+rebuild of a generated text (the largest takes < 2 s on the unchanged tree)


class TimeBudgetExceeded(BaseException):
    """raised from the SIGPROF handler (CPU time, so machine load does not matter); BaseException so
    that no `except Exception` of the library swallows it"""


def _on_sigprof(_sig, _frm):
    raise TimeBudgetExceeded()


# ---------------------------------------------------------------- input families
# one nesting step per construct and layout variant; HOLE is where the next level goes
WRAPPERS = [
    ("lambda", "a: §"), ("lambda-nl", "a:\n§"), ("lambda-formals", "{ a }: §"),
    ("lambda-formals-ml", "{\n  a,\n  b\n}:\n§"), ("lambda-at", "args@{ a, ... }: §"),
    ("formal-default", "{ a ? (§) }: a"), ("formal-default-nl", "{\n  a ?\n    (§)\n}: a"),
    ("with-body", "with a; §"), ("with-body-nl", "with a;\n§"), ("with-env", "with (§); x"),
    ("assert-body", "assert a; §"), ("assert-cond", "assert (§); x"), ("assert-cond-nl", "assert\n  (§); x"),
    ("let-body", "let v = 1; in §"), ("let-body-nl", "let\n  v = 1;\nin\n§"), ("let-value", "let v = §; in v"),
    ("let-value-nl", "let\n  v =\n    §;\nin\nv"),
    ("if-cond", "if (§) then a else b"), ("if-then", "if a then (§) else b"), ("if-else", "if a then b else §"),
    ("if-else-nl", "if a then\n  b\nelse\n  §"), ("if-then-nl", "if a then\n  (§)\nelse\n  b"),
    ("paren", "(§)"), ("paren-nl", "(\n  §\n)"),
    ("list", "[ (§) ]"), ("list-nl", "[\n  (§)\n]"), ("list-2", "[ 1 (§) ]"),
    ("set", "{ a = §; }"), ("set-nl", "{\n  a = §;\n}"), ("set-attrpath", "{ a.b = §; }"),
    ("set-rec", "rec { a = §; }"), ("set-value-nl", "{\n  a =\n    §;\n}"),
    ("set-list", "{ a = [ (§) ]; }"), ("set-list-nl", "{\n  a = [\n    (§)\n  ];\n}"),
    ("call-arg", "f (§)"), ("call-arg-nl", "f\n  (§)"), ("call-fn", "(§) x"), ("call-2", "f a (§)"),
    ("call-arg-nospace", "f(§)"), ("call-list-nospace", "f[(§)]"), ("select-nospace", "(§).a.b"),
    ("import", "import (§)"),
    ("select", "(§).a"), ("select-or", "x.a or (§)"), ("select-or-nl", "x.a\n  or (§)"),
    ("has-attr", "(§) ? a"), ("not", "!(§)"), ("neg", "-(§)"),
    ("plus-right", "a + (§)"), ("plus-left", "(§) + a"), ("plus-right-nl", "a +\n  (§)"),
    ("plus-right-nl2", "a\n  + (§)"), ("concat-right", "a ++ (§)"), ("concat-right-nl", "a ++\n  (§)"),
    ("concat-right-nl2", "a\n  ++ (§)"), ("update-right-nl", "a //\n  (§)"), ("update-right-nl2", "a\n  // (§)"),
    ("impl-right-nl", "a ->\n  (§)"), ("and-right-nl", "a &&\n  (§)"),
    ("inherit-from", "{ inherit (§) a; }"), ("inherit-from-nl", "{\n  inherit\n    (§)\n    a;\n}"),
    ("string-interp", '"${§}"'), ("indented-interp", "''\n  ${§}\n''"),
    ("comment-before", "# c\n§"), ("paren-comment", "( # c\n  §)"), ("block-comment", "/* c */ §"),
    # operator on its own line, an own-line comment before the middle operand of a chain
    ("update-chain-comment-mid", "a\n//\n# c\n(§)\n// d"), ("concat-chain-comment-mid", "a\n++\n# c\n(§)\n++ d"),
    ("update-chain-mid-bare", "a\n//\n# c\n§\n// d"), ("list-two", "[ 1 §  ]"), ("list-two-first", "[ § 2 ]"),
]
LEAVES = [("id", "x"), ("list-ml", "[\n  1\n  2\n]"), ("set-ml", "{\n  a = 1;\n}")]
# leaves used by single families only
EXTRA_LEAVES = {"if-nl": "if a then\n  b\nelse\n  c", "wide-id": "x" * 120}
ALL_LEAVES = dict(LEAVES) | EXTRA_LEAVES
# leaf pool of the exception-class stream (every kind of atom and small compound)
LEAF_POOL = [
    "x", "1", "1.5", "\"s\"", "\"a ${b} c\"", "''\n  s\n''", "./p", "<n>", "~/p", "true", "null", "[ ]", "{ }", "rec { }",
    "[ 1 2 ]", "{ a = 1; }", "a.b", "a.b or c", "f x", "x: x", "{ }: 1", "{ a, ... }: a", "-1", "!a", "a ? b", "a + b",
    "a ++ b", "a // b", "a -> b", "if a then b else c", "with a; b", "assert a; b", "let a = 1; in a", "import ./x.nix",
    "{ inherit a; }", "{ inherit (a) b; }", "(a)", "[\n  1\n  2\n]", "{\n  a = 1;\n}", "a # c", "/* c */ a",
    "[ /* a */ /* b */ c ]", "[ /* a */ /* b */ ]", "{ /* a */ /* b */ c = 1; }", "f /* a */ /* b */ x",
    "( /* a */ /* b */ x )", "{ a, /* a */ /* b */ b }: a", "let /* a */ /* b */ v = 1; in v",
    "{\n  x = 1;\n\n  y = 2;\n}", "[\n  1\n\n  2\n]", "{\n  x = 1; # c\n\n  # d\n  y = 2;\n}", "[ 1 2 ]", "[ 1 [ 2 3 ] ]",
]

# size- (not nesting-) parameterised families: n scales the length
SIZED = {
    "long-set": lambda n: "{\n" + "".join(f"  a{i} = {i};\n" for i in range(n * 25)) + "}\n",
    "long-list": lambda n: "[\n" + "".join(f"  {i}\n" for i in range(n * 25)) + "]\n",
    "long-list-inline": lambda n: "[ " + " ".join(str(i) for i in range(n * 25)) + " ]",
    "long-formals": lambda n: "{\n" + "".join(f"  a{i},\n" for i in range(n * 10)) + "  ...\n}: a0\n",
    "long-inherit": lambda n: "{ inherit " + " ".join(f"a{i}" for i in range(n * 25)) + "; }",
    "long-let": lambda n: "let\n" + "".join(f"  a{i} = {i};\n" for i in range(n * 25)) + "in\na0\n",
    "long-comments": lambda n: "".join(f"# comment {i}\n" for i in range(n * 25)) + "x\n",
    "long-string": lambda n: '"' + "abc ${x} " * (n * 25) + '"',
    "long-attrpath": lambda n: "{ " + ".".join(f"a{i}" for i in range(n * 4)) + " = 1; }",
    "long-attrpaths": lambda n: "{\n" + "".join(f"  a.b{i}.c = {i};\n" for i in range(n * 10)) + "}\n",
    # operator chains: nesting in the CST grows with n (left- or right-deep)
    "chain-plus": lambda n: "a" + " + a" * n,
    "chain-plus-nl": lambda n: "a" + " +\n  a" * n,
    "chain-plus-nl2": lambda n: "a" + "\n  + a" * n,
    "chain-concat": lambda n: "a" + " ++ a" * n,
    "chain-concat-nl": lambda n: "a" + " ++\n  a" * n,
    "chain-concat-nl2": lambda n: "a" + "\n  ++ a" * n,
    "chain-update-nl": lambda n: "a" + " //\n  a" * n,
    "chain-update-nl2": lambda n: "a" + "\n  // a" * n,
    "chain-impl": lambda n: "a" + " -> a" * n,
    "chain-impl-nl": lambda n: "a" + " ->\n  a" * n,
    "chain-and-nl": lambda n: "a" + " &&\n  a" * n,
    "chain-apply": lambda n: "f" + " x" * n,
    "chain-select": lambda n: "x" + ".a" * n,
    "chain-not": lambda n: "!" * n + "x",
}

# the open findings: (class, field) -> (wrapper or sized family, leaf) whose call count the Lean model
# must reproduce exactly
FINDING_FAMILIES = {
    ("FunctionDefinition", "output"): ("lambda", "id"),
    ("WithStatement", "body"): ("with-body", "if-nl"),
    ("BinaryExpression", "right"): ("chain-concat-nl", None),
    ("Inherit", "from_expression"): ("inherit-from", "id"),
    ("Assertion", "expression"): ("assert-cond-nl", "id"),
    ("Binding", "value"): ("set-list", "wide-id"),
}

TEMPLATES = [
    " x\r\n\r\n ", "\n{ }\r\n\r\n ", "  { a = 1; }\r\n\r\n\r\n", "\t\n[ 1 ]\n\n\n   ", "\r\n\r\nx\r\n\r\n",
    "{ \"a$b\" = 1; }", "{ \"$\" = 1; \"$$\" = 2; }", "{ pkgs.\"price$\" = 1; }", "let \"a$b\" = 1; in x", "{ \"a\\$b\" = 1; \"${x}$\" = 2; }",
    "{ a = /* default */ 1; }", "{ a /* c */ = 1; }", "let a = /* c */ 1; in a",
    "{ a = 1; b = \"s\"; }", "{\n  a = 1; # c\n  b.c = [ 1 2 ];\n}\n", "let a = 1; in a", "let\n  a = 1;\n  inherit (b) c;\nin\n{ inherit a; }\n",
    "{ pkgs, lib, ... }:\npkgs.mkDerivation {\n  name = \"x\";\n  src = ./src;\n}\n", "a: b: a + b", "{ a ? 1, b }@args: a", "args@{ ... }: args",
    "with pkgs; [ a b c ]", "with import <nixpkgs> { };\nstdenv", "assert a == b; c", "assert a; /* c */ b", "if a then b else c",
    "if a\nthen b\nelse if c then d else e", "(a)", "( # c\n  a\n)", "[ ]", "[ 1 2.5 \"s\" ./p <n> true null ]", "[\n  a # c\n  b\n]",
    "rec { a = b; b = 1; }", "{ }", "{ inherit a b; inherit (c) \"d\"; }", "f x y", "f {\n  a = 1;\n}", "import ./x.nix { inherit a; }",
    "a.b.c", "a.b or c", "a ? b.c", "!a", "-a", "a + b * c - d / e", "a ++ b ++ c", "a // b", "a -> b", "a && b || c", "a == b", "a < b",
    "\"a ${b} c\"", "''\n  a ${b}\n  c\n''", "{ \"a b\" = 1; ${c} = 2; }", "x: { y = x; }", "# lead\n{ a = 1; }\n# trail\n", "/* block\n   c */\n1\n",
    "{ a = \"ü é\"; } # ☃\n", "let f = x: x; in f 1", "{ a = let b = 1; in b; }", "[ (f x) (a.b) ]", "a:\n\nb", "{\n\n  a = 1;\n\n\n  b = 2;\n\n}\n",
]
INSERT_MENU = [";", "}", "{", "(", ")", "[", "]", "in", "=", ":", "\"", "''", "${", "/*", "#", ",", "?", "@", ".", "let", "\n"]
RANDOM_ALPHABET = list("abxyz_019 \n\t;:=.,?@!+-*/<>&|(){}[]\"'$#\\~%^") + [
    "''", "${", "/*", "*/", "let ", "in ", "with ", "if ", "then ", "else ", "assert ", "inherit ", "rec ", "or ",
    "é", "ü", "☃", "𝔘", "\u0000", "\u00a0", "\u2028", "\ufeff", "\r\n", "\x7f", "\x1b",
]


def nest_text(template: str, n: int, leaf: str) -> str:
    text = leaf
    for _ in range(n):
        text = template.replace(HOLE, text)
    return text


def nest_indented(template: str, n: int, leaf: str) -> str:
    """like nest_text, but the nested text is indented with the line its hole is on (RFC style): the
    indentation in the INPUT grows with the depth"""
    pre = template.split(HOLE)[0]
    pad = pre.rsplit("\n", 1)[-1]
    pad = pad[: len(pad) - len(pad.lstrip(" "))]
    text = leaf
    for _ in range(n):
        text = template.replace(HOLE, text.replace("\n", "\n" + pad))
    return text


# nesting steps whose gaps hold an own-line comment (kept as text by the parser), nested with growing
# indentation: work per gap must not depend exponentially on the indentation
INDENTED = [
    ("set-value-comment", "{\n  a =\n    # c\n    §;\n}"), ("set-comment", "{\n  # c\n  a = §;\n}"),
    ("if-then-comment", "if a then\n  # c\n  (§)\nelse\n  b"), ("if-else-comment", "if a then\n  b\nelse\n  # c\n  (§)"),
    ("paren-comment-nl", "(\n  # c\n  §\n)"), ("list-comment", "[\n  # c\n  (§)\n]"),
    ("let-value-comment", "let\n  v =\n    # c\n    §;\nin\nv"), ("let-body-comment", "let\n  v = 1;\nin\n# c\n(§)"),
    ("lambda-comment", "a:\n# c\n(§)"), ("with-comment", "with a;\n# c\n(§)"), ("assert-comment", "assert a;\n# c\n(§)"),
    ("call-comment", "f\n  # c\n  (§)"), ("select-comment", "(§)\n  # c\n  .a"), ("plus-comment", "a +\n  # c\n  (§)"),
    ("concat-comment", "a\n  # c\n  ++ (§)"), ("has-attr-comment", "(§)\n  # c\n  ? a"),
    ("formal-default-comment", "{\n  a ?\n    # c\n    (§),\n  ...\n}: a"),
    ("inherit-comment", "{\n  inherit\n    # c\n    (§)\n    a;\n}"),
    ("block-comment-ml", "{\n  a =\n    /* c\n       d */\n    §;\n}"), ("blank-lines", "{\n\n  a =\n\n    §;\n\n}"),
    ("trailing-ws", "{   \n  a =   \n    §;   \n}"), ("tabs", "{\n\ta =\n\t\t§;\n}"), ("crlf", "{\r\n  a =\r\n    §;\r\n}"),
]


def family_text(name: str, leaf: str | None, n: int) -> str:
    if name in SIZED:
        return SIZED[name](n)
    tmpl = dict(WRAPPERS)[name]
    return nest_text(tmpl, n, ALL_LEAVES[leaf or "id"])


def cycle_text(names: list[str], leaf: str, n: int) -> str:
    w = dict(WRAPPERS)
    text = ALL_LEAVES[leaf]
    for _ in range(n):
        for nm in reversed(names):
            text = w[nm].replace(HOLE, text)
    return text


# ---------------------------------------------------------------- texts that must not run in this process
def unsafe_in_process(text: str) -> bool:
    """py-tree-sitter 0.26.0 returns borrowed references from Point.row/.column; the code reads them
    for comments and for defaults on their own line, so a comment (or anything) at row/column >= 257
    corrupts the heap of the interpreter that parses it (open finding C20-crash-point-refcount).
    Such texts are probed in a worker process."""
    if "#" not in text and "/*" not in text and "?" not in text:
        return False
    lines = text.split("\n")
    return len(lines) >= 250 or any(len(line.encode("utf-8")) >= 250 for line in lines)


def crash_trigger(text: str) -> str:
    """The Point.row/.column defect needs a row or column >= 257 (smaller ints are immortal): any crash
    on a text without one is something else."""
    lines = text.split("\n")
    if len(lines) > 257 or any(len(line.encode("utf-8")) > 257 for line in lines):
        return "row-or-column-above-256"
    return "other"


def run_worker(ctx, texts: list[str], labels: list[str]):
    """parse+rebuild each text in a child interpreter; a dead child is a failing input."""
    pending = list(range(len(texts)))
    env = dict(os.environ)
    repo = os.environ.get("NIMA_REPO")
    if repo:
        env["PYTHONPATH"] = repo + os.pathsep + env.get("PYTHONPATH", "")
    while pending:
        batch = pending[:400]
        try:
            p = subprocess.run([sys.executable, "-m", "harness.props.c20_worker"], cwd=str(fw.VERIF),
                               input=json.dumps([texts[i] for i in batch]), capture_output=True, text=True,
                               timeout=600, env=env)
        except subprocess.TimeoutExpired:
            raise fw.Infra("C20 worker timeout")
        started = -1
        done = set()
        for line in p.stdout.splitlines():
            try:
                rec = json.loads(line)
            except ValueError:
                continue
            if rec.get("start"):
                started = rec["i"]
                continue
            done.add(rec["i"])
            text = texts[batch[rec["i"]]]
            ctx.case({"kind": "worker", "label": labels[batch[rec["i"]]], "len": len(text)}, True)
            ctx.count("texts:worker")
            if rec["exc"] is None:
                continue
            ctx.count("exception:" + rec["exc"])
            if rec["kind"] == "documented":
                continue
            clause = "nix-syntax-error-escapes" if rec["kind"] == "NixSyntaxError" else "exception"
            ctx.fail({"clause": clause, "class": rec["exc"], "site": rec["site"]},
                     {"text": text[:6000], "label": labels[batch[rec["i"]]]},
                     f"parse(text).rebuild() raised {rec['exc']} ({rec['msg']}) at {rec['site']}")
        if p.returncode == 0 and len(done) == len(batch):
            pending = pending[len(batch):]
            continue
        if started < 0 or started in done:
            raise fw.Infra(f"C20 worker failed (rc={p.returncode}): {p.stderr[-400:]}")
        # the child died while processing text `started`
        text = texts[batch[started]]
        sig = -p.returncode if p.returncode < 0 else p.returncode
        ctx.case({"kind": "worker", "label": labels[batch[started]], "len": len(text)}, True)
        ctx.count("interpreter_crashes")
        ctx.fail({"clause": "crash", "signal": sig, "trigger": crash_trigger(text)},
                 {"text": text if len(text) < 20000 else text[:20000] + "…", "label": labels[batch[started]],
                  "python_expr": labels[batch[started]]},
                 f"the interpreter died with signal {sig} during parse(text).rebuild() "
                 f"({labels[batch[started]]}, {len(text)} characters): neither a result nor an exception")
        pending = pending[started + 1:]


# inputs whose only purpose is the crash probe (row/column >= 257 where the code reads Point.row/.column)
CRASH_PROBES = [
    ("'# c\\n' * 2000 + 'x\\n'", "# c\n" * 2000 + "x\n"),
    ("list of 2000 items with trailing comments", "[\n" + "".join(f"  {i} # c\n" for i in range(2000)) + "]\n"),
    ("set of 2000 bindings with trailing comments", "{\n" + "".join(f"  a{i} = 1; # c\n" for i in range(2000)) + "}\n"),
]


# ---------------------------------------------------------------- probing the implementation
class Probe:
    def __init__(self, ctx, data):
        self.ctx = ctx
        self.table = data["table_parsed"]
        self.tracer = Tracer(data["render_like"], data["fields"])
        self.cost_reqs: list = []  # (request, observed frames, label, must_equal)
        self.observed: dict = {}
        self.unattributed: dict = {}
        self.exc_seen: dict = {}
        self.worker_texts: list = []
        self.worker_labels: list = []

    def defer(self, text: str, label: str):
        self.worker_texts.append(text)
        self.worker_labels.append(label)

    def __enter__(self):
        self.tracer.install()
        return self

    def __exit__(self, *a):
        self.tracer.uninstall()

    def run(self, text: str, budget: int | None = None, want_skeleton: bool = False, check: bool = True):
        """parse + rebuild under the tracer.
        -> dict(exc, site, frames, cpu, error_text, doubled, skeleton, exceeded)"""
        from nix_manipulator import parse

        tr = self.tracer
        tr.reset(budget)
        res = {"exc": None, "site": None, "frames": 0, "cpu": 0.0, "error_text": False, "doubled": [],
               "skeleton": None, "exceeded": False, "out": None}
        res["timeout"] = False
        t0 = time.process_time()
        old = signal.signal(signal.SIGPROF, _on_sigprof)
        signal.setitimer(signal.ITIMER_PROF, TIME_CAP)
        try:
            try:
                src = parse(text)
                res["error_text"] = bool(src.contains_error)
                res["out"] = src.rebuild()
            finally:
                signal.setitimer(signal.ITIMER_PROF, 0)
        except TimeBudgetExceeded:
            res["timeout"] = True
        except BudgetExceeded:
            res["exceeded"] = True
        except Exception as exc:  # noqa: BLE001
            res["exc"] = exc
            res["site"] = exc_site(exc)
        finally:
            signal.signal(signal.SIGPROF, old)
        res["cpu"] = time.process_time() - t0
        if res["timeout"]:
            return res
        res["frames"] = tr.frames
        if res["exceeded"] and tr.frames:
            # the frames that were completed before the budget ran out still tell which edges double
            tr.check(self.table)
            res["doubled"] = sorted({(a, b) for a, b, _c, _n in tr.doubled_edges()})
        if check and not res["exceeded"] and tr.frames:
            bad, obs = tr.check(self.table)
            for k, n in obs.items():
                if n > self.observed.get(k, 0):
                    self.observed[k] = n
            for pcls, cands, n, bound, ccls in bad:
                key = (pcls, tuple(cands), ccls, "missing" if bound < 0 else f"{n}>{bound}")
                self.unattributed.setdefault(key, text)
            res["doubled"] = sorted({(a, b) for a, b, _c, _n in tr.doubled_edges()})
            if want_skeleton and res["exc"] is None:
                try:
                    res["skeleton"] = tr.skeleton()
                except ValueError as exc:
                    self.unattributed.setdefault(("skeleton", str(exc), "", ""), text)
        return res


def exc_site(exc: BaseException) -> str:
    site = "?"
    for fs in traceback.extract_tb(exc.__traceback__):
        if "nix_manipulator" in fs.filename:
            site = f"{fs.filename.split('nix_manipulator/')[-1]}:{fs.name}"
    return site


def skel_sexp(sk):
    return [sk[0]] + [[f, skel_sexp(c)] for f, c in sk[1]]


def classify_exception(exc: BaseException) -> str:
    from nix_manipulator.exceptions import NixSyntaxError

    if isinstance(exc, NixSyntaxError):
        return "NixSyntaxError"
    if isinstance(exc, ValueError):
        return "documented"
    return "internal"


# ---------------------------------------------------------------- oracle (b): growth of call counts
def check_family(ctx, probe: Probe, label: str, gen, depths, failures: list, summary: dict, sized=False):
    """gen(n) -> text. For consecutive (n, 2n) in depths: calls(2n) <= RATIO * calls(n)."""
    counts = {}
    cpus: dict = {}
    for n in sorted(set(d for pair in depths for d in pair)):
        counts[n] = None
    row = {}
    for n, n2 in depths:
        if unsafe_in_process(gen(n)) or unsafe_in_process(gen(n2)):
            probe.defer(gen(n2), f"{label} n={n2}")
            ctx.count("family_depths_sent_to_worker")
            break
        if counts.get(n) is None:
            r = probe.run(gen(n))
            if time_failure(r, gen(n), label, n, failures):
                summary[label] = {n: f">{TIME_CAP}s"}
                return
            if observe_exception(ctx, r, gen(n), label, n):
                return
            if r["error_text"]:
                ctx.count("family_not_valid_nix")
                summary[label] = "not valid Nix for the bundled grammar"
                return
            counts[n] = r["frames"]
            cpus[n] = r["cpu"]
        base = counts[n]
        budget = int(RATIO * base) + 8
        text2 = gen(n2)
        r2 = probe.run(text2, budget=budget)
        ctx.case({"family": label, "n": n2}, True)
        if time_failure(r2, text2, label, n2, failures):
            row[n2] = f">{TIME_CAP}s"
            summary[label] = row
            return
        if observe_exception(ctx, r2, text2, label, n2):
            return
        if r2["exceeded"]:
            edges = r2["doubled"] or [("?", "?")]
            row[n2] = f">{budget}"
            for cls, fld in edges:
                failures.append({
                    "key": {"clause": "cost", "class": cls, "field": fld},
                    "input": {"family": label, "n": n, "n2": n2, "calls_n": base, "budget": budget,
                              "text_n": gen(n) if len(gen(n)) < 3000 else gen(n)[:3000] + "…"},
                    "what": f"family {label}: {base} rebuild calls at depth {n}, more than {budget} at depth {n2} "
                            f"(ratio > {RATIO}): exponential in the nesting depth; {cls}.{fld} is rendered more "
                            f"than once per render of its parent",
                })
            summary[label] = row
            return
        counts[n2] = r2["frames"]
        cpus[n2] = r2["cpu"]
        # work outside the rebuild calls (parsing, gap handling) must stay polynomial too: doubling the
        # depth may multiply the CPU time by a polynomial factor (x4 quadratic, x8 cubic), not by 2^n
        if r2["cpu"] > 1.5 and r2["cpu"] > TIME_RATIO * max(cpus.get(n, 0.0), 0.01):
            again = probe.run(text2, budget=budget)["cpu"]
            if again > 1.5 and again > TIME_RATIO * max(cpus.get(n, 0.0), 0.01):
                failures.append({
                    "key": {"clause": "time", "family": label.split("/")[0]},
                    "input": {"family": label, "n": n, "n2": n2, "cpu_n": cpus.get(n), "cpu_n2": min(again, r2["cpu"]),
                              "text_n": gen(n) if len(gen(n)) < 3000 else gen(n)[:3000] + "…"},
                    "what": f"family {label}: {cpus.get(n, 0):.3f} s CPU at depth {n}, {min(again, r2['cpu']):.2f} s at depth {n2} "
                            f"(more than {TIME_RATIO}x for twice the depth) although the number of rebuild calls stays "
                            f"within the polynomial budget: super-polynomial work outside rebuild (parse side)",
                })
                summary[label] = {**row, n2: f"cpu {min(again, r2['cpu']):.1f}s"}
                return
        row[n] = base
        row[n2] = r2["frames"]
    summary[label] = row


def time_failure(r, text, label, n, failures) -> bool:
    if not r.get("timeout"):
        return False
    failures.append({
        "key": {"clause": "time", "family": label.split("/")[0]},
        "input": {"family": label, "n": n, "text": text if len(text) < 6000 else text[:6000] + "…", "cap_s": TIME_CAP,
                  "frames": r["frames"]},
        "what": f"family {label}: parse+rebuild at depth/size {n} ({len(text)} characters) used more than {TIME_CAP} s "
                f"of CPU (completed rebuild calls so far: {r['frames']}); the other depths of the family take milliseconds",
    })
    return True


def observe_exception(ctx, r, text, label, n) -> bool:
    if r["exc"] is None:
        return False
    exc = r["exc"]
    kind = classify_exception(exc)
    name = type(exc).__name__
    ctx.count("exception:" + name)
    if kind == "documented":
        return True
    if isinstance(exc, RecursionError) and label is not None and n is not None and n > NESTING_BOUND:
        ctx.count("recursion_error_beyond_bound")
        return True
    clause = "nix-syntax-error-escapes" if kind == "NixSyntaxError" else "exception"
    ctx.fail({"clause": clause, "class": name, "site": r["site"]},
             {"text": text if len(text) < 6000 else text[:6000] + "…", "family": label, "n": n},
             f"parse(text).rebuild() raised {name} ({exc!s:.120}) at {r['site']}: not a documented failure class")
    return True


# ---------------------------------------------------------------- oracle (a): exception classes
def leaves_of(text: str):
    from nix_manipulator.parser import parse_to_ast

    root = parse_to_ast(text)
    out = []

    def walk(n):
        if n.child_count == 0:
            if n.end_byte > n.start_byte:
                out.append((n.start_byte, n.end_byte))
        else:
            for c in n.children:
                walk(c)

    walk(root)
    return out


def damaged(ctx, text: str, quick: bool):
    raw = text.encode("utf-8")
    toks = leaves_of(text)
    out = []
    for (a, b) in toks:
        out.append(raw[:a] + raw[b:])  # deletion
        out.append(raw[:b] + b" " + raw[a:b] + raw[b:])  # duplication
    gaps = sorted({0, len(raw)} | {a for a, _ in toks} | {b for _, b in toks})
    for g in gaps:
        menu = INSERT_MENU if not quick else ctx.rng.sample(INSERT_MENU, 4)
        for ins in menu:
            out.append(raw[:g] + ins.encode() + raw[g:])
    for i in range(len(raw)):
        out.append(raw[:i])  # truncation at every byte
    return [b.decode("utf-8", "ignore") for b in out]


def conflict_texts():
    """the same (dotted) attribute defined twice, every ordered pair of path shape x value kind: the
    documented outcome is a merged set or ValueError('Duplicate …')"""
    paths = ["a", "a.b", "a.b.c", "a.\"b\"", "a.${b}", "\"a\".b"]
    values = ["1", "{ x = 1; }", "{ }", "rec { x = 1; }", "[ 1 ]", "x", "{ x.y = 1; }", "{ b = 1; }", "{ b.c = 1; }",
              "{ inherit x; }", "f { }", "{ b = { c = 1; }; }"]
    for holder in ("{{ {B} }}", "rec {{ {B} }}", "let {B} in a", "{{ z = {{ {B} }}; }}", "{{\n  {B}\n}}"):
        for p1 in paths:
            for v1 in values:
                for p2 in paths:
                    for v2 in values:
                        if holder != "{{ {B} }}" and (len(p1) + len(v1) + len(p2) + len(v2)) % 5:
                            continue
                        yield holder.format(B=f"{p1} = {v1}; {p2} = {v2};")
    for extra in ("{ inherit a; a.b = 1; }", "{ a.b = 1; inherit a; }", "{ inherit (x) a; a = { }; }",
                  "{ a.b = 1; a = { c = 2; }; a.d = 3; }", "{ a = { b = 1; }; a = { c = 2; }; a = 3; }",
                  "{ a.b.c = 1; a.b = { d = 2; }; a = { b.e = 3; }; }", "{ a.b = { c = 1; }; a.b.c = 2; }",
                  "let a.b = 1; a.b = 2; in a", "{ a.b = x: x; a.b = 2; }", "{ a.b = { x = 1; }; a.b = x: x; }"):
        yield extra


def random_text(rng, max_len: int) -> str:
    n = rng.randint(0, max_len)
    out = []
    size = 0
    mode = rng.random()
    while size < n:
        if mode < 0.3:
            c = chr(rng.choice([rng.randint(0, 0x7f), rng.randint(0x80, 0x7ff), rng.randint(0x800, 0xd7ff),
                                rng.randint(0xe000, 0xffff), rng.randint(0x10000, 0x10ffff)]))
        else:
            c = rng.choice(RANDOM_ALPHABET)
        out.append(c)
        size += len(c.encode("utf-8"))
    return "".join(out)


def run_text(ctx, probe: Probe, text: str, kind: str, want_cost: bool = False):
    if unsafe_in_process(text):
        probe.defer(text, kind)
        return None
    r = probe.run(text, budget=2_000_000, want_skeleton=want_cost)
    ctx.case({"kind": kind, "text": text[:200]}, nontrivial=kind != "template")
    ctx.count("texts:" + kind)
    if r.get("timeout"):
        ctx.fail({"clause": "time", "family": kind}, {"text": text[:6000], "cap_s": TIME_CAP},
                 f"parse+rebuild of a {len(text)}-character text used more than {TIME_CAP} s of CPU")
        return r
    if r["exceeded"]:
        ctx.fail({"clause": "cost", "class": "?", "field": "?"}, {"text": text[:4000]},
                 "more than 2,000,000 rebuild calls for a short text")
        return r
    if r["exc"] is not None:
        observe_exception(ctx, r, text, None, None)
        return r
    if r["error_text"]:
        ctx.count("passthrough")
        if r["out"] != text:
            ctx.count("passthrough_changed")  # C07's business; counted, not judged here
    if want_cost and r["skeleton"] is not None:
        probe.cost_reqs.append((["cost", "parsed", skel_sexp(r["skeleton"])], r["frames"], text[:300], False))
    return r


# ---------------------------------------------------------------- the check
def run(ctx: fw.Ctx):
    ctx.extra["rule"] = (
        "texts: valid templates, every single-token deletion/duplication/insertion and every byte truncation of "
        "them, random UTF-8 text (non-trivial = anything but an unmodified template); families: one nesting step "
        "per construct and layout variant, nested n times (and random cycles of 2-3 steps), plus size-scaled "
        "long inputs; indented families (comment-bearing gaps with indentation growing with the depth) under a CPU cap "
        "per text; every ordered pair of duplicate (dotted) attribute definitions; every (family, depth) is one case"
    )
    ctx.trusted_base = [
        "Lean 4 kernel; axioms propext, Classical.choice, Quot.sound only",
        "translator harness/translate/gen_multiplicity.py (abstract interpretation of the rebuild methods) and "
        "gen_raises.py (raise sites + by-name call graph); cross-checked against run-time counts / observed classes",
        "run-time tracer harness/oracle/rendercount.py (wraps rebuild methods; attributes children to fields by identity)",
        "the cost recurrence Model/Cost.lean as the meaning of 'number of rebuild calls' (compared with the observed "
        "count through the driver on every family and document)",
        "CPython: recursion limit, exception hierarchy; tree-sitter-nix: has_error gate",
    ]
    ctx.assumptions = [
        f"nesting bound {NESTING_BOUND}: inputs whose expression tree is deeper may raise RecursionError "
        "(CPython's limit of 1000 frames is reached at roughly 200-500 nested constructs); not judged beyond the bound",
        "implicit exceptions (IndexError/AttributeError/TypeError from partial operations) have no raise site: "
        "they are excluded by the oracle on the generated streams only, not by a theorem",
        "time is not modelled in Lean; cost = number of rebuild invocations; that each invocation (and the parser's gap "
        f"handling) does work polynomial in its text is observed only, through a CPU cap of {TIME_CAP} s per generated text",
        "input text is a Python str (immutable): 'input left untouched' holds by construction",
    ]
    try:
        data = gen_multiplicity.extract()
    except Exception as exc:  # noqa: BLE001  (the framework already recorded the broken tie)
        ctx.tie_break("translator", f"multiplicity table unavailable in the harness: {exc}")
        data = {"table_parsed": {}, "table": {}, "render_like": {}, "fields": [], "notes": []}
    try:
        raises = gen_raises.extract()
    except Exception as exc:  # noqa: BLE001
        ctx.tie_break("translator", f"raise table unavailable in the harness: {exc}")
        raises = {"escaping": None}
    ctx.extra["translator_notes"] = data.get("notes", [])
    ctx.extra["doubled_rows"] = sorted(f"{k}.{f}={n}" for (k, f), n in data["table_parsed"].items() if n >= 2)
    ctx.extra["doubled_rows_api_only"] = sorted(
        f"{k}.{f}={n}" for (k, f), n in data["table"].items() if n >= 2 and data["table_parsed"].get((k, f), 0) < 2)
    ctx.extra["nesting_bound"] = NESTING_BOUND
    ctx.extra["fragment"] = (
        "cost: every class with a rebuild method (the table is generated for all of them; none uncovered); "
        "failure modes: explicit raise sites and unguarded xs[const]/next(it) sites of all reachable functions; "
        "there is no Except-valued Lean model of from_cst/rebuild, so absence of implicit exceptions and of "
        "interpreter crashes is established by observation of the implementation only")
    ctx.extra["uncovered"] = {}

    failures: list = []
    summary: dict = {}
    with Probe(ctx, data) as probe:
        explore(ctx, probe, failures, summary, deadline=ctx.t0 + (70 if ctx.quick else 1000))
        correspond(ctx, probe)
    for label, text in CRASH_PROBES:
        probe.defer(text, label)
    run_worker(ctx, probe.worker_texts, probe.worker_labels)
    for f in failures:
        ctx.fail(f["key"], f["input"], f["what"])
    ctx.extra["families"] = {k: v for k, v in list(summary.items())[:400]}
    ctx.extra["observed_max_per_doubled_row"] = {
        f"{k}.{f}": probe.observed.get((k, f), 0) for (k, f), n in sorted(data["table_parsed"].items()) if n >= 2}
    # translator cross-check: every render was attributed to a table row and stayed below it
    for key, text in list(probe.unattributed.items())[:5]:
        ctx.tie_break("translator-dynamic",
                      f"run-time render count not covered by Gen.multiplicityParsed: parent {key[0]}, fields {key[1]}, "
                      f"child {key[2]}, {key[3]}", input=text[:2000])
    # translator cross-check for raises: observed classes ⊆ classes with an escaping raise site
    if raises.get("escaping") is not None:
        seen = {k.split(":", 1)[1] for k in ctx.dist if k.startswith("exception:")}
        extra = sorted(c for c in seen if c not in raises["escaping"] and c in ("ValueError", "NixSyntaxError"))
        if extra:
            ctx.tie_break("translator-dynamic", f"observed exception classes without an escaping raise site: {extra}")
        ctx.extra["escaping_classes_static"] = raises["escaping"]


def explore(ctx, probe: Probe, failures: list, summary: dict, deadline: float, wide: bool = False):
    quick = ctx.quick
    pairs = [(4, 8), (8, 16)] if quick else [(4, 8), (8, 16), (12, 24)]
    # --- (b) depth families: every wrapper x leaf
    for wname, tmpl in WRAPPERS:
        for lname, leaf in LEAVES:
            if quick and lname == "set-ml" and not wide:
                continue
            label = f"{wname}/{lname}"
            check_family(ctx, probe, label, lambda n, t=tmpl, l=leaf: nest_text(t, n, l), pairs, failures, summary)
    for name, gen in SIZED.items():
        check_family(ctx, probe, name, gen, pairs if quick else pairs + [(32, 64)], failures, summary, sized=True)
    for wname, tmpl in INDENTED:
        for lname, leaf in LEAVES[:1] if quick else LEAVES:
            check_family(ctx, probe, f"indented:{wname}/{lname}", lambda n, t=tmpl, l=leaf: nest_indented(t, n, l),
                         [(4, 8), (8, 16)] if quick else [(4, 8), (8, 16), (16, 32)], failures, summary)
    # CPU time must follow the call counts (thorough tier): doubling the size of a long input whose call
    # count is linear must not multiply the time by more than 10 (quadratic string handling passes)
    if not quick:
        for name, gen in SIZED.items():
            row = summary.get(name)
            if not isinstance(row, dict) or any(isinstance(v, str) for v in row.values()):
                continue
            for n, n2 in ((32, 64), (64, 128)):
                t1, t2 = gen(n), gen(n2)
                if unsafe_in_process(t1) or unsafe_in_process(t2):
                    continue
                a = min(probe.run(t1, budget=3_000_000, check=False)["cpu"] for _ in range(2))
                b = min(probe.run(t2, budget=3_000_000, check=False)["cpu"] for _ in range(2))
                ctx.case({"family": name, "n": n2, "time": True}, True)
                summary[name + " cpu_s"] = {**summary.get(name + " cpu_s", {}), n: round(a, 4), n2: round(b, 4)}
                if a >= 0.05 and b > 10 * a:
                    b = min(b, min(probe.run(t2, budget=3_000_000, check=False)["cpu"] for _ in range(3)))
                    if b > 10 * a:
                        failures.append({
                            "key": {"clause": "time", "family": name},
                            "input": {"family": name, "n": n, "n2": n2, "cpu_n": a, "cpu_n2": b},
                            "what": f"family {name}: {a:.3f} s CPU at size {n}, {b:.3f} s at size {n2} (more than 10x "
                                    f"for twice the input) although the number of rebuild calls is linear",
                        })
    # random cycles of two or three steps
    names = [w for w, _ in WRAPPERS]
    n_cycles = (300 if quick else 12000) * (3 if wide else 1)
    for i in range(n_cycles):
        if time.time() > deadline - (25 if quick else 300):
            ctx.count("cycles_skipped_for_time", n_cycles - i)
            break
        cyc = [ctx.rng.choice(names) for _ in range(ctx.rng.choice([2, 2, 3]))]
        lname, _leaf = ctx.rng.choice(LEAVES)
        label = "+".join(cyc) + "/" + lname
        check_family(ctx, probe, label, lambda n, c=cyc, l=lname: cycle_text(c, l, n),
                     [(3, 6), (6, 12)], failures, summary)
    # deep but linear: nesting up to the stated bound must not hit the recursion limit
    deep_n = 30 if quick else 48
    for wname, tmpl in WRAPPERS:
        label = f"{wname}/id"
        row = summary.get(label)
        if not isinstance(row, dict) or any(isinstance(v, str) for v in row.values()):
            continue  # exponential family: covered by the finding
        text = nest_text(tmpl, deep_n, "x")
        if unsafe_in_process(text):
            probe.defer(text, f"{label} n={deep_n}")
            continue
        r = probe.run(text, budget=200_000, check=False)
        ctx.case({"family": label, "n": deep_n, "deep": True}, True)
        if r["exc"] is not None:
            observe_exception(ctx, r, text, label, deep_n)
    # --- (a) exception classes
    for t in TEMPLATES:
        run_text(ctx, probe, t, "template", want_cost=True)
    for t in conflict_texts():
        run_text(ctx, probe, t, "conflict")
    budget_texts = 15000 if quick else 300000
    done = 0
    for t in TEMPLATES:
        if time.time() > deadline - (12 if quick else 200) or done > budget_texts:
            ctx.count("damage_skipped_for_time")
            break
        first = damaged(ctx, t, quick)
        for d in first:
            run_text(ctx, probe, d, "damaged", want_cost=(done % 7 == 0))
            done += 1
        if not quick:  # two damages per text
            for d in ctx.rng.sample(first, min(10, len(first))):
                for d2 in damaged(ctx, d, True):
                    run_text(ctx, probe, d2, "damaged2")
                    done += 1
    n_random = (5000 if quick else 150000) * (3 if wide else 1)
    for i in range(n_random):
        if time.time() > deadline - (6 if quick else 60):
            ctx.count("random_skipped_for_time", n_random - i)
            break
        run_text(ctx, probe, random_text(ctx.rng, 400 if i % 10 else 4096), "random")
    # every construct around every kind of leaf, once (and every pair of constructs in the thorough tier)
    wtexts = [t for _w, t in WRAPPERS]
    for i, tmpl in enumerate(wtexts):
        if time.time() > deadline - (5 if quick else 40):
            ctx.count("shapes_skipped_for_time")
            break
        for leaf in LEAF_POOL:
            run_text(ctx, probe, tmpl.replace(HOLE, leaf), "shape", want_cost=(i % 3 == 0))
    if not quick or wide:
        for t1 in wtexts:
            if time.time() > deadline - (5 if quick else 40):
                ctx.count("shape_pairs_skipped_for_time")
                break
            for t2 in wtexts:
                for leaf in ("x", "[ ]", "{ }", "\"s\"", "a: b", "[\n  1\n  2\n]"):
                    run_text(ctx, probe, t1.replace(HOLE, t2.replace(HOLE, leaf)), "shape2")
    # valid random programs: cycles over several leaves at small depth, with the cost model
    for i in range(500 if quick else 20000):
        if time.time() > deadline - (4 if quick else 30):
            break
        cyc = [ctx.rng.choice(names) for _ in range(ctx.rng.randint(1, 4))]
        lname, _ = ctx.rng.choice(LEAVES)
        run_text(ctx, probe, cycle_text(cyc, lname, ctx.rng.randint(1, 2)), "program", want_cost=True)


def correspond(ctx, probe: Probe):
    """Lean cost model vs observed invocation counts."""
    # the finding families must be reproduced exactly by the model (translator worst case = reality)
    for (cls, fld), (fam, leaf) in FINDING_FAMILIES.items():
        for n in (3, 6):
            text = family_text(fam, leaf, n)
            r = probe.run(text, want_skeleton=True)
            if r["skeleton"] is None or r["exc"] is not None:
                ctx.tie_break("correspondence", f"finding family {fam} could not be measured", input=text)
                continue
            reproduced = (cls, fld) in r["doubled"]
            probe.cost_reqs.append((["cost", "parsed", skel_sexp(r["skeleton"])], r["frames"],
                                    f"{fam}/{leaf} n={n}", reproduced))
            if not reproduced:
                ctx.count("finding_family_not_doubled:" + cls + "." + fld)
    reqs = [q[0] for q in probe.cost_reqs]
    replies = ctx.driver.ask_many(reqs) if reqs else []
    ctx.corr_checked = len(reqs)
    below = exact = 0
    for (rq, frames, label, must_equal), rep in zip(probe.cost_reqs, replies):
        if not rep or rep[0] != "ok":
            ctx.tie_break("correspondence", f"cost model gave {rep} for {label!r}", request=str(rq)[:500])
            continue
        model = int(rep[1])
        if model == frames:
            exact += 1
        if model < frames:
            below += 1
            if below <= 3:
                ctx.tie_break("correspondence",
                              f"observed {frames} rebuild calls but the cost model allows only {model}: {label!r}",
                              request=str(rq)[:1500], implementation=frames, model=model)
        elif must_equal and model != frames:
            ctx.tie_break("correspondence",
                          f"finding family {label}: cost model says {model}, observed {frames} (must be equal)",
                          request=str(rq)[:1500], implementation=frames, model=model)
    ctx.count("cost_model_requests", len(reqs))
    ctx.count("cost_model_exact", exact)
    ctx.count("cost_model_below_observed", below)


def search(ctx: fw.Ctx):
    """Broken tie and no failing input yet: explore wider with the same oracles."""
    try:
        data = gen_multiplicity.extract()
    except Exception:  # noqa: BLE001
        data = {"table_parsed": {}, "table": {}, "render_like": {}, "fields": [], "notes": []}
    failures: list = []
    summary: dict = {}
    with Probe(ctx, data) as probe:
        explore(ctx, probe, failures, summary, deadline=time.time() + (45 if ctx.quick else 400), wide=True)
    run_worker(ctx, probe.worker_texts, probe.worker_labels)
    for f in failures:
        ctx.fail(f["key"], f["input"], f["what"])


def replay(payload: dict) -> int:
    inp = payload.get("input", {})
    try:
        data = gen_multiplicity.extract()
    except Exception:  # noqa: BLE001
        data = {"table_parsed": {}, "table": {}, "render_like": {}, "fields": [], "notes": []}
    ctx = fw.Ctx("C20", "quick", int(payload.get("seed", 0)))
    with Probe(ctx, data) as probe:
        if inp.get("family") and inp.get("n2"):
            label, n, n2 = inp["family"], inp["n"], inp["n2"]
            fam, _, leaf = label.partition("/")
            if fam in SIZED:
                gen = SIZED[fam]
            elif "+" in fam:
                gen = lambda k: cycle_text(fam.split("+"), leaf, k)
            else:
                gen = lambda k: family_text(fam, leaf, k)
            a = probe.run(gen(n))
            b = probe.run(gen(n2), budget=int(RATIO * a["frames"]) + 8)
            print(f"family {label}: {a['frames']} rebuild calls at depth {n}; depth {n2}: "
                  + (f"more than {int(RATIO * a['frames']) + 8} (aborted)" if b["exceeded"] else str(b["frames"])))
            print("doubled edges at depth", n, ":", a["doubled"])
            return 1 if b["exceeded"] else 0
        if "text" in inp and (payload.get("key", {}).get("clause") == "crash" or unsafe_in_process(inp["text"])):
            before = len(ctx.failures)
            run_worker(ctx, [inp["text"].rstrip("…")], [inp.get("label", "replay")])
            for f in ctx.failures[before:]:
                print(f["what"])
            return 1 if len(ctx.failures) > before else 0
        if "text" in inp:
            r = probe.run(inp["text"])
            if r["exc"] is not None:
                print(f"raised {type(r['exc']).__name__}: {r['exc']} at {r['site']}")
                return 0 if classify_exception(r["exc"]) == "documented" else 1
            print("no exception;", r["frames"], "rebuild calls")
            return 0
    print("nothing to replay in", sorted(inp))
    return 0
