"""C10, registry half: `_CONTEXTS` against `Nima.Registry` and document histories with id reuse.

A. object level: random histories of create / store / get / clear / drop / gc.collect() on bare
   `Identifier` objects; the address of every new object (its `id()`) is fed to the model's `alloc`,
   so CPython's choice of addresses (including reuse of a freed one) is replayed, not predicted; the
   answers of every `get` are compared with `Registry.answers`, and after every operation the state
   anchor is observed directly: every `_CONTEXTS` entry whose weak reference is alive is keyed by the
   id of its referent.
B. document level: a pool of documents is created, traversed and dropped in random order in one
   process; every traversal must give what the model gives for that document alone, and a resolved
   value must be an object of the document that was asked (never of another, dead or alive).
"""
from __future__ import annotations

import gc

from .. import framework as fw
from ..gen import scope as G


def _registry():
    from nix_manipulator import resolution as R

    return R


def check_anchor(R, keys=None) -> str | None:
    """the state anchor, on the whole registry or on the entries at the given keys"""
    if keys is None:
        entries = list(R._CONTEXTS.items())
    else:
        entries = [(k, R._CONTEXTS[k]) for k in keys if k in R._CONTEXTS]
    for key, (ref, _ctx) in entries:
        obj = ref()
        if obj is not None and id(obj) != key:
            return f"entry keyed {key} refers to a live object with id {id(obj)}"
    return None


def object_history(ctx, length):
    from nix_manipulator.expressions.identifier import Identifier
    from nix_manipulator.expressions.scope import Scope

    R = _registry()
    rng = ctx.rng
    objs: list = []          # object number -> object or None
    addr_no: dict[int, int] = {}
    ops = []
    real = []
    reuse = 0
    payload = 0
    dead_addrs = set()
    for _ in range(length):
        live = [i for i, o in enumerate(objs) if o is not None]
        kind = rng.choices(["alloc", "store", "get", "clear", "free", "gc"], [3, 4, 5, 1, 3, 0.15])[0]
        if kind == "alloc" or not live:
            o = Identifier(name="r")
            a = addr_no.setdefault(id(o), len(addr_no))
            if id(o) in dead_addrs:
                reuse += 1
                dead_addrs.discard(id(o))
            objs.append(o)
            ops.append(["alloc", a])
            # the new object must not inherit anything
            ops.append(["get", len(objs) - 1])
            c = R.get_resolution_context(o)
            real.append("none" if c is None else ["some", str(c.scopes[0][0])])
            o = None
        elif kind == "store":
            i = rng.choice(live)
            payload += 1
            R.set_resolution_context(objs[i], (Scope([payload]),))
            ops.append(["store", i, payload])
        elif kind == "get":
            i = rng.choice(live)
            c = R.get_resolution_context(objs[i])
            real.append("none" if c is None else ["some", str(c.scopes[0][0])])
            ops.append(["get", i])
        elif kind == "clear":
            i = rng.choice(live)
            R.clear_resolution_context(objs[i])
            ops.append(["clear", i])
        elif kind == "free":
            i = rng.choice(live)
            dead_addrs.add(id(objs[i]))
            objs[i] = None
            ops.append(["free", i])
        else:
            gc.collect()
        bad = check_anchor(R, list(addr_no))
        if bad:
            ctx.fail({"clause": "isolation", "cause": "registry-anchor"}, {"ops": ops},
                     f"_CONTEXTS state anchor violated after {ops[-1]}: {bad}")
            break
    objs.clear()
    return ops, real, reuse


def run_objects(ctx):
    n = 400 if ctx.quick else 5000
    length = 60 if ctx.quick else 120
    reqs, reals = [], []
    total_reuse = 0
    for _ in range(n):
        ops, real, reuse = object_history(ctx, length)
        total_reuse += reuse
        reqs.append(["registry"] + ops)
        reals.append((ops, real))
    bad = check_anchor(_registry())
    if bad:
        ctx.fail({"clause": "isolation", "cause": "registry-anchor"}, {"ops": []}, f"_CONTEXTS state anchor violated: {bad}")
    ctx.count("registry_histories", n)
    ctx.count("registry_id_reuse_events", total_reuse)
    bad = 0
    for (ops, real), rep in zip(reals, ctx.driver.ask_many(reqs)):
        ctx.corr_checked += len(real)
        ctx.case({"registry_ops": len(ops)}, nontrivial=True)
        got = rep[1:] if rep and rep[0] == "ok" else rep
        if got != real:
            bad += 1
            i = next((i for i, (a, b) in enumerate(zip(got, real)) if a != b), 0)
            # the abstract registry never serves a context that was not stored for the object: a real
            # answer that differs from it is the property's failure (leak), not only a broken tie
            ctx.tie_break("correspondence", f"registry history: get #{i} differs", request=ops,
                          implementation=real, model=got)
            if bad <= 3:
                ctx.fail({"clause": "isolation", "cause": "registry-stale-context"}, {"ops": ops},
                         f"get #{i} of a registry history answered {real[i] if i < len(real) else None}, the context "
                         f"last stored for that object is {got[i] if i < len(got) else None}")
    ctx.count("registry_disagreements", bad)


def run_documents(ctx):
    """create / traverse / drop documents in one process; id reuse across documents is provoked by
    dropping a document and immediately parsing another of the same shape."""
    from ..props import c10

    rng = ctx.rng
    rg = G.RandomGen(rng, max_depth=3)
    rounds = 200 if ctx.quick else 2000
    pool: list = []     # dicts: prog, text, src, index, paths, asked (list of paths), got
    finished = []
    foreign = 0
    for _ in range(rounds):
        for _ in range(rng.randint(1, 4)):
            act = rng.choices(["create", "traverse", "drop", "gc"], [3, 6, 3, 0.3])[0]
            if act == "create" or not pool:
                prog = rg.program() if rng.random() < 0.5 or not finished else rng.choice(finished)["prog"]
                text = G.render(prog)
                try:
                    paths = c10.explore_paths(prog, text, 4, rng)
                    src, index = c10.parse_indexed(prog, text)
                except Exception:  # noqa: BLE001
                    continue
                pool.append({"prog": prog, "text": text, "src": src, "index": index, "paths": paths,
                             "asked": [], "got": []})
            elif act == "traverse":
                d = rng.choice(pool)
                p = rng.choice(d["paths"])
                r = c10.real_traverse(d["src"], p, d["index"])
                d["asked"].append(p)
                d["got"].append(r)
                if r[0] == "foreign":
                    foreign += 1
                    ctx.fail({"clause": "isolation", "cause": "foreign-document"},
                             {"text": d["text"], "path": list(p), "history": "document pool"},
                             f"`{d['text']}` path {list(p)} resolved to an object that is not part of the document")
            elif act == "drop":
                d = pool.pop(rng.randrange(len(pool)))
                d["src"] = None
                d["index"] = None
                finished.append(d)
            else:
                gc.collect()
        if True:
            bad = check_anchor(_registry())
            if bad:
                ctx.fail({"clause": "isolation", "cause": "registry-anchor"}, {"history": "document pool"},
                         f"_CONTEXTS state anchor violated: {bad}")
                return
    for d in pool:
        d["src"] = None
        d["index"] = None
    finished.extend(pool)
    pool.clear()
    gc.collect()
    leftover = len(_registry()._CONTEXTS)
    ctx.count("registry_entries_left_after_all_documents_dropped", leftover)
    docs = [d for d in finished if d["asked"]]
    reqs = [["history", c10.FUEL, G.sexp(d["prog"]), [G.sexp_path(p) for p in d["asked"]]] for d in docs]
    bad = 0
    leaks = 0
    for d, rep in zip(docs, ctx.driver.ask_many(reqs)):
        got = [c10.canon_model(o) for o in rep[1:]]
        ctx.corr_checked += len(got)
        ctx.case({"text": d["text"], "traversals": len(d["asked"])}, nontrivial=True)
        # isolation oracle (real code against real code): the same traversals on a document of its own
        try:
            src, index = c10.parse_indexed(d["prog"], d["text"])
            solo = [c10.real_traverse(src, p, index) for p in d["asked"]]
        except Exception:  # noqa: BLE001
            solo = d["got"]
        if solo != d["got"]:
            leaks += 1
            i = next(i for i, (a, b) in enumerate(zip(solo, d["got"])) if a != b)
            if leaks <= 3:
                ctx.fail({"clause": "isolation", "cause": "cross-document"},
                         {"text": d["text"], "path": list(d["asked"][i]), "history": "document pool"},
                         f"`{d['text']}` path {list(d['asked'][i])}: among other documents created and dropped in the "
                         f"same process the code yields {d['got'][i]}, on a document of its own {solo[i]}")
        if got != d["got"]:
            bad += 1
            i = next(i for i, (a, b) in enumerate(zip(got, d["got"])) if a != b)
            if bad <= 3:
                ctx.tie_break("correspondence", f"document in a pool: traversal {i} of {d['text']!r} differs from the "
                              f"model", request={"text": d["text"], "paths": [list(p) for p in d["asked"]]},
                              implementation=d["got"], model=got)
    ctx.count("pool_isolation_failures", leaks)
    ctx.count("pool_documents", len(docs))
    ctx.count("pool_disagreements", bad)


def run(ctx: fw.Ctx):
    run_objects(ctx)
    run_documents(ctx)


def replay(inp: dict) -> int:
    from nix_manipulator.expressions.identifier import Identifier
    from nix_manipulator.expressions.scope import Scope

    R = _registry()
    objs = []
    for op in inp["ops"]:
        if op[0] == "alloc":
            objs.append(Identifier(name="r"))
        elif op[0] == "store":
            R.set_resolution_context(objs[int(op[1])], (Scope([int(op[2])]),))
        elif op[0] == "get":
            c = R.get_resolution_context(objs[int(op[1])])
            print("get", op[1], "->", None if c is None else c.scopes[0][0])
        elif op[0] == "clear":
            R.clear_resolution_context(objs[int(op[1])])
        elif op[0] == "free":
            objs[int(op[1])] = None
        print(op, "anchor:", check_anchor(R) or "ok")
    return 1
