import NimaVerif.Model.Escape
/-!
L1 (b): the NPath tokenizer (`cli/manipulations.py:_parse_npath`), the attribute-name formatter
(`_format_attr_name`) and the identifier class (`_NPATH_IDENTIFIER_RE`).
-/
namespace Nima

structure Seg where
  name : Text
  quoted : Bool
deriving DecidableEq, Repr

def inRanges (rs : List (Nat × Nat)) (n : Nat) : Bool := rs.any fun r => r.1 ≤ n && n ≤ r.2

/-- First character class of `_NPATH_IDENTIFIER_RE` : `[A-Za-z_]`, as sorted code point ranges
    (the translator re-extracts them; `Props/C12.lean` proves the two equal). -/
def identStartRanges : List (Nat × Nat) := [(65, 90), (95, 95), (97, 122)]
/-- Second character class : `[A-Za-z0-9_']`. -/
def identRestRanges : List (Nat × Nat) := [(39, 39), (48, 57), (65, 90), (95, 95), (97, 122)]
def identStart (c : Char) : Bool := inRanges identStartRanges c.toNat
def identRest (c : Char) : Bool := inRanges identRestRanges c.toNat
/-- The end anchor the source currently uses (`true`: Python `$`; `false`: `\Z`/fullmatch). -/
def currentAnchor : Bool := false

/-- A strict identifier: what the property calls a name that may be written bare. -/
def isIdent : Text → Bool
  | [] => false
  | c :: cs => identStart c && cs.all identRest

/-- `_NPATH_IDENTIFIER_RE.match(name)` with the anchor the source uses.
    `dollarAnchor = true` is Python's `$`, which also matches just before one trailing `\n`;
    `false` is `\Z` (end of string only). The translator reads which one the source has. -/
def reMatchIdent (dollarAnchor : Bool) (s : Text) : Bool :=
  isIdent s || (dollarAnchor && match s.getLast? with
    | some '\n' => isIdent s.dropLast
    | _ => false)

/-- State of the `_parse_npath` loop. `buf` and `segs` are kept in order. -/
structure NPState where
  segs : List Seg := []
  buf : Text := []
  inQuotes : Bool := false
  quotedSeg : Bool := false
  escape : Bool := false
deriving DecidableEq, Repr

/-- `finalize_segment()` -/
def npFinalize (anchor : Bool) (st : NPState) : Except Err NPState :=
  if !st.quotedSeg && st.buf.isEmpty then .error .value
  else if !st.quotedSeg && !st.buf.isEmpty && !reMatchIdent anchor st.buf then .error .value
  else .ok { st with segs := st.segs ++ [⟨st.buf, st.quotedSeg⟩], buf := [], quotedSeg := false }

/-- One iteration of `for ch in npath`. -/
def npStep (anchor : Bool) (st : NPState) (ch : Char) : Except Err NPState :=
  if st.inQuotes then
    if st.escape then
      let add : Text :=
        if ch = 'n' then ['\n'] else if ch = 'r' then ['\r'] else if ch = 't' then ['\t']
        else if ch = '"' ∨ ch = '\\' then [ch] else ['\\', ch]
      .ok { st with buf := st.buf ++ add, escape := false }
    else if ch = '\\' then .ok { st with escape := true }
    else if ch = '"' then .ok { st with inQuotes := false, quotedSeg := true }
    else .ok { st with buf := st.buf ++ [ch] }
  else if ch = '.' then npFinalize anchor st
  else if st.quotedSeg then .error .value  -- text after the closing quote of a quoted segment
  else if ch = '"' then
    if !st.buf.isEmpty then .error .value else .ok { st with inQuotes := true }
  else .ok { st with buf := st.buf ++ [ch] }

def npRun (anchor : Bool) (st : NPState) : Text → Except Err NPState
  | [] => .ok st
  | c :: cs => match npStep anchor st c with
    | .ok st' => npRun anchor st' cs
    | .error e => .error e

/-- `_parse_npath(npath)` -/
def parseNPath (anchor : Bool) (p : Text) : Except Err (List Seg) :=
  if p.isEmpty then .error .value else
  match npRun anchor {} p with
  | .error e => .error e
  | .ok st =>
    if st.escape then .error .value
    else if st.inQuotes then .error .value
    else match npFinalize anchor st with
      | .ok st' => .ok st'.segs
      | .error e => .error e

/-- `_NIX_KEYWORDS` (sorted; the translator re-extracts the set). -/
def npKeywords : List Text :=
  ["assert", "else", "if", "in", "inherit", "let", "rec", "then", "with"].map String.toList

/-- `_format_attr_name(segment)`; `kw` is the reserved-word set consulted. -/
def formatAttrNameWith (anchor : Bool) (kw : List Text) (s : Seg) : Text :=
  if s.quoted || !reMatchIdent anchor s.name || kw.contains s.name then
    '"' :: escapeNix true s.name ++ ['"']
  else s.name

def formatAttrName (anchor : Bool) (s : Seg) : Text := formatAttrNameWith anchor npKeywords s

/-- `_format_npath_segments` -/
def formatNPath (anchor : Bool) (p : Text) : Except Err (List Text) :=
  (parseNPath anchor p).map (·.map (formatAttrName anchor))

/-! ### how lookups compare name tokens (`expressions/binding.py`) -/

/-- `_NIX_IDENTIFIER_RE` : `[A-Za-z_][A-Za-z0-9_'\-]*\Z` (the bare names Nix accepts: the NPath
    identifier class plus `-` after the first character), as sorted code point ranges; the translator
    re-extracts both classes (`Props/C12.lean: tie_name_start / tie_name_rest`). -/
def nameStartRanges : List (Nat × Nat) := [(65, 90), (95, 95), (97, 122)]
def nameRestRanges : List (Nat × Nat) := [(39, 39), (45, 45), (48, 57), (65, 90), (95, 95), (97, 122)]
def nameIdentStart (c : Char) : Bool := inRanges nameStartRanges c.toNat
def nameIdentRest (c : Char) : Bool := inRanges nameRestRanges c.toNat
def nameIdent : Text → Bool
  | [] => false
  | c :: cs => nameIdentStart c && cs.all nameIdentRest

/-- `_STRING_ESCAPES` (re-extracted: `tie_name_escapes`) -/
def nameEscapes : List (Char × Char) := [('n', '\n'), ('r', '\r'), ('t', '\t')]
/-- `_STRING_ESCAPES.get(following, following)` -/
def nameUnesc (c : Char) : Char :=
  match nameEscapes.lookup c with
  | some r => r
  | none => c

/-- the `while index < len(body)` loop of `_decode_attr_name`; `none` is the early `return None`
    (interpolation, unescaped quote, dangling backslash). The first argument bounds the number of
    iterations (every iteration advances `index`, so `len(body) + 1` is never reached); it makes the
    recursion structural, so that closed instances reduce (`decide`). -/
def decodeNameBodyF : Nat → Text → Option Text
  | 0, _ => none
  | _ + 1, [] => some []
  | n + 1, c :: rest =>
    if c = '\\' then
      match rest with
      | [] => none
      | e :: more => (decodeNameBodyF n more).map (nameUnesc e :: ·)
    else if c = '"' then none
    else
      match rest with
      | [] => some [c]
      | f :: more =>
        if c = '$' ∧ f ≠ '"' ∧ f ≠ '\\' then
          if f = '{' then none else (decodeNameBodyF n more).map (fun r => c :: f :: r)
        else (decodeNameBodyF n (f :: more)).map (c :: ·)

def decodeNameBody (s : Text) : Option Text := decodeNameBodyF (s.length + 1) s

/-- `_decode_attr_name(token)`: the name Nix reads from a name token, `none` when it is not static
    or not a single name token -/
def decodeAttrName (tok : Text) : Option Text :=
  match tok with
  | '"' :: rest =>
      if rest.getLast? = some '"' then decodeNameBody rest.dropLast
      else if nameIdent tok then some tok else none
  | _ => if nameIdent tok then some tok else none

/-- `_same_attr_name(left, right)` (both arguments are strings here) -/
def sameName (a b : Text) : Bool :=
  a == b || (match decodeAttrName a with
    | some n => decodeAttrName b == some n
    | none => false)

/-- `_segment_name` -/
def segmentName (s : Text) : Text :=
  match decodeAttrName s with
  | some n => n
  | none =>
    match s with
    | '"' :: rest => if s.getLast? = some '"' then rest.dropLast else s
    | _ => s

/-- SPEC. How Nix reads an attribute-name token as written in a file: a bare identifier
    (Nix identifiers additionally allow `-` after the first character) or a `"…"` string without
    interpolation. -/
def nixIdentRest (c : Char) : Bool := identRest c || c = '-'
def isNixIdent : Text → Bool
  | [] => false
  | c :: cs => identStart c && cs.all nixIdentRest
def nixKeywords : List Text :=
  ["assert", "else", "if", "in", "inherit", "let", "rec", "then", "with"].map String.toList
def nixDecodeName (tok : Text) : Option Text :=
  match tok with
  | '"' :: rest =>
      if rest.getLast? = some '"' then decodeBody rest.dropLast else none
  | _ => if isNixIdent tok && !nixKeywords.contains tok then some tok else none

/-- SPEC. The canonical way a name is written as a path segment (property C12):
    bare when it is an identifier, quoted with `\"` and `\\` escapes otherwise. -/
def escQuoteBackslash : Text → Text
  | [] => []
  | c :: cs => if c = '"' ∨ c = '\\' then '\\' :: c :: escQuoteBackslash cs
               else c :: escQuoteBackslash cs
def renderSeg (name : Text) : Text :=
  if isIdent name then name else '"' :: escQuoteBackslash name ++ ['"']

end Nima
