import NimaVerif.Lemmas.Value
import NimaVerif.Gen.Tables
import NimaVerif.Gen.Value
/-!
# C13 — values built programmatically render to Nix that denotes the same value

Property theorems only (helper lemmas live in `Lemmas/DataReader.lean`, `Lemmas/Value.lean`).

* MODEL (`Model/Value.lean`): `Elem`/`PyVal` (the Python values of the property's domain; a dict
  inside a list is not representable, floats are given by their `repr`), `Expr` (what the
  constructed objects hold), `renderElem/renderExpr/renderBinding` (transliteration of
  `coerce_expression`, `_float_literal`, `Primitive`, `FloatExpression`, `NixList`,
  `_coerce_list_item`, `Parenthesis`, `Binding`, `AttributeSet`), and the container contexts `Ctx`
  with `renderCtx` (`Except`-valued: `ValueError` when the object holds an int `coerce_expression`
  refuses — `exprRefused` —, else the text `renderCtxText`).
* SPEC (`Model/DataReader.lean`, `Model/ValueSpec.lean`): `readData`/`readBinding` — how Nix reads a
  text of the data fragment (lexer rules of Nix for INT/FLOAT/ID/strings; a unary minus is accepted
  where an operator expression may stand — binding value, top level, inside parentheses — never
  bare as a list element; a float is the real number its literal denotes, `decValue`);
  `denote`/`expected` — the data a Python value is; `ctxInDomain` — the property's domain; `ctxReadable` — the decidable side
  condition under which the code does keep the value (every value of the domain meets it);
  `dataOutOfRange` — the data the API must refuse.

All statements quantify over every value (unbounded nesting, every string over `Char`, every
integer, every indent and inline flag).
-/
namespace Nima.C13

/-! ## Translator tie: the constants and tables of the model are those of the Python source now -/

theorem tie_escape_table : Gen.escapeTable = some escapeTable := by decide
theorem tie_max_inline_width : Gen.maxInlineListWidth = some maxInlineListWidth := by decide
theorem tie_auto_multiline : Gen.autoMultilineThresholds = some autoMultilineThresholds := by decide
theorem tie_single_binding : Gen.singleBindingCount = some singleBindingCount := by decide
theorem tie_literals :
    Gen.litNull = some litNull ∧ Gen.litTrue = some litTrue ∧ Gen.litFalse = some litFalse ∧
    Gen.stringQuotes = some stringQuotes ∧
    Gen.stringEscapesInterpolation = some stringEscapesInterpolation := by decide
theorem tie_coerce_order :
    Gen.coerceOrder = some coerceOrder ∧ Gen.primitiveOrder = some primitiveOrder := by decide
/-- `coerce_expression` spells a float through `_float_literal`: `.0` is put in front of the `e` of a
    repr without `.`. -/
theorem tie_float_literal : Gen.floatLiteralRule = some floatLiteralRule := by decide
/-- `coerce_expression` raises `ValueError` for an int with `abs(value) > 2^63 - 1`; the bound of the
    code is the bound of the SPEC reader. -/
theorem tie_int_literal_max : Gen.coerceIntMax = some coerceIntMax ∧ coerceIntMax = nixIntMax := by decide
/-- `NixList` renders its items through `_coerce_list_item` (negative number literals in a
    `Parenthesis`), probes them for newlines through plain `coerce_expression`. -/
theorem tie_list_item_paren :
    Gen.negLiteralTests = some negLiteralTests ∧ Gen.listItemCoercers = some listItemCoercers := by decide

/-- The model's escaper is the interpreter of the tied table (as in C12). -/
theorem escapeNix_table (interp : Bool) (c : Char) (cs : Text) (r : Text)
    (h : (c, r) ∈ escapeTable) : escapeNix interp (c :: cs) = r ++ escapeNix interp cs := by
  simp only [escapeTable, List.mem_cons, Prod.mk.injEq, List.not_mem_nil, or_false] at h
  rcases h with ⟨rfl, rfl⟩ | ⟨rfl, rfl⟩ | ⟨rfl, rfl⟩ | ⟨rfl, rfl⟩ | ⟨rfl, rfl⟩ <;> simp [escapeNix]

/-! ## 1. Strings are preserved character for character -/

/-- Whatever characters a string holds (quotes, backslashes, control characters, `$`…), as long as
    it has no `${`, its rendered literal is read back by Nix as exactly that string. -/
theorem string_roundtrip (s : Text) (h : hasInterp s = false) (indent : Nat) (inline : Bool) :
    readData (renderElem (.str s) indent inline) = some (.str s) := by
  have hl := lex_renderElem (.str s) indent inline [] (by simp [elemReadable, h]) rfl
  simp only [List.append_nil, lexData_nil, Option.map_some] at hl
  simp [readData, hl, toksE, pValue, pElem]

/-! ## 2. Every value of the readable fragment is read back, in every context, at every indent -/

/-- tokens of a readable value parse to its denotation -/
theorem readData_of_lex (t : Text) (x : Expr) (hl : lexData t = some (toksX x))
    (hx : exprReadable x = true) : readData t = some (denoteX x) := by
  have hp := pValue_toksX x ((toksX x).length + 1) [] hx (Nat.le_refl _)
  simp only [List.append_nil] at hp
  simp [readData, hl, hp]

/-- What a binding holds (scalar, list, attribute set built by `from_dict` or modified by item
    assignment), rendered at any indent and inline flag, reads back as its value: element order
    kept, numbers with value and sign, strings character for character. -/
theorem readData_renderExpr (x : Expr) (indent : Nat) (inline : Bool) (hx : exprReadable x = true) :
    readData (renderExpr x indent inline) = some (denoteX x) := by
  have hl := lex_renderExpr x indent inline [] hx rfl
  simp only [List.append_nil, lexData_nil, Option.map_some] at hl
  exact readData_of_lex _ x hl hx

/-- `Binding(name, value).rebuild(indent, inline)` reads back as that name bound to that value. -/
theorem readBinding_renderBinding (k : Text) (x : Expr) (indent : Nat) (inline : Bool)
    (hk : isDataKey k = true) (hx : exprReadable x = true) :
    readBinding (renderBinding k x indent inline) = some (k, denoteX x) := by
  have hl : lexData ('{' :: ' ' :: (renderBinding k x indent inline ++ [' ', '}'])) =
      some (toksX (.aset [(k, x)] false)) := by
    rw [lexData_lbrace, lexData_ws _ _ (by decide), lex_renderBinding k x indent inline _ hk hx,
      lexData_ws _ _ (by decide), lexData_rbrace, lexData_nil]
    simp [toksX, toksBs]
  have hr : exprReadable (.aset [(k, x)] false) = true := by
    simp [exprReadable, bsReadable, keysNodup, hk, hx]
  simp only [readBinding, List.cons_append]
  rw [readData_of_lex _ _ hl hr]
  simp [denoteX, denoteBs]

/-- **The read-back theorem under its decidable side condition.** In every container context of
    the construction API, a value satisfying `ctxReadable` (identifier keys, strings without `${`;
    floats whose spelled literal is a Nix float token denoting the number of the repr — true of every
    Python repr, `float_repr_literal_ok` —, integers within 64 bits) is accepted, and renders to text
    that Nix reads back as exactly that value — negative numbers included, wherever they stand. -/
theorem roundtrip_partial (c : Ctx) (h : ctxReadable c = true) :
    renderCtx c = .ok (renderCtxText c) ∧ readCtx c (renderCtxText c) = some (expected c) := by
  refine ⟨by simp [renderCtx, exprReadable_not_refused _ (ctxExpr_readable c h)], ?_⟩
  have hx := ctxExpr_readable c h
  cases c with
  | fromDict d =>
    simp only [readCtx, renderCtxText, ctxExpr, expected, fromDict_eq] at hx ⊢
    rw [readData_renderExpr _ 0 false hx, denoteX_bindValue]; rfl
  | values d =>
    simp only [readCtx, renderCtxText, ctxExpr, expected, valuesCtor_eq, fromDict_eq] at hx ⊢
    rw [readData_renderExpr _ 0 false hx, denoteX_bindValue]; rfl
  | binding k v =>
    simp only [ctxReadable, Bool.and_eq_true] at h
    simp only [readCtx, renderCtxText, expected]
    rw [readBinding_renderBinding k _ 0 false h.1 (bindValue_readable v h.2), denoteX_bindValue]; rfl
  | list xs =>
    have := readData_renderExpr (.raw (.list xs)) 0 false hx
    simpa [readCtx, renderCtxText, ctxExpr, expected, renderExpr, denoteX, denoteE] using this
  | setItem d k v =>
    simp only [readCtx, renderCtxText, expected]
    rw [readData_renderExpr _ 0 false hx]
    simp only [ctxExpr, fromDict, denoteX_setItem, denoteBs_bindAll]
  | setItemOn d ml k v =>
    simp only [readCtx, renderCtxText, expected]
    rw [readData_renderExpr _ 0 false hx]
    simp only [ctxExpr, denoteX_setItem, denoteBs_bindAll]

/-- Every value of the property's domain meets the side condition (no documented defect is left
    to avoid; this replaces `readable_iff_avoids`). -/
theorem domain_readable (c : Ctx) (hd : ctxInDomain c = true) : ctxReadable c = true :=
  ctxInDomain_readable c hd

/-- For the repr of a finite Python float, being a Nix float token is exactly having a `.` (which is
    why the repr itself cannot be written: `1e+16` is not a float token). -/
theorem float_repr_readable_iff_dot (r : Text) (h : isPyFloatRepr r = true) :
    isNixFloat (unsignedRepr r) = (unsignedRepr r).contains '.' :=
  pyFloatRepr_nixFloat_iff_dot r h

/-- The literal every repr of a finite Python float is spelled with (`1e+16` ↦ `1.0e+16`, all others
    unchanged) is a Nix float token with the sign of the repr, denoting the same real number. -/
theorem float_repr_literal_ok (r : Text) (h : isPyFloatRepr r = true) :
    isNixFloat (unsignedRepr (floatLiteral r)) = true ∧
    isNegText (floatLiteral r) = isNegText r ∧
    decValue (unsignedRepr (floatLiteral r)) = decValue (unsignedRepr r) := by
  have := pyFloatRepr_litOk r h
  simpa [floatLitOk, and_assoc] using this

/-- FULL statement of the property's read-back clause: every value of the domain (dicts with
    distinct identifier keys, lists of scalars/lists, strings without `${`, every integer Nix can
    write, booleans, None, every finite float's repr), in every container context, is accepted and
    renders to text that Nix reads back as exactly that value. -/
def RoundTripFull : Prop :=
  ∀ c : Ctx, ctxInDomain c = true → ∃ t, renderCtx c = .ok t ∧ readCtx c t = some (expected c)

/-- **The property on its domain** (formerly `roundtrip_domain`, which had to assume that the value
    avoids the three documented defects; with the three repaired the full statement holds). -/
theorem roundtrip_full : RoundTripFull := fun c hd =>
  ⟨renderCtxText c, roundtrip_partial c (domain_readable c hd)⟩

/-- **Negative numbers as list elements** (repaired defect C13-neg-number-in-list; this replaces
    the former counterexample `cex_neg_in_list`). A list of integers of either sign, at any indent
    and inline flag, reads back as exactly those integers: a negative element is written `(-n)`. -/
theorem neg_in_list_roundtrip (is : List Int) (h : ∀ i ∈ is, i.natAbs ≤ nixIntMax) (indent : Nat)
    (inline : Bool) :
    readData (renderElem (.list (is.map Elem.int)) indent inline) = some (.list (is.map Data.int)) := by
  have hr : elemsReadable (is.map Elem.int) = true := by
    induction is with
    | nil => rfl
    | cons i is ih =>
      simp only [List.map_cons, elemsReadable, elemReadable, Bool.and_eq_true, decide_eq_true_eq]
      exact ⟨h i (by simp), ih (fun j hj => h j (by simp [hj]))⟩
  have hd : ∀ js : List Int, denoteEs (js.map Elem.int) = js.map Data.int := by
    intro js
    induction js with
    | nil => rfl
    | cons j js ih => simp only [List.map_cons, denoteEs, denoteE, ih]
  have := readData_renderExpr (.raw (.list (is.map Elem.int))) indent inline
    (by simpa [exprReadable, elemReadable] using hr)
  simpa [renderExpr, denoteX, denoteE, hd is] using this

/-- The spelling: `NixList([-1]).rebuild()` is `[ (-1) ]`, `[1, -2.5]` is broken over lines with
    the negative float in parentheses; in binding position the minus stays bare. -/
theorem neg_in_list_spelling :
    renderCtx (.list [.int (-1)]) = .ok "[ (-1) ]".toList ∧
    renderCtx (.list [.int 1, .float "-2.5".toList]) = .ok "[\n  1\n  (-2.5)\n]".toList ∧
    renderCtx (.binding "k".toList (.elem (.list [.int (-1)]))) = .ok "k = [ (-1) ];".toList ∧
    renderCtx (.binding "k".toList (.elem (.int (-1)))) = .ok "k = -1;".toList := by decide

/-- **Floats whose repr has an exponent and no `.`** (repaired defect C13-float-exponent-no-dot;
    this replaces the former counterexamples `cex_float_no_dot`, `cex_float_no_dot_binding`). The
    repr of any finite Python float, as a list element or as a binding value, at any indent and
    inline flag, reads back as a float of the same sign denoting the same number. -/
theorem float_repr_roundtrip (r : Text) (h : isPyFloatRepr r = true) (k : Text) (hk : isDataKey k = true)
    (indent : Nat) (inline : Bool) :
    readData (renderElem (.list [.float r]) indent inline) = some (.list [floatData r]) ∧
    readBinding (renderBinding k (.raw (.float r)) indent inline) = some (k, floatData r) := by
  have hr : elemReadable (.float r) = true := by simpa [elemReadable] using pyFloatRepr_litOk r h
  constructor
  · have := readData_renderExpr (.raw (.list [.float r])) indent inline
      (by simpa [exprReadable, elemReadable, elemsReadable] using hr)
    simpa [renderExpr, denoteX, denoteE, denoteEs] using this
  · have := readBinding_renderBinding k (.raw (.float r)) indent inline hk (by simpa [exprReadable] using hr)
    simpa [denoteX, denoteE] using this

/-- The spelling: `1e+16` is written `1.0e+16`, `1e-07` is written `1.0e-07`, a negative one in a list
    is parenthesised, a repr with a `.` is written as it is; and `1.0e+16` denotes the number of
    `1e+16` (both `1 × 10^16`). -/
theorem float_no_dot_spelling :
    renderCtx (.list [.float "1e+16".toList]) = .ok "[ 1.0e+16 ]".toList ∧
    renderCtx (.binding "a".toList (.elem (.float "1e-07".toList))) = .ok "a = 1.0e-07;".toList ∧
    renderCtx (.list [.float "-5e-324".toList]) = .ok "[ (-5.0e-324) ]".toList ∧
    renderCtx (.list [.float "1.5e+16".toList, .float "0.1".toList]) = .ok "[\n  1.5e+16\n  0.1\n]".toList ∧
    decValue "1.0e+16".toList = decValue "1e+16".toList ∧ decValue "1e+16".toList = ⟨1, 16⟩ := by decide

/-! ## 3. Integers Nix cannot write are refused, and nothing else is -/

/-- **Refusal is exact** (repaired defect C13-int-out-of-range; this replaces the former
    counterexample `cex_int_out_of_range`). In every container context and for every value
    whatsoever, `rebuild()` raises `ValueError` exactly when the data handed in holds an integer
    whose magnitude exceeds `2^63 - 1` (Nix has no literal for it); otherwise it returns the text. -/
theorem refusal_exact (c : Ctx) :
    (dataOutOfRange (expected c) = true → renderCtx c = .error .value) ∧
    (dataOutOfRange (expected c) = false → renderCtx c = .ok (renderCtxText c)) := by
  have h : exprRefused (ctxExpr c) = dataOutOfRange (expected c) := by
    rw [exprRefused_eq, denoteX_ctxExpr]
  constructor <;> intro hd <;> simp [renderCtx, h, hd]

/-- The former witness: `Binding(name="a", value=2**63).rebuild()` raises `ValueError` (it used to
    return `a = 9223372036854775808;`, which Nix rejects); so does `-2**63` (`-9223372036854775808`
    is the negation of a literal Nix rejects), also deep inside a list inside a set; the largest
    literals are written. -/
theorem int_out_of_range_refused :
    renderCtx (.binding "a".toList (.elem (.int 9223372036854775808))) = .error .value ∧
    renderCtx (.list [.int (-9223372036854775808)]) = .error .value ∧
    renderCtx (.fromDict [("k".toList, .dict [("x".toList, .elem (.list [.int 1, .list [.int (10 ^ 30)]]))])]) = .error .value ∧
    renderCtx (.binding "a".toList (.elem (.int 9223372036854775807))) = .ok "a = 9223372036854775807;".toList ∧
    renderCtx (.list [.int (-9223372036854775807)]) = .ok "[ (-9223372036854775807) ]".toList := by decide

/-- A value of the domain is never refused. -/
theorem domain_not_refused (c : Ctx) (hd : ctxInDomain c = true) : dataOutOfRange (expected c) = false := by
  have h := (roundtrip_partial c (domain_readable c hd)).1
  cases hb : dataOutOfRange (expected c) with
  | false => rfl
  | true => rw [(refusal_exact c).1 hb] at h; cases h

/-! ## 4. Determinism -/

/-- The outcome (text or refusal) is a function of the value and the context alone (the model has
    no other input); that the implementation has no hidden state either is checked by the correspondence and
    by rendering twice. -/
theorem render_deterministic (c₁ c₂ : Ctx) (h : c₁ = c₂) : renderCtx c₁ = renderCtx c₂ := by
  rw [h]

/-! ## 5. Stability under re-parsing: a necessary condition, violated

`parse` sets `multiline` of a list / attribute set to "the node's text has a newline", and
`rebuild` then honours that flag. So the rendered text can only be a fixed point of
`parse ∘ rebuild` if every container's text has a newline exactly when it was rendered with the
multiline layout. (The full stability statement needs the model of `parse`: C06.) -/

def SetFlagsStable : Prop :=
  ∀ d : List (Text × PyVal), valInDomain (.dict d) = true → d ≠ [] →
    hasNl (renderCtxText (.fromDict d)) = (d.length != singleBindingCount)

/-- `from_dict({"k": [1, 2]})` is built with `multiline = False` yet renders over several lines.
    Open known finding C13-unstable-inline-attrset. -/
theorem cex_stable_inline_set : ¬ SetFlagsStable := by
  intro h
  have := h [("k".toList, .elem (.list [.int 1, .int 2]))] (by decide) (by simp)
  revert this; decide

/-- A one-element list holding a two-element list, rendered as a binding value inside a set
    (`indent = 2`, `inline = True`): `_auto_multiline` says "one line" (it probes the item at
    `indent = 0`), the text nevertheless has a newline. Open known finding C13-unstable-inline-list. -/
theorem cex_stable_inline_list :
    autoMultiline 1 (anyItemNl [.list [.int 1, .int 2]]) 2 true = false ∧
    hasNl (renderElem (.list [.list [.int 1, .int 2]]) 2 true) = true := by decide

/-! ## Non-vacuity: the side condition is met by rich values, the witnesses are in the domain -/

example : ctxReadable (.fromDict [("a".toList, .elem (.int (-5))), ("b".toList, .elem (.list [.float "1.5e+16".toList,
    .str "q\"\\\n$".toList, .list [.bool true, .none]])), ("c".toList, .dict [("x".toList, .dict [])])]) = true := by decide
example : ctxReadable (.setItem [("a".toList, .elem (.int 1))] "a".toList (.dict [("n".toList, .elem (.float "-0.0".toList))])) = true := by
  decide
example : renderCtx (.fromDict [("k".toList, .elem (.list [.int 1, .int 2]))]) = .ok "{ k = [\n    1\n    2\n  ]; }".toList := by
  decide
example : ctxInDomain (.setItemOn [("a".toList, .elem (.int 1))] true "k".toList (.dict [("x".toList, .elem (.float "1.5e-07".toList))])) = true := by
  decide
example : ctxInDomain (.list [.float "1e+16".toList, .int (-1), .int (-9223372036854775807)]) = true ∧
    ctxInDomain (.list [.int 9223372036854775808]) = false ∧
    ctxReadable (.list [.float "1e+16".toList, .float "-1e-07".toList]) = true ∧
    ctxReadable (.list [.int (-1), .float "-0.5".toList]) = true ∧
    ctxReadable (.list [.int 9223372036854775808]) = false := by decide

end Nima.C13
