import NimaVerif.Props.C06
open Nima.C06
#print axioms formatTrivia_nil
