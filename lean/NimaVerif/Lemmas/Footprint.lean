import NimaVerif.Lemmas.TraceEdit
/-! Footprints against identity lists: nodes whose identities avoid the footprint are untouched. -/
namespace Nima
-- name tokens are compared by spelling in this file (see `NameCmp` in Model/Edit.lean)
attribute [local instance] NameCmp.spelled

open Node EditM

mutual
  theorem updBind_of_not_mem (id : Nat) (v : Node) :
      ∀ n : Node, id ∉ bindIdList n → updBind id v n = n
    | .atom _, _ => rfl
    | .ident _, _ => rfl
    | .set s vs o m r, h => by
        simp only [bindIdList, List.mem_append, not_or] at h
        simp only [updBind]
        rw [updBindL_of_not_mem id v vs h.1, updBindL_of_not_mem id v o h.2]
    | .bind i n ne val b a, h => by
        simp only [bindIdList, List.mem_cons, not_or] at h
        have hi : i ≠ id := fun e => h.1 e.symm
        simp only [updBind, hi, if_false]
        rw [updBind_of_not_mem id v val h.2]
    | .inherit _ _, _ => rfl
    | .entry segs leaf b a, h => by
        simp only [bindIdList] at h
        simp only [updBind]
        rw [updBind_of_not_mem id v leaf h]
  theorem updBindL_of_not_mem (id : Nat) (v : Node) :
      ∀ xs : List Node, id ∉ bindIdListL xs → updBindL id v xs = xs
    | [], _ => rfl
    | x :: xs, h => by
        simp only [bindIdListL, List.mem_append, not_or] at h
        simp only [updBindL]
        rw [updBind_of_not_mem id v x h.1, updBindL_of_not_mem id v xs h.2]
end

mutual
  theorem updSet_of_not_mem (sid : Nat) (f : Node → Node) :
      ∀ n : Node, sid ∉ setIdList n → updSet sid f n = n
    | .atom _, _ => rfl
    | .ident _, _ => rfl
    | .set s vs o m r, h => by
        simp only [setIdList, List.mem_cons, List.mem_append, not_or] at h
        have hs : s ≠ sid := fun e => h.1 e.symm
        simp only [updSet, hs, if_false]
        rw [updSetL_of_not_mem sid f vs h.2.1, updSetL_of_not_mem sid f o h.2.2]
    | .bind i n ne val b a, h => by
        simp only [setIdList] at h
        simp only [updSet]
        rw [updSet_of_not_mem sid f val h]
    | .inherit _ _, _ => rfl
    | .entry segs leaf b a, h => by
        simp only [setIdList] at h
        simp only [updSet]
        rw [updSet_of_not_mem sid f leaf h]
  theorem updSetL_of_not_mem (sid : Nat) (f : Node → Node) :
      ∀ xs : List Node, sid ∉ setIdListL xs → updSetL sid f xs = xs
    | [], _ => rfl
    | x :: xs, h => by
        simp only [setIdListL, List.mem_append, not_or] at h
        simp only [updSetL]
        rw [updSet_of_not_mem sid f x h.1, updSetL_of_not_mem sid f xs h.2]
end

section
variable {grow : Bool} {A S : Nat → Prop}

/-- a node none of whose identities is in the footprint is left as it was by every allowed trace -/
theorem applyAllNode_of_disjoint (us : List Upd) (hus : ∀ u ∈ us, u.Allowed grow A S) (x : Node)
    (hb : ∀ i ∈ bindIdList x, ¬ A i) (hs : ∀ s ∈ setIdList x, ¬ S s) : applyAllNode us x = x := by
  induction us with
  | nil => rfl
  | cons u us ih =>
    have hu := hus u (by simp)
    have : u.applyNode x = x := by
      cases u with
      | bump => rfl
      | assign b v =>
        simp only [applyNode_assign]
        exact updBind_of_not_mem b v x fun hm => hb b hm hu
      | onSet s f =>
        simp only [applyNode_onSet]
        exact updSet_of_not_mem s f.fn x fun hm => hs s hm hu.1
    rw [applyAllNode_cons, this]
    exact ih fun u hu => hus u (by simp [hu])

theorem applyAllLayer_of_disjoint (us : List Upd) (hus : ∀ u ∈ us, u.Allowed grow A S) (l : Layer)
    (hb : ∀ i ∈ l.bindIds, ¬ A i) (hs : ∀ s ∈ l.setIds, ¬ S s) : applyAllLayer us l = l := by
  induction us with
  | nil => rfl
  | cons u us ih =>
    have hu := hus u (by simp)
    have : u.applyLayer l = l := by
      simp only [Layer.bindIds, Layer.setIds, List.mem_append] at hb hs
      cases u with
      | bump => rfl
      | assign b v =>
        simp only [applyLayer_assign, Layer.updBind]
        rw [updBindL_of_not_mem b v _ fun hm => hb b (Or.inl hm) hu,
          updBindL_of_not_mem b v _ fun hm => hb b (Or.inr hm) hu]
      | onSet s f =>
        simp only [applyLayer_onSet, Layer.updSet]
        rw [updSetL_of_not_mem s f.fn _ fun hm => hs s (Or.inl hm) hu.1,
          updSetL_of_not_mem s f.fn _ fun hm => hs s (Or.inr hm) hu.1]
    rw [applyAllLayer_cons, this]
    exact ih fun u hu => hus u (by simp [hu])

end

/-! ### a node is within the footprint made of its own identities -/

mutual
  theorem within_of_idLists {A S : Nat → Prop} {ni : Bool} :
      ∀ n : Node, (∀ i ∈ bindIdList n, A i) → (∀ s ∈ setIdList n, S s) →
        (ni = true → hasIdentValue n = false) → n.Within A S ni
    | .atom _, _, _, _ => by simp [Node.Within]
    | .ident _, _, _, _ => by simp [Node.Within]
    | .set s vs o m r, hb, hs, hi => by
        simp only [bindIdList, List.mem_append] at hb
        simp only [setIdList, List.mem_cons, List.mem_append] at hs
        simp only [hasIdentValue, Bool.or_eq_false_iff] at hi
        refine ⟨hs s (Or.inl rfl), ?_, ?_⟩
        · exact withinL_of_idLists vs (fun i h => hb i (Or.inl h)) (fun i h => hs i (Or.inr (Or.inl h)))
            (fun h => (hi h).1)
        · exact withinL_of_idLists o (fun i h => hb i (Or.inr h)) (fun i h => hs i (Or.inr (Or.inr h)))
            (fun h => (hi h).2)
    | .bind i n ne val b a, hb, hs, hi => by
        simp only [bindIdList, List.mem_cons] at hb
        simp only [setIdList] at hs
        simp only [hasIdentValue, Bool.or_eq_false_iff] at hi
        refine ⟨hb i (Or.inl rfl), ?_, ?_⟩
        · intro h
          have := (hi h).1
          cases val <;> simp_all [Node.isIdent]
        · exact within_of_idLists val (fun j h => hb j (Or.inr h)) hs (fun h => (hi h).2)
    | .inherit _ _, _, _, _ => by simp [Node.Within]
    | .entry segs leaf b a, hb, hs, hi => by
        simp only [bindIdList] at hb
        simp only [setIdList] at hs
        simp only [hasIdentValue] at hi
        exact within_of_idLists leaf hb hs hi
  theorem withinL_of_idLists {A S : Nat → Prop} {ni : Bool} :
      ∀ xs : List Node, (∀ i ∈ bindIdListL xs, A i) → (∀ s ∈ setIdListL xs, S s) →
        (ni = true → hasIdentValueL xs = false) → WithinL A S ni xs
    | [], _, _, _ => by simp [WithinL]
    | x :: xs, hb, hs, hi => by
        simp only [bindIdListL, List.mem_append] at hb
        simp only [setIdListL, List.mem_append] at hs
        simp only [hasIdentValueL, Bool.or_eq_false_iff] at hi
        exact ⟨within_of_idLists x (fun i h => hb i (Or.inl h)) (fun i h => hs i (Or.inl h))
            (fun h => (hi h).1),
          withinL_of_idLists xs (fun i h => hb i (Or.inr h)) (fun i h => hs i (Or.inr h))
            (fun h => (hi h).2)⟩
end

theorem within_top (n : Node) : n.Within (fun _ => True) (fun _ => True) false :=
  within_of_idLists n (fun _ _ => trivial) (fun _ _ => trivial) (fun h => by cases h)

end Nima
