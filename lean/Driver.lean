import NimaVerif.Model.AttrPath
import NimaVerif.Model.SExp
/-!
Line-protocol driver: one request per line on stdin, one reply per line on stdout.
-/
open Nima

def handle (req : SExp) : SExp :=
  match req with
  | .list [.atom "npath", .atom anchor, .atom h] =>
    match decText h with
    | none => .list [.atom "bad-arg"]
    | some p =>
      match parseNPath (anchor == "t") p with
      | .ok segs => .list (.atom "ok" :: segs.map fun s => .list [sText s.name, sBool s.quoted])
      | .error e => sErr e
  | .list [.atom "fmtname", .atom anchor, .atom h, .atom q] =>
    match decText h with
    | none => .list [.atom "bad-arg"]
    | some n => .list [.atom "ok", sText (formatAttrName (anchor == "t") ⟨n, q == "t"⟩)]
  | .list [.atom "escape", .atom h, .atom i] =>
    match decText h with
    | none => .list [.atom "bad-arg"]
    | some n => .list [.atom "ok", sText (escapeNix (i == "t") n)]
  | .list [.atom "split", .atom h] =>
    match decText h with
    | none => .list [.atom "bad-arg"]
    | some n =>
      match splitAttrpath n with
      | .ok segs => .list (.atom "ok" :: segs.map sText)
      | .error e => sErr e
  | .list [.atom "decode", .atom h] =>
    match decText h with
    | none => .list [.atom "bad-arg"]
    | some n =>
      match nixDecodeName n with
      | some t => .list [.atom "some", sText t]
      | none => .list [.atom "none"]
  | .list [.atom "renderseg", .atom h] =>
    match decText h with
    | none => .list [.atom "bad-arg"]
    | some n => .list [.atom "ok", sText (renderSeg n)]
  | _ => .list [.atom "bad-op"]

partial def loop (hin : IO.FS.Stream) (hout : IO.FS.Stream) : IO Unit := do
  let line ← hin.getLine
  if line.isEmpty then return ()
  let reply := match SExp.parse line with
    | some r => handle r
    | none => .list [.atom "bad-syntax"]
  hout.putStrLn reply.toStr
  loop hin hout

def main : IO Unit := do
  let hin ← IO.getStdin
  let hout ← IO.getStdout
  loop hin hout
  hout.flush
