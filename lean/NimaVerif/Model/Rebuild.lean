import NimaVerif.Model.FromCst
import NimaVerif.Model.TriviaSpec
/-!
L5 (render side), string level: `rebuild` for the container fragment — a transliteration,
bug-compatible, of the string surgery in

  * `expressions/expression.py`  `NixExpression.add_trivia`
  * `expressions/identifier.py`  `Identifier.rebuild` (leading layout markers dropped at top level)
  * `expressions/list.py`        `NixList.rebuild`, `simple_inline_preview`, `_inline_preview`
  * `expressions/set.py`         `AttributeSet.rebuild`, `_render_bindings`
  * `expressions/binding.py`     `Binding.rebuild`
  * `expressions/source_code.py` `NixSourceCode.rebuild`

`NixList.multiline` is a `Bool`: `from_cst` always sets it, so `_auto_multiline` returns it (the
inference branch is reachable only for lists built programmatically). `has_scope()` is false for
everything `from_cst` builds in the fragment. Core Lean only.
-/
namespace Nima.Frag

/-- `s.rstrip("\n")` -/
def rstripNL (s : Text) : Text := (s.reverse.dropWhile (· == '\n')).reverse

/-- `NixExpression.add_trivia(rebuild_string, indent, inline)` (`after_str=None`) -/
def addTrivia (before after : List Trivia) (s : Text) (indent : Nat) (inline : Bool) : Text :=
  applyTrailingTrivia (formatTrivia before indent ++ (if inline then [] else spaces indent) ++ s) after indent

/-- `variable_expression` text that `Primitive.from_cst` does not turn into an `Identifier` -/
def isLiteralWord (t : Text) : Bool :=
  t == ['t', 'r', 'u', 'e'] || t == ['f', 'a', 'l', 's', 'e'] || t == ['n', 'u', 'l', 'l']

/-- the `before` list `Identifier.rebuild` renders: at `indent == 0`, not inline, leading layout
    markers are dropped unless nothing else is left -/
def leafBefore (k : LeafKind) (t : Text) (before : List Trivia) (indent : Nat) (inline : Bool) : List Trivia :=
  if k == .ident && !isLiteralWord t && !inline && indent == 0 then
    let trimmed := trimLeadingLayoutTrivia before
    if !trimmed.isEmpty && trimmed != before then trimmed else before
  else before

/-- `MAX_INLINE_LIST_WIDTH` -/
def maxInlineListWidth : Nat := 100

/-- the delimiters of an empty container with inner trivia / of a multi-line container:
    `{before}{indentation}{opener}\n{body}{closing_sep}{' ' * indent}{closer}`; `closing_sep` is
    `"\n"` unless the body ends with a line break (or, for inner trivia only, is empty) -/
def multilineBlock (beforeStr : Text) (opener : Text) (body : Text) (closer : Char) (indent : Nat)
    (inline : Bool) (sepIfEmpty : Bool) : Text :=
  beforeStr ++ (if inline then [] else spaces indent) ++ opener ++ ['\n'] ++ body ++
    (if (body.isEmpty && !sepIfEmpty) || endsWithNL body then [] else ['\n']) ++ spaces indent ++ [closer]

/-- the tail `Binding.rebuild` writes after `…;` -/
def bindingTail (rebuilt : Text) (afterItems : List Trivia) (indent : Nat) : Text :=
  match afterItems with
  | .linebreak :: rest =>
    -- "Preserve an explicit linebreak marker even though it formats as ''."
    let trailing := formatTrivia rest indent
    let trailing := if startsWithNL trailing then trailing else '\n' :: trailing
    let trailing := if endsWithNL trailing then trailing.dropLast else trailing
    rebuilt ++ trailing
  | _ => applyTrailingTrivia rebuilt afterItems indent

mutual
/-- `expr.rebuild(indent, inline)`; with `noAfter` the expression is rendered as
    `expr.model_copy(update={"after": []})` (what `Binding.rebuild` does to its value) -/
def Expr.rebuildA : Expr → Bool → Nat → Bool → Text
  | .leaf k t before after, noAfter, indent, inline =>
    addTrivia (leafBefore k t before indent inline) (if noAfter then [] else after) t indent inline
  | .list value multiline inner before after, noAfter, indent, inline =>
    let after := if noAfter then [] else after
    let beforeStr := formatTrivia before indent
    let indented := if multiline then indent + 2 else indent
    match value with
    | [] =>
      if !inner.isEmpty then
        applyTrailingTrivia
          (multilineBlock beforeStr ['['] (formatTrivia inner (indent + 2)) ']' indent inline false) after indent
      else
        applyTrailingTrivia (beforeStr ++ (if inline then [] else spaces indent) ++ ['[', ' ', ']']) after indent
    | _ :: _ =>
      let items := rebuildAll value indented (!multiline)
      if multiline then
        applyTrailingTrivia
          (beforeStr ++ multilineBlock [] ['['] (joinWith ['\n'] items) ']' indent inline true) after indent
      else
        applyTrailingTrivia
          (beforeStr ++ (if inline then [] else spaces indent) ++ ['[', ' '] ++ joinWith [' '] items ++ [' ', ']'])
          after indent
  | .set values multiline recursive inner before after, noAfter, indent, inline =>
    let after := if noAfter then [] else after
    let pre : Text := if recursive then ['r', 'e', 'c', ' '] else []
    match values with
    | [] =>
      if !inner.isEmpty then
        applyTrailingTrivia
          (multilineBlock (formatTrivia before indent) (pre ++ ['{']) (formatTrivia inner (indent + 2)) '}'
            indent inline false) after indent
      else addTrivia before after (pre ++ ['{', ' ', '}']) indent inline
    | _ :: _ =>
      if multiline then
        applyTrailingTrivia
          (multilineBlock (formatTrivia before indent) (pre ++ ['{'])
            (joinWith ['\n'] (rebuildAll values (indent + 2) false)) '}' indent inline true) after indent
      else
        addTrivia before after
          (pre ++ ['{', ' '] ++ joinWith [' '] (rebuildAll values (indent + 2) true) ++ [' ', '}']) indent inline
  | .binding name value valueGap before after, noAfter, indent, inline =>
    let after := if noAfter then [] else after
    let beforeStr := formatTrivia before indent
    let layout := Layout.fromGap valueGap
    -- a comment in front of an inline value forces the value onto its own line
    let forced := !layout.onNewline && value.before.any Trivia.isComment
    let onNewline := layout.onNewline || forced
    let valIndent :=
      if forced then indent + 2
      else if layout.onNewline then layout.indent.getD (indent + 2)
      else indent
    let valueStr :=
      match (if onNewline then none else value.preview valIndent) with
      | some p => p
      | none => value.rebuildA true valIndent (!onNewline)
    let core := name ++ [' ', '='] ++ (if onNewline then ['\n'] else [' ']) ++ rstripNL valueStr ++ [';']
    let rebuilt := beforeStr ++ (if inline then [] else spaces indent) ++ core
    bindingTail rebuilt (value.after ++ after) indent
/-- `[item.rebuild(indent, inline) for item in items]` -/
def rebuildAll : List Expr → Nat → Bool → List Text
  | [], _, _ => []
  | e :: rest, indent, inline => e.rebuildA false indent inline :: rebuildAll rest indent inline
/-- `isinstance(expr, NixList) and expr.simple_inline_preview(indent=…)` for the value of a
    binding (whose `after` has been emptied) -/
def Expr.preview : Expr → Nat → Option Text
  | .list value multiline inner before _, indent =>
    if multiline then none
    else if !before.isEmpty || !inner.isEmpty then none
    else if value.length > 1 then none
    else
      let p : Text :=
        match value with
        | [] => ['[', ' ', ']']
        | _ :: _ => ['[', ' '] ++ joinWith [' '] (rebuildAll value indent true) ++ [' ', ']']
      if containsNL p || p.length > maxInlineListWidth then none else some p
  | _, _ => none
end

/-- `expr.rebuild(indent, inline)` -/
def Expr.rebuild (e : Expr) (indent : Nat := 0) (inline : Bool := false) : Text :=
  e.rebuildA false indent inline

/-- `NixSourceCode.rebuild()` -/
def Src.rebuild (s : Src) : Text :=
  let rebuilt := (rebuildAll s.exprs 0 false).flatten
  if s.trailing.isEmpty then rebuilt
  else
    let trailingStr := trimTrailingLayoutNewline s.trailing (formatTrivia s.trailing 0)
    if !trailingStr.isEmpty then rebuilt ++ (if rebuilt.isEmpty then [] else ['\n']) ++ trailingStr
    else if (match s.trailing.getLast? with | some t => t.isLayout | none => false) then
      rebuilt ++ (if endsWithNL rebuilt then [] else ['\n'])
    else rebuilt

/-- parse, then rebuild: the round trip of a file -/
def File.roundtrip (f : File) : Except Err Text :=
  match f.parse with
  | .error e => .error e
  | .ok s => .ok s.rebuild

end Nima.Frag
