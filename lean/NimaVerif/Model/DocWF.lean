import NimaVerif.Model.AttrTree
/-!
L6 (d): structural well-formedness vocabulary for abstract documents (core Lean only).

`vIds` lists the identities of the objects reachable through `values` (the "skeleton": what Nix
reads); `attrpath_order` holds further references to the same objects and is not counted.
-/
namespace Nima
open Node

mutual
  /-- identities of the AttributeSet / Binding / Inherit objects reachable through `values` -/
  def vIds : Node → List Nat
    | .set s vs _ _ _ => s :: vIdsL vs
    | .bind i _ _ v _ _ => i :: vIds v
    | .inherit i _ => [i]
    | _ => []
  def vIdsL : List Node → List Nat
    | [] => []
    | x :: xs => vIds x ++ vIdsL xs
end

mutual
  /-- every attrpath family (`nested = true` binding) holds an attribute set that was made by the
      attrpath merge: only bindings inside, and no `attrpath_order` of its own -/
  def famOK : Node → Bool
    | .set _ vs _ _ _ => famOKL vs
    | .bind _ _ nested v _ _ =>
        famOK v && (!nested || (match v with
          | .set _ vs o _ _ => o.isEmpty && vs.all isBind
          | _ => false))
    | _ => true
  def famOKL : List Node → Bool
    | [] => true
    | x :: xs => famOK x && famOKL xs
end

mutual
  /-- all AttributeSet occurrences inside a node, copies in `attrpath_order` included -/
  def occS : Node → List Node
    | .set s vs o m r => .set s vs o m r :: (occSL vs ++ occSL o)
    | .bind _ _ _ v _ _ => occS v
    | .entry _ leaf _ _ => occS leaf
    | _ => []
  def occSL : List Node → List Node
    | [] => []
    | x :: xs => occS x ++ occSL xs
end

/-- Coherence: the places that reference the same AttributeSet object hold equal copies. -/
def Coh (t : Node) : Prop :=
  ∀ a ∈ occS t, ∀ b ∈ occS t, a.setSid? = b.setSid? → a = b

mutual
  /-- `attrpath_order` unused everywhere, every attrpath family non-empty and made of bindings only:
      the shape of a set built through the API (`AttributeSet(values=…)`, `from_dict`, `__setitem__`) -/
  def valuesMode : Node → Bool
    | .set _ vs o _ _ => o.isEmpty && valuesModeL vs
    | .bind _ _ false v _ _ => valuesMode v
    | .bind _ _ true (.set _ vs o _ _) _ _ => o.isEmpty && !vs.isEmpty && vs.all isBind && valuesModeL vs
    | .bind _ _ true _ _ _ => false
    | _ => true
  def valuesModeL : List Node → Bool
    | [] => true
    | x :: xs => valuesMode x && valuesModeL xs
end

/-- a key that `AttributeSet.__getitem__` does not read as a dotted path (`a.b`): the file-side
    splitter `_split_attrpath` sees at most one segment in it. Every identifier is one; so is every
    quoted spelling `_format_attr_name` writes (dots inside quotes do not split) — the latter is
    C12's subject and is a hypothesis here. -/
def plainKey (k : Text) : Bool :=
  match splitAttrpath k with
  | .ok segs => segs.length ≤ 1
  | .error _ => true

/-- identities reachable through `values` are pairwise different -/
def IdsOK (t : Node) : Prop := (vIds t).Nodup
/-- no set reachable through `values` defines a name twice -/
def KeysOK (t : Node) : Prop := (denote t).nodup = true
/-- the next `K` identities `fresh` hands out are unused -/
def FreshFor (t : Node) (next K : Nat) : Prop := ∀ i ∈ vIds t, i < next ∨ next + K ≤ i

instance (t : Node) : Decidable (IdsOK t) := by unfold IdsOK; infer_instance
instance (t : Node) : Decidable (KeysOK t) := by unfold KeysOK; infer_instance
instance (t : Node) (n K : Nat) : Decidable (FreshFor t n K) := by unfold FreshFor; infer_instance

/-- Well-formed editable document, as far as the attribute-level theorems need it. Every clause is
    structural and holds by construction for a document the parser produced (`harness/docmodel.py`
    numbers each Python object once; the parser rejects duplicate definitions; attrpath families are
    built by `_merge_attrpath_bindings`), and `scratch` is `none` between operations. -/
structure WF (d : Doc) : Prop where
  editable : d.noTarget = none
  isSet : d.target.isSet = true
  ids : IdsOK d.target
  keys : KeysOK d.target
  fam : famOK d.target = true
  scratch : d.scratch = none

end Nima
