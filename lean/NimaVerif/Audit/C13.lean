import NimaVerif.Props.C13
open Nima.C13
#print axioms tie_escape_table
#print axioms tie_max_inline_width
#print axioms tie_auto_multiline
#print axioms tie_single_binding
#print axioms tie_literals
#print axioms tie_coerce_order
