import NimaVerif.Model.Registry
import NimaVerif.Model.SExp
/-!
Driver request for the context registry:
`(registry (alloc a) (free o) (freeq o) (store o c) (get o) (clear o) …)` -> `(ok <answer> …)`, one
answer per `get`: `none` or `(some c)`.
-/
namespace Nima.Drv.Registry
open Nima Nima.Registry

def decOps : List SExp → Option (List Op)
  | [] => some []
  | .list [.atom "alloc", .atom a] :: rest => do pure (.alloc (← a.toNat?) :: (← decOps rest))
  | .list [.atom "free", .atom o] :: rest => do pure (.free (← o.toNat?) :: (← decOps rest))
  | .list [.atom "freeq", .atom o] :: rest => do pure (.freeQuiet (← o.toNat?) :: (← decOps rest))
  | .list [.atom "store", .atom o, .atom c] :: rest => do
    pure (.store (← o.toNat?) (← c.toNat?) :: (← decOps rest))
  | .list [.atom "get", .atom o] :: rest => do pure (.get (← o.toNat?) :: (← decOps rest))
  | .list [.atom "clear", .atom o] :: rest => do pure (.clear (← o.toNat?) :: (← decOps rest))
  | _ => none

def sAns : Option Nat → SExp
  | none => .atom "none"
  | some c => .list [.atom "some", sNat c]

def handle (req : SExp) : Option SExp :=
  match req with
  | .list (.atom "registry" :: ops) =>
    match decOps ops with
    | some os => some (.list (.atom "ok" :: (answers currentCfg init os).map sAns))
    | none => some (.list [.atom "bad-arg"])
  | _ => none

end Nima.Drv.Registry
