"""Heap-effect analysis of the rebuild-reachable Python code (C15a).

Python `ast` -> the IR of lean/NimaVerif/Model/Effects.lean:

    assign x (prim | unknown | var y | load y f | alloc s inits | copy s y upd)
    store lbl x f y          x.f = y
    mutate lbl x ys          in-place container update of x

A program is a *bag* of statements (the Lean semantics may run any statement at any time on any
value ever bound to its operands), so control flow is not represented.  Precision comes from
SSA-like versions: every Python assignment binds a new IR variable and a use refers to the
definitions that reach it (structural reaching-definitions over if/for/while/try/with/match).

Calls are resolved *by name* (every package function/method of that name), arguments are bound to
the callee's parameter variables, results flow back from its return variable (context
insensitive).  Constructors and `dataclasses.replace` allocate (`alloc` / `copy`) and then run
`__init__` / `__post_init__` with `self` bound to the new object.  Names annotated with immutable
types (str, int, bool, float, bytes, None, tuples of those) are `prim` and carry no heap reference.

What is NOT modelled (trusted / cross-checked dynamically by harness/props/c15.py): calls through
function values, `@property` reads (listed in `property_uses`; the check asserts they are never
invoked during rebuild), external callees outside the tables below (listed in `externals`,
assumed not to write their arguments).
"""
from __future__ import annotations

import ast
from dataclasses import dataclass, field
from pathlib import Path

PRIM = -1  # "value" of an expression that cannot hold a heap reference
NONE = -2  # in environments only: the name is bound to the constant None (PRIM for every other purpose)

PRIM_TYPE_NAMES = {"str", "int", "bool", "float", "bytes", "complex", "None", "NoneType", "Path", "PurePath"}
# Path objects are immutable values as far as the tree is concerned

MUTATORS = {
    "append", "extend", "insert", "pop", "remove", "clear", "sort", "reverse", "update", "setdefault",
    "add", "discard", "popitem", "appendleft", "extendleft", "popleft", "rotate", "__setitem__",
    "__delitem__", "__iadd__", "__setattr__", "__delattr__", "difference_update", "intersection_update",
    "symmetric_difference_update",
}
# external callables returning immutable values
PRIM_FUNCS = {
    "isinstance", "issubclass", "hasattr", "len", "bool", "any", "all", "str", "repr", "int", "float", "type",
    "id", "hash", "ord", "chr", "callable", "print", "format", "sum", "abs", "round", "divmod", "bytes",
    "isfinite", "range", "super", "object", "ValueError", "TypeError", "KeyError", "IndexError",
    "NotImplementedError", "AttributeError", "RuntimeError", "AssertionError", "StopIteration", "Exception",
    "NixSyntaxError", "ResolutionError", "Path", "colorize_nix",
}
PRIM_METHODS = {
    "endswith", "startswith", "join", "strip", "lstrip", "rstrip", "replace", "format", "lower", "upper",
    "decode", "encode", "removeprefix", "removesuffix", "count", "find", "rfind", "index", "isspace",
    "isfinite", "isdigit", "isalpha", "isalnum", "isidentifier", "search", "match", "fullmatch", "sub", "group", "start",
    "end", "span", "ljust", "rjust", "center", "zfill", "title", "capitalize", "expandtabs", "partition",
    "rpartition", "casefold", "isascii", "isupper", "islower", "hex", "is_absolute", "exists", "is_file",
    "read_text", "read_bytes", "as_posix", "bit_length", "isdecimal", "isnumeric", "isprintable",
    "translate", "swapcase", "__len__", "__contains__", "__eq__", "__ne__", "__hash__", "__repr__", "__str__",
}
# external callables returning a NEW container of (some of) the elements of their arguments
ALLOC_FUNCS = {"list", "tuple", "set", "frozenset", "sorted", "reversed", "iter", "dict", "deque", "filter", "map",
               "chain", "OrderedDict", "defaultdict"}
ALLOC_METHODS = {"copy", "items", "values", "keys", "split", "rsplit", "splitlines", "union", "intersection",
                 "difference", "symmetric_difference", "most_common", "findall", "finditer", "groups",
                 "__iter__", "__reversed__", "__add__", "__mul__"}
ELEMENT_FUNCS = {"min", "max", "next"}
ELEMENT_METHODS = {"get", "__getitem__"}


class EffectsError(Exception):
    pass


# ------------------------------------------------------------------------------------------------
# package index
# ------------------------------------------------------------------------------------------------
@dataclass
class FnInfo:
    q: str  # "expressions/binary.py:BinaryExpression.rebuild"
    rel: str
    node: ast.AST
    cls: str | None  # enclosing class (for methods, also for functions nested in methods)
    parent: str | None  # enclosing function qualname (nested defs)
    is_method: bool = False
    deco: tuple = ()


@dataclass
class ClsInfo:
    name: str
    rel: str
    node: ast.ClassDef
    bases: list[str]
    is_dataclass: bool
    kw_only: bool
    fields: list[tuple[str, ast.AST | None, ast.AST | None]]  # (name, annotation, default expr)
    methods: dict[str, str] = field(default_factory=dict)  # name -> qualname


def _ann_is_classvar(ann) -> bool:
    s = ast.unparse(ann) if ann is not None else ""
    return s.startswith("ClassVar")


def ann_is_prim(ann) -> bool:
    """Annotation of an immutable type (no heap cell of the tree can be written through it)."""
    if ann is None:
        return False
    if isinstance(ann, ast.Constant):
        if ann.value is None:
            return True
        if isinstance(ann.value, str):
            try:
                return ann_is_prim(ast.parse(ann.value, mode="eval").body)
            except SyntaxError:
                return False
        return False
    if isinstance(ann, ast.Name):
        return ann.id in PRIM_TYPE_NAMES
    if isinstance(ann, ast.Attribute):
        return ann.attr in PRIM_TYPE_NAMES
    if isinstance(ann, ast.BinOp) and isinstance(ann.op, ast.BitOr):
        return ann_is_prim(ann.left) and ann_is_prim(ann.right)
    if isinstance(ann, ast.Subscript):
        base = ann.value.id if isinstance(ann.value, ast.Name) else getattr(ann.value, "attr", "")
        args = ann.slice.elts if isinstance(ann.slice, ast.Tuple) else [ann.slice]
        if base in ("Optional", "Union", "tuple", "Tuple", "frozenset", "type"):
            return all(ann_is_prim(a) or (isinstance(a, ast.Constant) and a.value is Ellipsis) for a in args)
        if base == "Literal":
            return True
        return False
    return False


class Package:
    def __init__(self, root: Path):
        self.root = root
        self.mods: dict[str, ast.Module] = {}
        self.fns: dict[str, FnInfo] = {}
        self.by_name: dict[str, list[str]] = {}
        self.classes: dict[str, ClsInfo] = {}
        self.properties: dict[str, list[str]] = {}
        self.module_names: dict[str, set[str]] = {}  # module-level assigned names per file
        self.src: dict[str, list[str]] = {}
        for p in sorted(root.rglob("*.py")):
            rel = str(p.relative_to(root))
            try:
                text = p.read_text(encoding="utf-8")
                mod = ast.parse(text, filename=str(p))
            except (OSError, SyntaxError) as exc:
                raise EffectsError(f"cannot read {rel}: {exc}")
            self.mods[rel] = mod
            self.src[rel] = text.splitlines()
            self.module_names[rel] = set()
            for st in mod.body:
                for t in _assigned_names(st):
                    self.module_names[rel].add(t)
            self._index(rel, mod, None, None, "")

    def _index(self, rel, node, cls, parent, prefix):
        for ch in ast.iter_child_nodes(node):
            if isinstance(ch, ast.ClassDef):
                self._index_class(rel, ch)
                self._index(rel, ch, ch.name, parent, prefix + ch.name + ".")
            elif isinstance(ch, (ast.FunctionDef, ast.AsyncFunctionDef)):
                q = f"{rel}:{prefix}{ch.name}"
                deco = tuple(ast.unparse(d) for d in ch.decorator_list)
                info = FnInfo(q, rel, ch, cls, parent, is_method=isinstance(node, ast.ClassDef), deco=deco)
                self.fns[q] = info
                if any(d == "property" or d.endswith(".setter") or d.endswith("cached_property") for d in deco):
                    self.properties.setdefault(ch.name, []).append(q)
                else:
                    self.by_name.setdefault(ch.name, []).append(q)
                if isinstance(node, ast.ClassDef):
                    self.classes[node.name].methods[ch.name] = q
                self._index(rel, ch, cls, q, prefix + ch.name + ".")
            elif isinstance(ch, (ast.If, ast.Try, ast.With, ast.For, ast.While)):
                self._index(rel, ch, cls, parent, prefix)
            elif isinstance(ch, ast.ExceptHandler):
                self._index(rel, ch, cls, parent, prefix)

    def _index_class(self, rel, node: ast.ClassDef):
        bases = []
        for b in node.bases:
            if isinstance(b, ast.Name):
                bases.append(b.id)
            elif isinstance(b, ast.Subscript) and isinstance(b.value, ast.Name):
                bases.append(b.value.id)
            elif isinstance(b, ast.Attribute):
                bases.append(b.attr)
        is_dc, kw_only = False, False
        for d in node.decorator_list:
            s = ast.unparse(d)
            if s.startswith("dataclass") or s.startswith("dataclasses.dataclass"):
                is_dc = True
                if "kw_only=True" in s.replace(" ", ""):
                    kw_only = True
        fields = []
        for st in node.body:
            if isinstance(st, ast.AnnAssign) and isinstance(st.target, ast.Name):
                if _ann_is_classvar(st.annotation):
                    continue
                fields.append((st.target.id, st.annotation, st.value))
        self.classes[node.name] = ClsInfo(node.name, rel, node, bases, is_dc, kw_only, fields)

    # -- class helpers
    def mro(self, cname: str) -> list[str]:
        out, work = [], [cname]
        while work:
            c = work.pop(0)
            if c in out or c not in self.classes:
                continue
            out.append(c)
            work.extend(self.classes[c].bases)
        return out

    def is_dataclass(self, cname: str) -> bool:
        return any(self.classes[c].is_dataclass for c in self.mro(cname))

    def subclasses(self, cname: str) -> list[str]:
        return [c for c in self.classes if cname in self.mro(c)]

    def find_method(self, cname: str, m: str) -> str | None:
        for c in self.mro(cname):
            q = self.classes[c].methods.get(m)
            if q is not None:
                return q
        return None

    def dc_fields(self, cname: str):
        """dataclass fields in definition order (base classes first):
        [(name, annotation, default, kw_only)] with later definitions overriding earlier ones."""
        order: list[str] = []
        info: dict[str, tuple] = {}
        for c in reversed(self.mro(cname)):
            ci = self.classes[c]
            for name, ann, default in ci.fields:
                if name not in info:
                    order.append(name)
                info[name] = (name, ann, default, ci.kw_only)
        return [info[n] for n in order]

    def container_base(self, cname: str) -> bool:
        for c in self.mro(cname):
            for b in self.classes[c].bases:
                if b in ("list", "dict", "set", "deque", "UserList", "UserDict", "OrderedDict"):
                    return True
        return False

    def prim_field(self, name: str) -> bool:
        """every class-level annotation of this attribute name in the package is immutable"""
        anns = [ann for ci in self.classes.values() for (n, ann, _d) in ci.fields if n == name]
        # class bodies without dataclass (NixSourceCode) also annotate at class level: included above
        return bool(anns) and all(ann_is_prim(a) for a in anns)


def _assigned_names(st) -> list[str]:
    out = []
    if isinstance(st, ast.Assign):
        for t in st.targets:
            out += [n.id for n in ast.walk(t) if isinstance(n, ast.Name)]
    elif isinstance(st, (ast.AnnAssign, ast.AugAssign)):
        if isinstance(st.target, ast.Name):
            out.append(st.target.id)
    elif isinstance(st, (ast.If, ast.Try)):
        for sub in ast.iter_child_nodes(st):
            if isinstance(sub, ast.stmt):
                out += _assigned_names(sub)
            elif isinstance(sub, ast.ExceptHandler):
                for s2 in sub.body:
                    out += _assigned_names(s2)
    return out


# ------------------------------------------------------------------------------------------------
# the translator
# ------------------------------------------------------------------------------------------------
def own_nodes(fn):
    """AST nodes of a function body, not descending into nested function/class definitions."""
    stack = list(ast.iter_child_nodes(fn))
    while stack:
        n = stack.pop()
        yield n
        if isinstance(n, (ast.FunctionDef, ast.AsyncFunctionDef, ast.ClassDef)):
            continue
        stack.extend(ast.iter_child_nodes(n))


def local_names(fn) -> set[str]:
    names: set[str] = set()
    a = fn.args
    for p in a.posonlyargs + a.args + a.kwonlyargs:
        names.add(p.arg)
    if a.vararg:
        names.add(a.vararg.arg)
    if a.kwarg:
        names.add(a.kwarg.arg)
    declared_out: set[str] = set()
    comp_targets: set[str] = set()
    body_nodes = list(own_nodes(fn)) if not isinstance(fn, ast.Lambda) else list(ast.walk(fn.body))
    for n in body_nodes:
        if isinstance(n, ast.Name) and isinstance(n.ctx, (ast.Store, ast.Del)):
            names.add(n.id)
        elif isinstance(n, (ast.Global, ast.Nonlocal)):
            declared_out.update(n.names)
        elif isinstance(n, ast.ExceptHandler) and n.name:
            names.add(n.name)
        elif isinstance(n, (ast.FunctionDef, ast.AsyncFunctionDef)):
            names.add(n.name)
        elif isinstance(n, (ast.MatchAs, ast.MatchStar)) and n.name:
            names.add(n.name)
        elif isinstance(n, ast.MatchMapping) and n.rest:
            names.add(n.rest)
    return names - declared_out


class FnCtx:
    """Translation context of one function (parameters, return variable, closure variables)."""

    def __init__(self, tr: "Translator", info: FnInfo | None, node, parent: "FnCtx | None", q: str, inst: str = ""):
        # `inst`: suffix of a per-call-site instance (functions that forward a keyword dictionary
        # to dataclasses.replace are translated once per call site, see Translator.inline_fns)
        self.tr, self.info, self.node, self.parent = tr, info, node, parent
        self.label_q = q  # write statements keep the name of the function, not of the instance
        self.inst = inst
        q = q + inst
        self.q = q
        self.none_params: set[str] = set()
        self.locals = local_names(node)
        self.params: dict[str, int] = {}
        self.param_order: list[str] = []
        self.kwonly: list[str] = []
        self.vararg = node.args.vararg.arg if node.args.vararg else None
        self.kwarg = node.args.kwarg.arg if node.args.kwarg else None
        self.prim_params: set[str] = set()
        for p in node.args.posonlyargs + node.args.args:
            self.param_order.append(p.arg)
        for p in node.args.kwonlyargs:
            self.kwonly.append(p.arg)
        for p in node.args.posonlyargs + node.args.args + node.args.kwonlyargs:
            if ann_is_prim(p.annotation):
                self.prim_params.add(p.arg)
            self.params[p.arg] = tr.new_var(f"{q}:param:{p.arg}")
        for extra in (self.vararg, self.kwarg):
            if extra:
                self.params[extra] = tr.new_var(f"{q}:param:{extra}")
        self.ret = tr.new_var(f"{q}:ret")
        ret_ann = getattr(node, "returns", None)
        self.ret_prim = ann_is_prim(ret_ann)
        self.merged: dict[str, int] = {}  # closure view of each local: all its definitions
        self.nested: dict[str, "FnCtx"] = {}
        self.done = False
        deco = info.deco if info else ()
        self.is_static = "staticmethod" in deco
        self.is_classmethod = "classmethod" in deco
        self.is_method = bool(info and info.is_method)
        self.cls = info.cls if info else (parent.cls if parent else None)
        self.tr_set_names: set[str] = set()

    def merged_var(self, name: str) -> int:
        if name not in self.merged:
            self.merged[name] = self.tr.new_var(f"{self.q}:closure:{name}")
        return self.merged[name]


class Translator:
    def __init__(self, pkg: Package, roots: list[str]):
        self.pkg = pkg
        self.var_names: list[str] = []
        self.stmts: dict[tuple, None] = {}  # ordered set
        self.sites: dict[tuple, int] = {}
        self.site_names: list[str] = []
        self.fields: dict[str, int] = {"[]": 0}
        self.labels: dict[str, int] = {}
        self.label_info: dict[int, dict] = {}
        self.node_vars: dict[tuple, int] = {}
        self.ctxs: dict[str, FnCtx] = {}
        self.work: list[FnCtx] = []
        self.externals: dict[str, int] = {}
        self.property_uses: dict[str, set[str]] = {}
        self.escaping: set[str] = set()
        self.set_iterations: list[str] = []
        self.dict_iterations: list[str] = []
        self.ambient: list[str] = []
        self.known_dicts: dict[int, dict[str, int]] = {}  # dict objects whose key set is known exactly
        self.dict_tainted: set[int] = set()
        self.dict_used: set[int] = set()
        self.instances: dict[tuple, FnCtx] = {}
        self.inlined_bases: set[str] = set()
        self.inline_fns: set[str] = set()
        for q, info in pkg.fns.items():
            for n in own_nodes(info.node):
                if isinstance(n, ast.Call) and ast.unparse(n.func) in ("replace", "dataclasses.replace"):
                    if any(kw.arg is None and isinstance(kw.value, ast.Name) for kw in n.keywords):
                        self.inline_fns.add(q)
        self.primv = self.new_var("<prim>")
        self.emit(("assign", self.primv, ("prim",)))
        self.anyv = self.new_var("<unknown>")
        self.emit(("assign", self.anyv, ("unknown",)))
        self.roots = roots
        for q in roots:
            ctx = self.ctx_for(q)
            for name, v in ctx.params.items():
                self.emit(("assign", v, ("unknown",)))

    # -- allocation of ids
    def new_var(self, name: str) -> int:
        self.var_names.append(name)
        return len(self.var_names) - 1

    def node_var(self, node, role: str, fn: FnCtx) -> int:
        key = (id(node), role, fn.inst)
        if key not in self.node_vars:
            self.node_vars[key] = self.new_var(f"{fn.q}:{getattr(node, 'lineno', 0)}:{role}")
        return self.node_vars[key]

    def site(self, node, role: str, fn: FnCtx) -> int:
        key = (id(node), role, fn.inst)
        if key not in self.sites:
            self.sites[key] = len(self.site_names)
            self.site_names.append(f"{fn.q}:{getattr(node, 'lineno', 0)}:{role}")
        return self.sites[key]

    def fld(self, name: str) -> int:
        if name not in self.fields:
            self.fields[name] = len(self.fields)
        return self.fields[name]

    def label(self, fn: FnCtx, node, kind: str, attr: str) -> int:
        """Id of a write statement.  Its stable name `file:function:kind .attr#k` (k-th such write
        of the function in source order; independent of line numbers and of local variable
        names) is assigned in `analyse`."""
        fkey = fn.label_q
        pos = (getattr(node, "lineno", 0), getattr(node, "col_offset", 0))
        key = (fkey, kind, attr, pos)
        if key not in self.labels:
            self.labels[key] = len(self.labels)
            self.label_info[self.labels[key]] = {
                "fn": fkey, "kind": kind, "attr": attr, "line": pos[0], "file": fkey.split(":")[0],
            }
        return self.labels[key]

    def emit(self, st: tuple):
        self.stmts[st] = None

    # -- function contexts
    def ctx_for(self, q: str) -> FnCtx:
        if q not in self.ctxs:
            info = self.pkg.fns[q]
            parent = self.ctx_for(info.parent) if info.parent else None
            ctx = FnCtx(self, info, info.node, parent, q)
            self.ctxs[q] = ctx
            self.work.append(ctx)
            if parent is not None:
                parent.nested[info.node.name] = ctx
        return self.ctxs[q]

    def run(self):
        while self.work:
            ctx = self.work.pop()
            if ctx.done:
                continue
            ctx.done = True
            FnBody(self, ctx).translate()
        self.finish()

    def instance_for(self, c: FnCtx, call_node) -> FnCtx:
        key = (c.q, id(call_node))
        if key not in self.instances:
            self.instances[key] = FnCtx(self, c.info, c.node, c.parent, c.label_q, inst=f"@{len(self.instances)}")
            self.inlined_bases.add(c.label_q)
        return self.instances[key]

    def dict_keys(self, v: int):
        """the exactly known mapping of a dict object, or None"""
        if v in self.known_dicts and v not in self.dict_tainted:
            self.dict_used.add(v)
            return self.known_dicts[v]
        return None

    def finish(self):
        bad = self.dict_used & self.dict_tainted
        if bad:
            raise EffectsError("a keyword dictionary forwarded to dataclasses.replace is mutated after its keys were "
                               "read statically: " + ", ".join(self.var_names[v] for v in sorted(bad)))


class Dead(Exception):
    pass


class FnBody:
    """Abstract interpreter over one function body: env maps a local name to the set of IR
    variables (or PRIM) that may be its value here."""

    def __init__(self, tr: Translator, fn: FnCtx):
        self.tr, self.fn, self.pkg = tr, fn, tr.pkg
        self.loops: list[dict] = []
        self.try_collect: list[list] = []

    # ---------------------------------------------------------------- helpers
    def emit(self, st):
        self.tr.emit(st)

    def assign(self, x: int, rhs: tuple):
        self.emit(("assign", x, rhs))

    def nv(self, node, role="v") -> int:
        return self.tr.node_var(node, role, self.fn)

    def as_var(self, v: int) -> int:
        return self.tr.primv if v == PRIM else v

    def phi(self, node, role: str, vals) -> int:
        vals = [v for v in dict.fromkeys(vals) if v not in (PRIM, NONE)]
        if not vals:
            return PRIM
        if len(vals) == 1:
            return vals[0]
        x = self.nv(node, "phi:" + role)
        for v in vals:
            self.assign(x, ("var", v))
        return x

    def load(self, node, role: str, base: int, fname: str) -> int:
        if base == PRIM:
            return PRIM
        x = self.nv(node, "load:" + role)
        self.assign(x, ("load", base, self.tr.fld(fname)))
        return x

    def alloc(self, node, role: str, inits: list[tuple[str, int]]) -> int:
        x = self.nv(node, "new:" + role)
        s = self.tr.site(node, role, self.fn)
        ii = tuple((self.tr.fld(f), v) for f, v in inits if v != PRIM)
        self.assign(x, ("alloc", s, ii))
        return x

    def container_of(self, node, role: str, sources: list[int]) -> int:
        """a new container holding the elements of the given containers"""
        inits = []
        for i, src in enumerate(sources):
            if src != PRIM:
                inits.append(("[]", self.load(node, f"{role}:items{i}", src, "[]")))
        return self.alloc(node, role, inits)

    # ---------------------------------------------------------------- names
    def use(self, node: ast.Name, env) -> int:
        name = node.id
        if name in self.fn.locals:
            if name in env:
                return self.phi(node, "use", env[name])
            # local, but no definition reaches (or defined in a loop later): fall back to all defs
            return self.fn.merged_var(name)
        f = self.fn.parent
        while f is not None:
            if name in f.locals:
                if name in f.prim_params:
                    return PRIM
                if name in f.nested:
                    return PRIM
                return f.merged_var(name)
            f = f.parent
        return self.global_name(name)

    def global_name(self, name: str) -> int:
        rel = self.fn.q.split(":")[0]
        if name in self.pkg.module_names.get(rel, ()):
            return self.tr.anyv  # a module-level object of this file
        if name in self.pkg.classes or name in self.pkg.by_name:
            return PRIM  # a class / function object
        if name in ("True", "False", "None") or name in PRIM_FUNCS or name in ALLOC_FUNCS:
            return PRIM
        return self.tr.anyv  # module-level object (sentinel, constant table, imported module ...)

    def bind(self, name: str, v: int, env):
        env[name] = frozenset([v])
        if v not in (PRIM, NONE):
            self.assign(self.fn.merged_var(name), ("var", v))

    # ---------------------------------------------------------------- expressions
    def is_prim_expr(self, e, env) -> bool:
        if isinstance(e, (ast.Constant, ast.JoinedStr, ast.Compare)):
            return True
        if isinstance(e, ast.UnaryOp):
            return True
        return False

    def ev(self, e, env) -> int:  # noqa: C901
        tr = self.tr
        if e is None:
            return PRIM
        if isinstance(e, ast.Constant):
            return PRIM
        if isinstance(e, ast.JoinedStr):
            for v in e.values:
                if isinstance(v, ast.FormattedValue):
                    self.ev(v.value, env)
            return PRIM
        if isinstance(e, ast.FormattedValue):
            self.ev(e.value, env)
            return PRIM
        if isinstance(e, ast.Name):
            return self.use(e, env)
        if isinstance(e, ast.Attribute):
            base = self.ev(e.value, env)
            if e.attr in self.pkg.properties:
                tr.property_uses.setdefault(e.attr, set()).add(self.fn.q)
            if base == PRIM or self.pkg.prim_field(e.attr):
                return PRIM
            if e.attr.startswith("__") and e.attr.endswith("__") and e.attr not in ("__dict__",):
                return PRIM
            return self.load(e, "attr", base, e.attr)
        if isinstance(e, ast.Subscript):
            base = self.ev(e.value, env)
            if isinstance(e.slice, ast.Slice):
                for part in (e.slice.lower, e.slice.upper, e.slice.step):
                    self.ev(part, env)
                if base == PRIM:
                    return PRIM
                return self.container_of(e, "slice", [base])
            self.ev(e.slice, env)
            return self.load(e, "item", base, "[]")
        if isinstance(e, ast.Call):
            return self.call(e, env)
        if isinstance(e, ast.BinOp):
            l, r = self.ev(e.left, env), self.ev(e.right, env)
            if l == PRIM and r == PRIM:
                return PRIM
            if isinstance(e.op, (ast.Add, ast.BitOr, ast.BitAnd, ast.Sub, ast.BitXor)):
                if l == PRIM or r == PRIM:
                    # str + x, int + x: not a container operation (list + str is a TypeError)
                    if isinstance(e.op, ast.Add):
                        return PRIM
                return self.container_of(e, "binop", [l, r])
            if isinstance(e.op, ast.Mult):
                return self.container_of(e, "binop", [l, r])
            if isinstance(e.op, ast.Mod) and l == PRIM:
                return PRIM
            return PRIM if (l == PRIM or r == PRIM) else self.container_of(e, "binop", [l, r])
        if isinstance(e, ast.BoolOp):
            return self.phi(e, "bool", [self.ev(v, env) for v in e.values])
        if isinstance(e, ast.IfExp):
            self.ev(e.test, env)
            return self.phi(e, "ifexp", [self.ev(e.body, env), self.ev(e.orelse, env)])
        if isinstance(e, ast.Compare):
            self.ev(e.left, env)
            for c in e.comparators:
                self.ev(c, env)
            return PRIM
        if isinstance(e, ast.UnaryOp):
            self.ev(e.operand, env)
            return PRIM
        if isinstance(e, (ast.List, ast.Tuple, ast.Set)):
            inits = []
            for i, elt in enumerate(e.elts):
                if isinstance(elt, ast.Starred):
                    inits.append(("[]", self.load(elt, "star", self.ev(elt.value, env), "[]")))
                else:
                    inits.append(("[]", self.ev(elt, env)))
            return self.alloc(e, "lit", inits)
        if isinstance(e, ast.Dict):
            inits = []
            mapping: dict[str, int] | None = {}
            for k, v in zip(e.keys, e.values):
                if k is None:
                    vs = self.dict_variants(v, env)
                    src = self.ev(v, env)
                    inits.append(("[]", self.load(v, "dstar", src, "[]")))
                    if mapping is not None and vs is not None and len(vs) == 1:
                        mapping.update(vs[0])
                    else:
                        mapping = None
                else:
                    self.ev(k, env)
                    val = self.ev(v, env)
                    inits.append(("[]", val))
                    if mapping is not None and isinstance(k, ast.Constant) and isinstance(k.value, str):
                        mapping[k.value] = val
                    else:
                        mapping = None
            x = self.alloc(e, "dict", inits)
            if mapping is not None:
                tr.known_dicts[x] = mapping
            return x
        if isinstance(e, (ast.ListComp, ast.SetComp, ast.GeneratorExp, ast.DictComp)):
            env2 = dict(env)
            for g in e.generators:
                it = self.ev(g.iter, env2)
                self.note_iteration(g.iter, env2)
                self.assign_target(g.target, self.load(g, "compitem", it, "[]"), env2, g)
                for cond in g.ifs:
                    self.ev(cond, env2)
            if isinstance(e, ast.DictComp):
                self.ev(e.key, env2)
                elt = self.ev(e.value, env2)
            else:
                elt = self.ev(e.elt, env2)
            return self.alloc(e, "comp", [("[]", elt)])
        if isinstance(e, ast.Lambda):
            ctx = FnCtx(tr, None, e, self.fn, f"{self.fn.q}.<lambda@{e.lineno}>")
            for v in ctx.params.values():
                self.assign(v, ("unknown",))
            sub = FnBody(tr, ctx)
            r = sub.ev(e.body, {n: frozenset([v]) for n, v in ctx.params.items()})
            if r != PRIM:
                self.assign(ctx.ret, ("var", r))
            return PRIM
        if isinstance(e, ast.NamedExpr):
            v = self.ev(e.value, env)
            self.assign_target(e.target, v, env, e)
            return v
        if isinstance(e, ast.Starred):
            return self.load(e, "star", self.ev(e.value, env), "[]")
        if isinstance(e, (ast.Yield, ast.YieldFrom, ast.Await)):
            v = self.ev(e.value, env) if e.value is not None else PRIM
            if v != PRIM:
                self.assign(self.fn.ret, ("var", v))
            return tr.anyv
        if isinstance(e, ast.Slice):
            return PRIM
        raise EffectsError(f"{self.fn.q}:{getattr(e, 'lineno', 0)}: unsupported expression {type(e).__name__}")

    # ---------------------------------------------------------------- set / dict iteration (C15b)
    def note_iteration(self, it, env):
        s = ast.unparse(it)
        where = f"{self.fn.q}: for … in {s}"
        kind = None
        if isinstance(it, (ast.Set, ast.SetComp)):
            kind = "set"
        elif isinstance(it, ast.Call):
            f = it.func
            n = f.id if isinstance(f, ast.Name) else (f.attr if isinstance(f, ast.Attribute) else "")
            if n in ("set", "frozenset", "union", "intersection", "difference", "symmetric_difference"):
                kind = "set"
            elif n in ("items", "keys", "values", "dict"):
                kind = "dict"
        elif isinstance(it, ast.Name):
            if it.id in self.fn.tr_set_names:
                kind = "set"
        elif isinstance(it, ast.Attribute) and it.attr in self.tr.set_attrs:
            kind = "set"
        if kind == "set" and where not in self.tr.set_iterations:
            self.tr.set_iterations.append(where)
        if kind == "dict" and where not in self.tr.dict_iterations:
            self.tr.dict_iterations.append(where)

    # ---------------------------------------------------------------- calls
    def call(self, e: ast.Call, env) -> int:  # noqa: C901
        tr, pkg = self.tr, self.pkg
        f = e.func
        # evaluate arguments first
        args: list[int] = []
        star_args: list[int] = []
        for a in e.args:
            if isinstance(a, ast.Starred):
                star_args.append(self.load(a, "star", self.ev(a.value, env), "[]"))
            else:
                args.append(self.ev(a, env))
        kwargs: dict[str, int] = {}
        star_kwargs: list[int] = []
        for kw in e.keywords:
            if kw.arg is None:
                star_kwargs.append(self.load(kw, "dstar", self.ev(kw.value, env), "[]"))
            else:
                kwargs[kw.arg] = self.ev(kw.value, env)
        extra = star_args + star_kwargs

        if isinstance(f, ast.Name):
            n = f.id
            # lexically visible nested function
            ctx = self.fn
            if n == "cls" and self.fn.cls and (
                    self.fn.is_classmethod or (self.fn.parent is not None and self.fn.parent.is_classmethod)):
                return self.construct(e, pkg.subclasses(self.fn.cls), args, kwargs, extra)
            while ctx is not None:
                if n in ctx.nested or (n in ctx.locals and self._nested_def(ctx, n) is not None):
                    target = self._nested_def(ctx, n)
                    return self.bind_call(e, [target], args, kwargs, extra, recv=None)
                if n in ctx.locals:
                    # a callable held in a local variable: unknown callee
                    tr.externals[f"<callable {n}>"] = tr.externals.get(f"<callable {n}>", 0) + 1
                    return tr.anyv
                ctx = ctx.parent
            if n == "cast" and len(args) == 2:
                return args[1]
            if n in ("copy",) and len(args) == 1:
                return self.copy_of(e, args[0], [])
            if n == "deepcopy":
                return self.alloc(e, "deepcopy", [])
            if n == "replace" and args:
                if star_args:
                    return self.replace_unknown(e, args[0])
                upd: dict[str, int] = {}
                for kw in e.keywords:
                    if kw.arg is not None:
                        continue
                    vs = self.dict_variants(kw.value, env)
                    if vs is None:
                        return self.replace_unknown(e, args[0])
                    for key in dict.fromkeys(k for m in vs for k in m):
                        vals = [m[key] for m in vs if key in m]
                        if len(vals) < len(vs):
                            # the key is absent in some variants: there the field is inherited
                            vals.append(self.load(kw, f"inherit:{key}", args[0], key) if not pkg.prim_field(key) else PRIM)
                        upd[key] = self.phi(kw, f"updval:{key}", vals)
                upd.update(kwargs)
                return self.replace_of(e, args[0], list(upd.items()))
            if n == "getattr" and len(e.args) >= 2:
                nm = e.args[1].value if isinstance(e.args[1], ast.Constant) else None
                if isinstance(nm, str):
                    if nm in pkg.properties:
                        tr.property_uses.setdefault(nm, set()).add(self.fn.q)
                    got = PRIM if pkg.prim_field(nm) else self.load(e, "getattr", args[0], nm)
                else:
                    got = tr.anyv if args[0] != PRIM else PRIM
                return self.phi(e, "getattr", [got] + args[2:3])
            if n == "setattr" and len(e.args) == 3:
                nm = e.args[1].value if isinstance(e.args[1], ast.Constant) else "*"
                if args[0] != PRIM:
                    self.emit(("store", tr.label(self.fn, e, "setattr", str(nm)), args[0], tr.fld(str(nm)),
                               self.as_var(args[2])))
                return PRIM
            if n == "delattr" and len(e.args) == 2:
                nm = e.args[1].value if isinstance(e.args[1], ast.Constant) else "*"
                if args[0] != PRIM:
                    self.emit(("store", tr.label(self.fn, e, "delattr", str(nm)), args[0], tr.fld(str(nm)),
                               tr.primv))
                return PRIM
            if n in pkg.classes:
                return self.construct(e, [n], args, kwargs, extra)
            if n in pkg.by_name:
                qs = [q for q in pkg.by_name[n] if not pkg.fns[q].is_method and pkg.fns[q].parent is None]
                targets = [tr.ctx_for(q) for q in (qs or pkg.by_name[n])]
                return self.bind_call(e, targets, args, kwargs, extra, recv=None)
            if n in PRIM_FUNCS:
                return PRIM
            if n in ALLOC_FUNCS:
                x = self.container_of(e, n, args + extra)
                if n == "dict" and len(e.args) == 1 and not kwargs and not extra:
                    vs = self.dict_variants(e.args[0], env)
                    if vs is not None and len(vs) == 1:
                        tr.known_dicts[x] = dict(vs[0])  # a copy of a dictionary with known keys
                return x
            if n == "enumerate":
                tup = self.container_of(e, "enum-item", args[:1])
                return self.alloc(e, "enumerate", [("[]", tup)])
            if n == "zip":
                tup = self.container_of(e, "zip-item", args + extra)
                return self.alloc(e, "zip", [("[]", tup)])
            if n in ELEMENT_FUNCS:
                firsts = [self.load(e, f"elem{i}", a, "[]") for i, a in enumerate(args[:1])]
                return self.phi(e, n, firsts + args[1:] + list(kwargs.values()))
            tr.externals[n] = tr.externals.get(n, 0) + 1
            return tr.anyv if any(a != PRIM for a in args + list(kwargs.values()) + extra) else PRIM

        if (isinstance(f, ast.Attribute) and isinstance(f.value, ast.Name)
                and f.value.id in ("copy", "dataclasses") and not self._is_local(f.value.id)
                and f.attr in ("copy", "deepcopy", "replace")):
            synth = getattr(e, "_synth_mod", None)
            if synth is None:
                synth = ast.Call(func=ast.Name(id=f.attr, ctx=ast.Load()), args=e.args, keywords=e.keywords)
                ast.copy_location(synth, e)
                ast.copy_location(synth.func, e)
                e._synth_mod = synth
            return self.call(synth, env)
        # object.__setattr__(x, "f", v) / object.__delattr__(x, "f")
        if (isinstance(f, ast.Attribute) and f.attr in ("__setattr__", "__delattr__") and isinstance(f.value, ast.Name)
                and (f.value.id == "object" or f.value.id in pkg.classes) and len(e.args) >= 2):
            nm = e.args[1].value if isinstance(e.args[1], ast.Constant) else "*"
            if args[0] != PRIM:
                self.emit(("store", tr.label(self.fn, e, "setattr", str(nm)), args[0], tr.fld(str(nm)),
                           self.as_var(args[2]) if len(args) > 2 else tr.primv))
            return PRIM
        if isinstance(f, ast.Attribute):
            m = f.attr
            # super().m(...): the base-class behaviour of builtin containers is modelled at the
            # allocation; package base methods are bound explicitly
            if isinstance(f.value, ast.Call) and isinstance(f.value.func, ast.Name) and f.value.func.id == "super":
                if self.fn.cls:
                    for base in pkg.mro(self.fn.cls)[1:]:
                        q = pkg.classes[base].methods.get(m)
                        if q is not None:
                            selfv = self.self_var(env)
                            return self.bind_call(e, [tr.ctx_for(q)], args, kwargs, extra, recv=selfv)
                return PRIM
            # Class.method(...) through a class name
            if isinstance(f.value, ast.Name) and f.value.id in pkg.classes and not self._is_local(f.value.id):
                q = pkg.find_method(f.value.id, m)
                if q is not None:
                    c = tr.ctx_for(q)
                    if c.is_static:
                        return self.bind_call(e, [c], args, kwargs, extra, recv=None)
                    if c.is_classmethod:
                        return self.bind_call(e, [c], args, kwargs, extra, recv=PRIM)
                    return self.bind_call(e, [c], args[1:], kwargs, extra, recv=args[0] if args else tr.anyv)
            recv = self.ev(f.value, env)
            result = None
            if m in MUTATORS:
                if recv != PRIM:
                    tr.dict_tainted.add(recv)
                    ins = [a for a in args + list(kwargs.values()) + extra if a != PRIM]
                    if m in ("extend", "update", "__iadd__", "extendleft", "difference_update",
                             "intersection_update", "symmetric_difference_update"):
                        ins = [self.load(e, f"ext{i}", a, "[]") for i, a in enumerate(ins)]
                    self.emit(("mutate", tr.label(self.fn, e, "call", m), recv, tuple(v for v in ins if v != PRIM)))
                    if m in ("pop", "popitem", "popleft", "setdefault"):
                        result = self.phi(e, "popres", [self.load(e, "pop", recv, "[]")] + args[1:])
                    else:
                        result = PRIM
                else:
                    result = PRIM
            if m in pkg.by_name:
                targets = [tr.ctx_for(q) for q in pkg.by_name[m]]
                r2 = self.bind_call(e, targets, args, kwargs, extra, recv=recv)
                return r2 if result is None else self.phi(e, "mutres", [result, r2])
            if result is not None:
                return result
            if recv == PRIM and all(a == PRIM for a in args + list(kwargs.values()) + extra):
                return PRIM
            if m in PRIM_METHODS:
                return PRIM
            if m in ALLOC_METHODS:
                if m in ("items",):
                    tup = self.container_of(e, "item-pair", [recv])
                    return self.alloc(e, m, [("[]", tup)])
                if m in ("split", "rsplit", "splitlines", "findall", "finditer", "groups"):
                    return self.alloc(e, m, [])
                return self.container_of(e, m, [recv] + args)
            if m in ELEMENT_METHODS:
                return self.phi(e, m, [self.load(e, "elem", recv, "[]")] + args[1:])
            tr.externals["." + m] = tr.externals.get("." + m, 0) + 1
            return tr.anyv
        # getattr(o, "m", default)(...)  ==  o.m(...)
        if (isinstance(f, ast.Call) and isinstance(f.func, ast.Name) and f.func.id == "getattr"
                and len(f.args) >= 2 and isinstance(f.args[1], ast.Constant) and isinstance(f.args[1].value, str)):
            synth = getattr(e, "_synth", None)
            if synth is None:
                synth = ast.Call(func=ast.Attribute(value=f.args[0], attr=f.args[1].value, ctx=ast.Load()),
                                 args=e.args, keywords=e.keywords)
                ast.copy_location(synth, e)
                ast.copy_location(synth.func, e)
                e._synth = synth
            for d in f.args[2:]:
                self.ev(d, env)
            return self.call(synth, env)
        # call of a call result / subscript ...: unknown callee
        self.ev(f, env)
        key = f"<expr {ast.unparse(f)[:40]}> in {self.fn.q}"
        tr.externals[key] = tr.externals.get(key, 0) + 1
        return tr.anyv

    def _is_local(self, name: str) -> bool:
        c = self.fn
        while c is not None:
            if name in c.locals:
                return True
            c = c.parent
        return False

    def _nested_def(self, ctx: FnCtx, name: str):
        if name in ctx.nested:
            return ctx.nested[name]
        # find the def among the function's own statements
        for n in own_nodes(ctx.node):
            if isinstance(n, (ast.FunctionDef, ast.AsyncFunctionDef)) and n.name == name:
                q = f"{ctx.q}.{name}"
                if q in self.pkg.fns:
                    return self.tr.ctx_for(q)
        return None

    def self_var(self, env) -> int:
        c = self.fn
        while c is not None:
            if c.is_method and c.param_order:
                name = c.param_order[0]
                if c is self.fn:
                    return self.phi(c.node, "selfuse", env.get(name, frozenset([c.params[name]])))
                return c.merged_var(name)
            c = c.parent
        return self.tr.anyv

    def bind_call(self, e, targets: list[FnCtx], args, kwargs, extra, recv) -> int:
        """Bind the arguments to the parameters of every possible callee; the result is the join of
        their return variables."""
        tr = self.tr
        results = []
        for c in targets:
            if c is None:
                continue
            if c.info is not None and c.label_q in tr.inline_fns and not c.inst:
                c = tr.instance_for(c, e)
            bound_from: dict[str, int] = {}
            pos = list(c.param_order)
            if recv is not None and c.is_method and not c.is_static:
                first = pos.pop(0) if pos else None
                if first and not c.is_classmethod and recv != PRIM:
                    self.assign(c.params[first], ("var", recv))
            elif recv is not None and not c.is_method:
                pass  # module function reached through `module.func(...)`: no receiver parameter
            bound = set()
            for i, a in enumerate(args):
                if i < len(pos):
                    pname = pos[i]
                    bound.add(pname)
                    bound_from[pname] = a
                    if a != PRIM and pname not in c.prim_params:
                        self.assign(c.params[pname], ("var", a))
                elif c.vararg:
                    if a != PRIM:
                        self.assign(c.params[c.vararg], ("var", self.alloc(e, f"varargs:{c.q}", [("[]", a)])))
            for k, a in kwargs.items():
                if k in c.params and k not in (c.vararg, c.kwarg):
                    bound_from[k] = a
                    if a != PRIM and k not in c.prim_params:
                        self.assign(c.params[k], ("var", a))
                elif c.kwarg and a != PRIM:
                    self.assign(c.params[c.kwarg], ("var", self.alloc(e, f"kwargs:{c.q}", [("[]", a)])))
            for x in extra:
                # *args / **kwargs at the call site: may land in any parameter
                for pname, pv in c.params.items():
                    if pname not in c.prim_params and x != PRIM:
                        if pname in (c.vararg, c.kwarg):
                            self.assign(pv, ("var", self.alloc(e, f"spread:{c.q}", [("[]", x)])))
                        else:
                            self.assign(pv, ("var", x))
            if c.inst and not c.done:
                # per-call-site instance: what is known about the arguments is known about the
                # parameters (keyword dictionaries with exactly known keys, omitted `= None` defaults)
                c.done = True
                if not extra:
                    for pname, a in bound_from.items():
                        m = tr.dict_keys(a) if a not in (PRIM, NONE) else None
                        if m is not None:
                            tr.known_dicts[c.params[pname]] = m
                    defaults = self._param_defaults(c.node)
                    for pname in c.params:
                        if pname not in bound_from and pname not in (c.param_order[:1] if c.is_method else []):
                            d = defaults.get(pname)
                            if isinstance(d, ast.Constant) and d.value is None:
                                c.none_params.add(pname)
                FnBody(tr, c).translate()
            if not c.ret_prim:
                results.append(c.ret)
        return self.phi(e, "callres", results)

    @staticmethod
    def _param_defaults(node) -> dict:
        a = node.args
        pos = a.posonlyargs + a.args
        out = {p.arg: d for p, d in zip(pos[len(pos) - len(a.defaults):], a.defaults)}
        out.update({p.arg: d for p, d in zip(a.kwonlyargs, a.kw_defaults) if d is not None})
        return out

    def dict_variants(self, expr, env):
        """[mapping] for every object the expression may denote if all of them are dictionaries with
        exactly known keys (the constant None counts as the empty mapping), else None"""
        if isinstance(expr, ast.Name) and expr.id in self.fn.locals and expr.id in env:
            out = []
            for d in env[expr.id]:
                if d == NONE:
                    out.append({})
                    continue
                m = self.tr.dict_keys(d) if d != PRIM else None
                if m is None:
                    return None
                out.append(m)
            return out or None
        if isinstance(expr, ast.Dict):
            v = self.ev(expr, env)
            m = self.tr.dict_keys(v)
            return None if m is None else [m]
        return None

    def fold(self, test, env):
        """True / False when the test is decided by what is statically known about keyword
        dictionaries (`not update`, `"k" in update`, …), else None"""
        if isinstance(test, ast.Constant):
            return bool(test.value)
        if isinstance(test, ast.UnaryOp) and isinstance(test.op, ast.Not):
            r = self.fold(test.operand, env)
            return None if r is None else not r
        if isinstance(test, ast.Name):
            vs = self.dict_variants(test, env)
            if vs is None:
                return None
            truth = {bool(m) for m in vs}
            return truth.pop() if len(truth) == 1 else None
        if isinstance(test, ast.Compare) and len(test.ops) == 1 and isinstance(test.ops[0], (ast.In, ast.NotIn)) \
                and isinstance(test.left, ast.Constant) and isinstance(test.left.value, str):
            vs = self.dict_variants(test.comparators[0], env)
            if vs is None:
                return None
            truth = {test.left.value in m for m in vs}
            if len(truth) != 1:
                return None
            r = truth.pop()
            return r if isinstance(test.ops[0], ast.In) else not r
        if isinstance(test, ast.BoolOp):
            rs = [self.fold(v, env) for v in test.values]
            if isinstance(test.op, ast.And):
                if any(r is False for r in rs):
                    return False
                return True if all(r is True for r in rs) else None
            if any(r is True for r in rs):
                return True
            return False if all(r is False for r in rs) else None
        return None

    # ---------------------------------------------------------------- allocation of package objects
    def copy_of(self, e, y: int, upd: list[tuple[str, int]]) -> int:
        if y == PRIM:
            return PRIM
        x = self.nv(e, "copy")
        s = self.tr.site(e, "copy", self.fn)
        uu = tuple((self.tr.fld(f), self.as_var(v)) for f, v in upd)
        self.assign(x, ("copy", s, y, uu))
        return x

    def post_inits_for(self, obj_expr) -> list[str]:
        """`__post_init__` methods that may run when `obj_expr` is replaced: those of the class of
        `self` and its subclasses when the object is the `self` of a method, else all of them."""
        pkg = self.pkg
        allq = list(pkg.by_name.get("__post_init__", []))
        c = self.fn
        if isinstance(obj_expr, ast.Name) and c.is_method and not c.is_static and not c.is_classmethod \
                and c.param_order and obj_expr.id == c.param_order[0] and c.cls in pkg.classes:
            qs = []
            for sub in pkg.subclasses(c.cls):
                q = pkg.find_method(sub, "__post_init__")
                if q is not None and q not in qs:
                    qs.append(q)
            return qs
        return allq

    def replace_of(self, e, y: int, upd: list[tuple[str, int]]) -> int:
        """dataclasses.replace(y, **upd): shallow copy with the given fields, then `__post_init__`
        runs on the copy."""
        x = self.copy_of(e, y, upd)
        if x == PRIM:
            return PRIM
        obj_expr = e.args[0] if getattr(e, "args", None) else None
        for q in self.post_inits_for(obj_expr):
            c = self.tr.ctx_for(q)
            if c.param_order:
                self.assign(c.params[c.param_order[0]], ("var", x))
        return x

    def replace_unknown(self, e, y: int) -> int:
        # fields not known statically: the result is treated as Shared (top) - sound, imprecise
        x = self.replace_of(e, y, [])
        return self.phi(e, "replace?", [x, self.tr.anyv])

    def construct(self, e, classes: list[str], args, kwargs, extra) -> int:
        tr, pkg = self.tr, self.pkg
        outs = []
        for cname in classes:
            x = self.nv(e, f"new:{cname}")
            s = tr.site(e, f"new:{cname}", self.fn)
            inits: list[tuple[int, int]] = []
            if pkg.is_dataclass(cname):
                flds = pkg.dc_fields(cname)
                positional = [f for f in flds if not f[3]]
                given = set()
                for i, a in enumerate(args):
                    if i < len(positional):
                        given.add(positional[i][0])
                        if a != PRIM and not ann_is_prim(positional[i][1]):
                            inits.append((tr.fld(positional[i][0]), a))
                for k, a in kwargs.items():
                    given.add(k)
                    if a != PRIM:
                        inits.append((tr.fld(k), a))
                for x2 in extra:
                    for (fname, ann, _d, _kw) in flds:
                        if not ann_is_prim(ann):
                            inits.append((tr.fld(fname), x2))
                for (fname, ann, default, _kw) in flds:
                    if fname in given or default is None:
                        continue
                    dv = self.default_value(e, cname, fname, default)
                    if dv != PRIM:
                        inits.append((tr.fld(fname), dv))
                self.assign(x, ("alloc", s, tuple(inits)))
                q = pkg.find_method(cname, "__post_init__")
                if q is not None:
                    c = tr.ctx_for(q)
                    self.assign(c.params[c.param_order[0]], ("var", x))
            else:
                if pkg.container_base(cname) and args:
                    inits.append((tr.fld("[]"), self.load(e, f"ctor-items:{cname}", args[0], "[]")))
                self.assign(x, ("alloc", s, tuple(i for i in inits if i[1] != PRIM)))
                q = pkg.find_method(cname, "__init__")
                if q is not None:
                    self.bind_call(e, [tr.ctx_for(q)], args, kwargs, extra, recv=x)
            outs.append(x)
        return self.phi(e, "ctor", outs)

    def default_value(self, e, cname: str, fname: str, default) -> int:
        """value of a dataclass field default: `field(default_factory=F)` allocates, constants are prim"""
        if isinstance(default, ast.Call) and ast.unparse(default.func) in ("field", "dataclasses.field"):
            for kw in default.keywords:
                if kw.arg == "default_factory":
                    fac = ast.unparse(kw.value)
                    if fac in self.pkg.classes:
                        return self.construct_default(e, fac, f"default:{cname}.{fname}")
                    return self.alloc(e, f"default:{cname}.{fname}", [])
                if kw.arg == "default":
                    return PRIM if isinstance(kw.value, ast.Constant) else self.tr.anyv
            return PRIM
        if isinstance(default, ast.Constant):
            return PRIM
        if isinstance(default, (ast.List, ast.Dict, ast.Set, ast.Tuple)) and not getattr(default, "elts", getattr(default, "keys", [])):
            return self.alloc(e, f"default:{cname}.{fname}", [])
        return self.tr.anyv  # a shared module-level default object

    def construct_default(self, e, cname: str, role: str) -> int:
        """`default_factory=Cls`: Cls() with no arguments"""
        tr, pkg = self.tr, self.pkg
        x = self.nv(e, role)
        s = tr.site(e, role, self.fn)
        inits = []
        if pkg.is_dataclass(cname):
            for (fname, ann, default, _kw) in pkg.dc_fields(cname):
                if default is None:
                    continue
                dv = self.default_value(e, cname, role + "." + fname, default)
                if dv != PRIM:
                    inits.append((tr.fld(fname), dv))
            self.assign(x, ("alloc", s, tuple(inits)))
            q = pkg.find_method(cname, "__post_init__")
            if q is not None:
                c = tr.ctx_for(q)
                self.assign(c.params[c.param_order[0]], ("var", x))
        else:
            self.assign(x, ("alloc", s, ()))
            q = pkg.find_method(cname, "__init__")
            if q is not None:
                self.bind_call(e, [tr.ctx_for(q)], [], {}, [], recv=x)
        return x

    # ---------------------------------------------------------------- assignment targets
    def assign_target(self, t, v: int, env, node):
        tr = self.tr
        if isinstance(t, ast.Name):
            if t.id in self.fn.locals:
                self.bind(t.id, v, env)
            else:
                # `global X` / `nonlocal X` assignment
                f = self.fn.parent
                while f is not None:
                    if t.id in f.locals:
                        if v != PRIM:
                            self.assign(f.merged_var(t.id), ("var", v))
                        return
                    f = f.parent
                self.emit(("store", tr.label(self.fn, node, "global", t.id), tr.anyv, tr.fld("global:" + t.id),
                           self.as_var(v)))
        elif isinstance(t, ast.Attribute):
            base = self.ev(t.value, env)
            if base != PRIM:
                self.emit(("store", tr.label(self.fn, node, "store", t.attr), base, tr.fld(t.attr), self.as_var(v)))
        elif isinstance(t, ast.Subscript):
            base = self.ev(t.value, env)
            self.ev(t.slice, env) if not isinstance(t.slice, ast.Slice) else None
            if base != PRIM:
                tr.dict_tainted.add(base)
                ins = (v,) if v != PRIM else ()
                if isinstance(t.slice, ast.Slice) and v != PRIM:
                    ins = tuple(x for x in [self.load(node, "sliceassign", v, "[]")] if x != PRIM)
                self.emit(("mutate", tr.label(self.fn, node, "setitem", "[]"), base, ins))
        elif isinstance(t, (ast.Tuple, ast.List)):
            for elt in t.elts:
                if isinstance(elt, ast.Starred):
                    self.assign_target(elt.value, self.container_of(elt, "starred", [v]), env, node)
                else:
                    self.assign_target(elt, self.load(elt, "unpack", v, "[]"), env, node)
        elif isinstance(t, ast.Starred):
            self.assign_target(t.value, v, env, node)
        else:
            raise EffectsError(f"{self.fn.q}:{getattr(t, 'lineno', 0)}: unsupported target {type(t).__name__}")

    # ---------------------------------------------------------------- statements
    def translate(self):
        fn = self.fn
        env: dict[str, frozenset] = {}
        for name, v in fn.params.items():
            if name in fn.none_params:
                env[name] = frozenset([NONE])
            elif name in fn.prim_params:
                env[name] = frozenset([PRIM])
            else:
                env[name] = frozenset([v])
                self.assign(fn.merged_var(name), ("var", v))
        # defaults
        a = fn.node.args
        pos = a.posonlyargs + a.args
        # default values are evaluated once, at definition time: a mutable default is an object
        # shared by all calls (never Fresh)
        for p, d in zip(pos[len(pos) - len(a.defaults):], a.defaults):
            dv = self.ev(d, env)
            if dv != PRIM and p.arg not in fn.prim_params:
                self.assign(fn.params[p.arg], ("unknown",))
        for p, d in zip(a.kwonlyargs, a.kw_defaults):
            if d is not None:
                dv = self.ev(d, env)
                if dv != PRIM and p.arg not in fn.prim_params:
                    self.assign(fn.params[p.arg], ("unknown",))
        # pre-create nested function contexts (they may be called before their def is reached)
        for n in own_nodes(fn.node):
            if isinstance(n, (ast.FunctionDef, ast.AsyncFunctionDef)):
                q = f"{fn.q}.{n.name}"
                if q in self.pkg.fns:
                    self.tr.ctx_for(q)
        self.block(fn.node.body, env)

    def join(self, envs):
        envs = [e for e in envs if e is not None]
        if not envs:
            return None
        out: dict[str, frozenset] = {}
        for e in envs:
            for k, v in e.items():
                out[k] = out.get(k, frozenset()) | v
        return out

    def block(self, stmts, env):
        for st in stmts:
            if env is None:
                return None
            env = self.stmt(st, env)
            if env is not None:
                for col in self.try_collect:
                    col.append(dict(env))
        return env

    def stmt(self, st, env):  # noqa: C901
        tr = self.tr
        if isinstance(st, ast.Expr):
            self.ev(st.value, env)
            return env
        if isinstance(st, ast.Assign):
            v = self.ev(st.value, env)
            self.track_set_name(st)
            for t in st.targets:
                if (isinstance(st.value, ast.Constant) and st.value.value is None and isinstance(t, ast.Name)
                        and t.id in self.fn.locals):
                    env[t.id] = frozenset([NONE])
                else:
                    self.assign_target(t, v, env, st)
            return env
        if isinstance(st, ast.AnnAssign):
            if st.value is not None:
                v = self.ev(st.value, env)
                if ann_is_prim(st.annotation):
                    v = PRIM
                self.track_set_name(st)
                self.assign_target(st.target, v, env, st)
            return env
        if isinstance(st, ast.AugAssign):
            return self.augassign(st, env)
        if isinstance(st, ast.If):
            self.ev(st.test, env)
            decided = self.fold(st.test, env)
            if decided is True:
                return self.block(st.body, dict(env))
            if decided is False:
                return self.block(st.orelse, dict(env))
            e1 = self.block(st.body, dict(env))
            e2 = self.block(st.orelse, dict(env))
            return self.join([e1, e2])
        if isinstance(st, (ast.For, ast.AsyncFor)):
            it = self.ev(st.iter, env)
            self.note_iteration(st.iter, env)
            return self.loop(st, env, lambda e: self.assign_target(st.target, self.load(st, "iter", it, "[]"), e, st))
        if isinstance(st, ast.While):
            return self.loop(st, env, lambda e: self.ev(st.test, e))
        if isinstance(st, (ast.With, ast.AsyncWith)):
            for item in st.items:
                cm = self.ev(item.context_expr, env)
                if item.optional_vars is not None:
                    self.assign_target(item.optional_vars, tr.anyv if cm != PRIM else PRIM, env, st)
            return self.block(st.body, env)
        if isinstance(st, ast.Try) or type(st).__name__ == "TryStar":
            col: list = [dict(env)]
            self.try_collect.append(col)
            try:
                after = self.block(st.body, dict(env))
            finally:
                self.try_collect.pop()
            outs = []
            handler_in = self.join(col)
            for h in st.handlers:
                he = dict(handler_in)
                if h.type is not None:
                    self.ev(h.type, he)
                if h.name:
                    self.bind(h.name, tr.anyv, he)
                outs.append(self.block(h.body, he))
            if after is not None:
                after = self.block(st.orelse, after)
            outs.append(after)
            res = self.join(outs)
            if st.finalbody:
                fin_in = self.join([res, handler_in])
                fin_out = self.block(st.finalbody, fin_in)
                return None if res is None else fin_out
            return res
        if isinstance(st, ast.Return):
            v = self.ev(st.value, env)
            if v != PRIM and not self.fn.ret_prim:
                self.assign(self.fn.ret, ("var", v))
            return None
        if isinstance(st, ast.Raise):
            self.ev(st.exc, env)
            self.ev(st.cause, env)
            return None
        if isinstance(st, ast.Assert):
            self.ev(st.test, env)
            self.ev(st.msg, env)
            return env
        if isinstance(st, ast.Delete):
            for t in st.targets:
                if isinstance(t, ast.Name):
                    env.pop(t.id, None)
                elif isinstance(t, ast.Attribute):
                    base = self.ev(t.value, env)
                    if base != PRIM:
                        self.emit(("store", tr.label(self.fn, st, "del", t.attr), base, tr.fld(t.attr), tr.primv))
                elif isinstance(t, ast.Subscript):
                    base = self.ev(t.value, env)
                    if not isinstance(t.slice, ast.Slice):
                        self.ev(t.slice, env)
                    if base != PRIM:
                        self.emit(("mutate", tr.label(self.fn, st, "delitem", "[]"), base, ()))
            return env
        if isinstance(st, ast.Break):
            if self.loops:
                self.loops[-1]["break"].append(dict(env))
            return None
        if isinstance(st, ast.Continue):
            if self.loops:
                self.loops[-1]["continue"].append(dict(env))
            return None
        if isinstance(st, (ast.Pass, ast.Import, ast.ImportFrom, ast.Global, ast.Nonlocal, ast.ClassDef)):
            if isinstance(st, (ast.Import, ast.ImportFrom)):
                for al in st.names:
                    nm = (al.asname or al.name).split(".")[0]
                    if nm in self.fn.locals:
                        # imported inside the function: a module-level entity (class, function, sentinel)
                        env[nm] = frozenset([self.global_name(nm)])
                        if env[nm] != frozenset([PRIM]):
                            self.assign(self.fn.merged_var(nm), ("var", tr.anyv))
            return env
        if isinstance(st, (ast.FunctionDef, ast.AsyncFunctionDef)):
            env[st.name] = frozenset([PRIM])
            for d in st.decorator_list:
                self.ev(d, env)
            return env
        if isinstance(st, ast.Match):
            subj = self.ev(st.subject, env)
            outs = []
            for case in st.cases:
                ce = dict(env)
                for n in ast.walk(case.pattern):
                    nm = getattr(n, "name", None) if isinstance(n, (ast.MatchAs, ast.MatchStar)) else None
                    if nm:
                        self.bind(nm, subj if (isinstance(n, ast.MatchAs) and n is case.pattern) else
                                  (tr.anyv if subj != PRIM else PRIM), ce)
                    if isinstance(n, ast.MatchMapping) and n.rest:
                        self.bind(n.rest, tr.anyv, ce)
                    if isinstance(n, ast.MatchValue):
                        self.ev(n.value, ce)
                if case.guard is not None:
                    self.ev(case.guard, ce)
                outs.append(self.block(case.body, ce))
            outs.append(dict(env))
            return self.join(outs)
        raise EffectsError(f"{self.fn.q}:{getattr(st, 'lineno', 0)}: unsupported statement {type(st).__name__}")

    def track_set_name(self, st):
        v = st.value
        is_set = isinstance(v, (ast.Set, ast.SetComp)) or (
            isinstance(v, ast.Call) and isinstance(v.func, ast.Name) and v.func.id in ("set", "frozenset"))
        tgts = st.targets if isinstance(st, ast.Assign) else [st.target]
        for t in tgts:
            if isinstance(t, ast.Name):
                ann = getattr(st, "annotation", None)
                if is_set or (ann is not None and ast.unparse(ann).startswith(("set", "frozenset", "Set"))):
                    self.fn.tr_set_names.add(t.id)

    def loop(self, st, env, head):
        frame = {"break": [], "continue": []}
        self.loops.append(frame)
        try:
            cur = dict(env)
            out = None
            for _ in range(4):
                e_in = dict(cur)
                head(e_in)
                out = self.block(st.body, e_in)
                nxt = self.join([cur, out] + frame["continue"])
                if nxt == cur:
                    break
                cur = nxt
            # loop exit: zero or more iterations, then the head evaluated once more
            exit_env = dict(cur)
            head(exit_env)
        finally:
            self.loops.pop()
        after = self.block(st.orelse, dict(exit_env)) if st.orelse else exit_env
        return self.join([after] + frame["break"])

    def augassign(self, st: ast.AugAssign, env):
        tr = self.tr
        v = self.ev(st.value, env)
        t = st.target
        prim_rhs = v == PRIM
        if isinstance(t, ast.Name):
            fake = ast.Name(id=t.id, ctx=ast.Load())
            ast.copy_location(fake, t)
            cur = self.use_aug(t, env)
            if cur == PRIM or (prim_rhs and isinstance(st.op, ast.Add)):
                # str/int accumulation (list += str-constant would be a character-wise extend of a
                # list: excluded by the PRIM value of the right-hand side only when the target is
                # PRIM too; with a non-PRIM target a PRIM right-hand side of `+=` is still a mutation)
                if cur == PRIM:
                    self.assign_target(t, PRIM, env, st)
                    return env
            ins = tuple(x for x in [self.load(st, "augitems", v, "[]")] if x != PRIM)
            self.emit(("mutate", tr.label(self.fn, st, "aug", type(st.op).__name__), cur, ins))
            self.assign_target(t, cur, env, st)
            return env
        if isinstance(t, ast.Attribute):
            base = self.ev(t.value, env)
            if base == PRIM:
                return env
            if self.pkg.prim_field(t.attr):
                self.emit(("store", tr.label(self.fn, st, "store", t.attr), base, tr.fld(t.attr), tr.primv))
                return env
            cur = self.load(st, "augattr", base, t.attr)
            ins = tuple(x for x in [self.load(st, "augitems", v, "[]")] if x != PRIM)
            self.emit(("mutate", tr.label(self.fn, st, "augattr", t.attr), cur, ins))
            self.emit(("store", tr.label(self.fn, st, "store", t.attr), base, tr.fld(t.attr), cur))
            return env
        if isinstance(t, ast.Subscript):
            base = self.ev(t.value, env)
            if not isinstance(t.slice, ast.Slice):
                self.ev(t.slice, env)
            if base != PRIM:
                self.emit(("mutate", tr.label(self.fn, st, "setitem", "[]"), base, (v,) if v != PRIM else ()))
            return env
        raise EffectsError(f"{self.fn.q}:{st.lineno}: unsupported augmented target")

    def use_aug(self, t: ast.Name, env) -> int:
        if t.id in self.fn.locals and t.id in env:
            return self.phi(t, "auguse", env[t.id])
        fake = ast.Name(id=t.id, ctx=ast.Load())
        return self.use(fake, env) if t.id not in self.fn.locals else self.fn.merged_var(t.id)


# ------------------------------------------------------------------------------------------------
# certificate inference (least fixpoint; validated by Lean, not trusted)
# ------------------------------------------------------------------------------------------------
SHARED = None  # abstract value: None = shared, frozenset = fresh(sites)


def infer(stmts: list[tuple], nvars: int):
    var = [frozenset() for _ in range(nvars)]
    fld: dict[tuple[int, int], object] = {}
    state = {"changed": True}

    def le_join(dst, a):
        """dst ⊔ a"""
        if dst is SHARED or a is SHARED:
            return SHARED
        return dst | a

    def getf(s, f):
        # an entry that is asked for is recorded (Lean reads a missing entry as `shared`)
        if (s, f) not in fld:
            fld[(s, f)] = frozenset()
            state["changed"] = True
        return fld[(s, f)]

    def load_abs(a, f):
        if a is SHARED:
            return SHARED
        out = frozenset()
        for t in a:
            out = le_join(out, getf(t, f))
        return out

    def upv(x, a):
        n = le_join(var[x], a)
        if n != var[x]:
            var[x] = n
            state["changed"] = True

    def upf(s, f, a):
        n = le_join(getf(s, f), a)
        if n != fld[(s, f)]:
            fld[(s, f)] = n
            state["changed"] = True

    rounds = 0
    while state["changed"]:
        state["changed"] = False
        rounds += 1
        if rounds > 500:
            raise EffectsError("certificate inference does not converge")
        for st in stmts:
            if st[0] == "assign":
                _, x, r = st
                k = r[0]
                if k == "prim":
                    pass
                elif k == "unknown":
                    upv(x, SHARED)
                elif k == "var":
                    upv(x, var[r[1]])
                elif k == "load":
                    upv(x, load_abs(var[r[1]], r[2]))
                elif k == "alloc":
                    upv(x, frozenset([r[1]]))
                    for f, y in r[2]:
                        upf(r[1], f, var[y])
                elif k == "copy":
                    s, y, upd = r[1], r[2], r[3]
                    upv(x, frozenset([s]))
                    keys = {f for f, _ in upd}
                    for f, v in upd:
                        upf(s, f, var[v])
                    if var[y] is not SHARED:
                        # keep what is known about the fields of the original
                        for t in var[y]:
                            for (s2, f2) in list(fld):
                                if s2 == t and f2 not in keys:
                                    getf(s, f2)
                    for (s2, f2) in list(fld):
                        if s2 == s and f2 not in keys:
                            upf(s, f2, load_abs(var[y], f2))
            elif st[0] in ("store", "mutate"):
                x = st[2]
                f = st[3] if st[0] == "store" else 0
                ys = [st[4]] if st[0] == "store" else list(st[3])
                if var[x] is SHARED:
                    continue  # a violation: reported by the checker
                for t in var[x]:
                    for y in ys:
                        upf(t, f, var[y])
    return var, fld


def violations(stmts, var, fld):
    out = []
    for st in stmts:
        if st[0] in ("store", "mutate") and var[st[2]] is SHARED:
            out.append(st[1])
    return sorted(set(out))


# ------------------------------------------------------------------------------------------------
# entry point
# ------------------------------------------------------------------------------------------------
@dataclass
class Extracted:
    stmts: list[tuple]
    nvars: int
    var_abs: list
    fld_abs: dict
    labels: list[str]  # label id -> stable name
    label_sites: dict[str, list[tuple[str, int]]]  # stable name -> [(file, line)]
    label_attr: dict[str, str]
    label_kind: dict[str, str]  # stable name -> 'store' | 'mutate'
    violations: list[str]
    reachable: list[str]
    externals: dict[str, int]
    property_uses: dict[str, list[str]]
    set_iterations: list[str]
    dict_iterations: list[str]
    fields: dict[str, int]
    site_names: list[str]
    var_names: list[str]
    raw_stmt_count: int = 0


def make_translator(pkg: Package, roots: list[str]) -> Translator:
    tr = Translator(pkg, roots)
    # attributes annotated as sets at class level (ClassVar[set[str]] etc.)
    tr.set_attrs = set()
    for ci in pkg.classes.values():
        for st in ci.node.body:
            if isinstance(st, ast.AnnAssign) and isinstance(st.target, ast.Name):
                s = ast.unparse(st.annotation)
                if "set[" in s.lower() or s in ("set", "frozenset"):
                    tr.set_attrs.add(st.target.id)
    return tr


def rebuild_roots(pkg: Package) -> list[str]:
    return sorted(q for q, info in pkg.fns.items() if info.node.name == "rebuild" and info.is_method)


def parse_roots(pkg: Package) -> list[str]:
    return sorted(q for q, info in pkg.fns.items()
                  if info.node.name in ("parse", "parse_file", "parse_to_ast") and info.parent is None
                  and not info.is_method and info.rel == "parser.py")


def analyse(root: Path) -> Extracted:
    pkg = Package(root)
    roots = rebuild_roots(pkg)
    if not roots:
        raise EffectsError("no `rebuild` method found")
    tr = make_translator(pkg, roots)
    tr.run()
    stmts = list(tr.stmts)
    raw = len(stmts)
    stmts, nvars, var_names = simplify(stmts, len(tr.var_names), tr.var_names, keep={tr.primv, tr.anyv})
    # stable label names: ordinal by source position within (function, kind, attr)
    groups: dict[tuple, list] = {}
    for (fkey, kind, attr, pos), lid in tr.labels.items():
        groups.setdefault((fkey, kind, attr), []).append((pos, lid))
    names: dict[int, str] = {}
    for (fkey, kind, attr), items in groups.items():
        for k, (pos, lid) in enumerate(sorted(items)):
            names[lid] = f"{fkey}:{kind} .{attr}#{k}"
    used = sorted({st[1] for st in stmts if st[0] in ("store", "mutate")})
    remap = {lid: i for i, lid in enumerate(used)}
    stmts = [(st[0], remap[st[1]], *st[2:]) if st[0] in ("store", "mutate") else st for st in stmts]
    labels = [names[lid] for lid in used]
    label_sites: dict[str, list] = {}
    label_attr: dict[str, str] = {}
    for lid in used:
        info = tr.label_info[lid]
        label_sites.setdefault(names[lid], []).append((info["file"], info["line"]))
        label_attr[names[lid]] = info["attr"]
    var_abs, fld_abs = infer(stmts, nvars)
    viol = [labels[i] for i in violations(stmts, var_abs, fld_abs)]
    return Extracted(
        stmts=stmts, nvars=nvars, var_abs=var_abs, fld_abs=fld_abs, labels=labels, label_sites=label_sites,
        label_attr=label_attr, label_kind={labels[st[1]]: st[0] for st in stmts if st[0] in ('store', 'mutate')},
        violations=viol, reachable=sorted({q for q, c in tr.ctxs.items() if c.done} | tr.inlined_bases),
        externals=dict(sorted(tr.externals.items())),
        property_uses={k: sorted(v) for k, v in sorted(tr.property_uses.items())},
        set_iterations=tr.set_iterations, dict_iterations=tr.dict_iterations, fields=tr.fields,
        site_names=tr.site_names, var_names=var_names, raw_stmt_count=raw,
    )


def simplify(stmts, nvars, var_names, keep):
    """Copy propagation: a variable whose only definition is `assign x (var y)` is replaced by y.
    Then variables are renumbered densely.  (Pure renaming of SSA temporaries.)"""
    while True:
        defs: dict[int, list] = {}
        for st in stmts:
            if st[0] == "assign":
                defs.setdefault(st[1], []).append(st[2])
        sub: dict[int, int] = {}
        for x, rs in defs.items():
            if x in keep:
                continue
            if len(rs) == 1 and rs[0][0] == "var" and rs[0][1] != x:
                sub[x] = rs[0][1]
        if not sub:
            break

        def res(v):
            seen = set()
            while v in sub and v not in seen:
                seen.add(v)
                v = sub[v]
            return v

        out: dict[tuple, None] = {}
        for st in stmts:
            if st[0] == "assign":
                x, r = st[1], st[2]
                if x in sub:
                    continue
                k = r[0]
                if k == "var":
                    y = res(r[1])
                    if y == x:
                        continue
                    r = ("var", y)
                elif k == "load":
                    r = ("load", res(r[1]), r[2])
                elif k == "alloc":
                    r = ("alloc", r[1], tuple((f, res(y)) for f, y in r[2]))
                elif k == "copy":
                    r = ("copy", r[1], res(r[2]), tuple((f, res(y)) for f, y in r[3]))
                out[("assign", x, r)] = None
            elif st[0] == "store":
                out[("store", st[1], res(st[2]), st[3], res(st[4]))] = None
            else:
                out[("mutate", st[1], res(st[2]), tuple(res(y) for y in st[3]))] = None
        stmts = list(out)
    # drop variables that are never read (their definitions have no effect on any write)
    while True:
        read: set[int] = set(keep)
        for st in stmts:
            if st[0] == "assign":
                r = st[2]
                if r[0] in ("var", "load"):
                    read.add(r[1])
                elif r[0] == "alloc":
                    read.update(y for _, y in r[2])
                elif r[0] == "copy":
                    read.add(r[2])
                    read.update(y for _, y in r[3])
            elif st[0] == "store":
                read.update((st[2], st[4]))
            else:
                read.add(st[2])
                read.update(st[3])
        new = [st for st in stmts if not (st[0] == "assign" and st[1] not in read)]
        if len(new) == len(stmts):
            break
        stmts = new
    used = sorted(read | {st[1] for st in stmts if st[0] == "assign"})
    ren = {v: i for i, v in enumerate(used)}

    def rr(r):
        k = r[0]
        if k == "var":
            return ("var", ren[r[1]])
        if k == "load":
            return ("load", ren[r[1]], r[2])
        if k == "alloc":
            return ("alloc", r[1], tuple((f, ren[y]) for f, y in r[2]))
        if k == "copy":
            return ("copy", r[1], ren[r[2]], tuple((f, ren[y]) for f, y in r[3]))
        return r

    out2 = []
    for st in stmts:
        if st[0] == "assign":
            out2.append(("assign", ren[st[1]], rr(st[2])))
        elif st[0] == "store":
            out2.append(("store", st[1], ren[st[2]], st[3], ren[st[4]]))
        else:
            out2.append(("mutate", st[1], ren[st[2]], tuple(ren[y] for y in st[3])))
    return out2, len(used), [var_names[v] for v in used]


if __name__ == "__main__":
    import sys

    ex = analyse(Path(sys.argv[1] if len(sys.argv) > 1 else "/repo/nix_manipulator"))
    print("raw statements", ex.raw_stmt_count, "-> simplified", len(ex.stmts), "vars", ex.nvars,
          "labels", len(ex.labels), "sites", len(ex.site_names), "fields", len(ex.fields))
    print("reachable functions:", len(ex.reachable))
    print("violations:")
    for v in ex.violations:
        print("  ", v, ex.label_sites[v])
    print("externals:", ex.externals)
    print("property uses:", ex.property_uses)
    print("set iterations:", ex.set_iterations)
    print("dict iterations:", ex.dict_iterations)
