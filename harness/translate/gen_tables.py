"""Gen/Tables.lean: escape chain, identifier class, keyword set (used by C12, C13)."""
from __future__ import annotations

import ast
import re

from .translate import (ExtractError, Result, const_str, find_function, lean_char, lean_text, parse_file,
                        run_table)

# ------------------------------------------------------------------ escape table
def _cmp_char(test, var_names=("ch", "c", "char")):
    """`ch == "<c>"` -> c"""
    if (
        isinstance(test, ast.Compare)
        and len(test.ops) == 1
        and isinstance(test.ops[0], ast.Eq)
        and isinstance(test.left, ast.Name)
        and const_str(test.comparators[0]) is not None
    ):
        return const_str(test.comparators[0])
    return None


def _appended_const(body) -> str | None:
    for st in body:
        if (
            isinstance(st, ast.Expr)
            and isinstance(st.value, ast.Call)
            and isinstance(st.value.func, ast.Attribute)
            and st.value.func.attr == "append"
            and st.value.args
            and const_str(st.value.args[0]) is not None
        ):
            return const_str(st.value.args[0])
    return None


def extract_escape() -> dict:
    """The `if ch == <lit>: escaped.append(<lit>)` chain of the string escaper.

    Found by role: the function `_format_attr_name` calls with `escape_interpolation=True`
    (falls back to the name `_escape_nix_string`)."""
    manip = parse_file("cli/manipulations.py")
    fname = None
    try:
        fmt = find_function(manip, "_format_attr_name")
        for node in ast.walk(fmt):
            if isinstance(node, ast.Call) and isinstance(node.func, ast.Name):
                if any(kw.arg == "escape_interpolation" for kw in node.keywords):
                    fname = node.func.id
    except ExtractError:
        pass
    fname = fname or "_escape_nix_string"
    prim = parse_file("expressions/primitive.py")
    fn = find_function(prim, fname)
    loops = [n for n in ast.walk(fn) if isinstance(n, (ast.While, ast.For))]
    if len(loops) != 1:
        raise ExtractError(f"{fname}: expected one loop, found {len(loops)}")
    chain = [st for st in loops[0].body if isinstance(st, ast.If)]
    if len(chain) != 1:
        raise ExtractError(f"{fname}: expected one if-chain in the loop, found {len(chain)}")
    table: list[tuple[str, str]] = []
    interp: str | None = None
    interp_flag = False
    node = chain[0]
    while True:
        c = _cmp_char(node.test)
        if c is not None:
            rep = _appended_const(node.body)
            if rep is None or len(c) != 1:
                raise ExtractError(f"{fname}: branch for {c!r} does not append a constant")
            table.append((c, rep))
        elif isinstance(node.test, ast.BoolOp) and isinstance(node.test.op, ast.And):
            parts = node.test.values
            chars = [_cmp_char(p) for p in parts if _cmp_char(p) is not None]
            nexts = [
                const_str(p.comparators[0])
                for p in parts
                if isinstance(p, ast.Compare)
                and isinstance(p.left, ast.Subscript)
                and const_str(p.comparators[0]) is not None
            ]
            flags = [p.id for p in parts if isinstance(p, ast.Name)]
            bounds = [p for p in parts if isinstance(p, ast.Compare) and isinstance(p.ops[0], ast.Lt)]
            rep = _appended_const(node.body)
            skips = [
                st
                for st in node.body
                if isinstance(st, ast.AugAssign) and isinstance(st.value, ast.Constant) and st.value.value == 2
            ]
            if chars == ["$"] and nexts == ["{"] and rep is not None and skips and bounds:
                interp = rep
                interp_flag = "escape_interpolation" in flags
            else:
                raise ExtractError(f"{fname}: unrecognised compound branch")
        else:
            raise ExtractError(f"{fname}: unrecognised branch test {ast.dump(node.test)[:80]}")
        if len(node.orelse) == 1 and isinstance(node.orelse[0], ast.If):
            node = node.orelse[0]
            continue
        # final else must append the character itself
        ok = any(
            isinstance(st, ast.Expr)
            and isinstance(st.value, ast.Call)
            and isinstance(st.value.func, ast.Attribute)
            and st.value.func.attr == "append"
            and isinstance(st.value.args[0], ast.Name)
            for st in node.orelse
        )
        if not ok:
            raise ExtractError(f"{fname}: final else does not append the character")
        break
    if interp is None or not interp_flag:
        raise ExtractError(f"{fname}: no flag-guarded `${{` branch")
    return {"table": table, "interp": interp}


# ------------------------------------------------------------------ identifier regex
def _parse_class(body: str) -> list[tuple[int, int]]:
    """`A-Za-z_'` -> sorted merged code point ranges"""
    rs = []
    i = 0
    while i < len(body):
        c = body[i]
        if c == "\\":
            i += 1
            c = body[i]
        if i + 2 < len(body) and body[i + 1] == "-":
            rs.append((ord(c), ord(body[i + 2])))
            i += 3
        else:
            rs.append((ord(c), ord(c)))
            i += 1
    rs.sort()
    merged: list[tuple[int, int]] = []
    for a, b in rs:
        if merged and a <= merged[-1][1] + 1:
            merged[-1] = (merged[-1][0], max(merged[-1][1], b))
        else:
            merged.append((a, b))
    return merged


def extract_ident_re() -> dict:
    """The module-level `re.compile` in manipulations.py whose pattern is `^[C1][C2]*<anchor>`."""
    manip = parse_file("cli/manipulations.py")
    pats = []
    for node in manip.body:
        if isinstance(node, ast.Assign) and isinstance(node.value, ast.Call):
            f = node.value.func
            if isinstance(f, ast.Attribute) and f.attr == "compile" and node.value.args:
                p = const_str(node.value.args[0])
                if p is not None:
                    pats.append(p)
    for p in pats:
        m = re.fullmatch(r"\^?\[((?:[^\]\\]|\\.)+)\]\[((?:[^\]\\]|\\.)+)\]\*(\$|\\Z|)", p)
        if m:
            anchor = m.group(3)
            # how is it applied? .match with `$` => dollar semantics; .fullmatch => strict
            uses_full = False
            for node in ast.walk(manip):
                if isinstance(node, ast.Attribute) and node.attr == "fullmatch":
                    uses_full = True
            dollar = anchor == "$" and not uses_full
            if anchor == "" and not uses_full:
                raise ExtractError("identifier regex has no end anchor")
            return {
                "pattern": p,
                "start": _parse_class(m.group(1)),
                "rest": _parse_class(m.group(2)),
                "dollar": dollar,
            }
    raise ExtractError(f"no identifier-class regex of the shape ^[..][..]*$ among {pats!r}")


def extract_keywords() -> list[str]:
    """The set of reserved words `_format_attr_name` consults (`<name> in <SET>`)."""
    manip = parse_file("cli/manipulations.py")
    fmt = find_function(manip, "_format_attr_name")
    set_name = None
    for node in ast.walk(fmt):
        if isinstance(node, ast.Compare) and len(node.ops) == 1 and isinstance(node.ops[0], ast.In):
            if isinstance(node.comparators[0], ast.Name):
                set_name = node.comparators[0].id
            elif isinstance(node.comparators[0], (ast.Set, ast.Tuple, ast.List)):
                return sorted(const_str(e) for e in node.comparators[0].elts)
    if set_name is None:
        return []  # no keyword check in the source
    for node in manip.body:
        if isinstance(node, ast.Assign) and any(
            isinstance(t, ast.Name) and t.id == set_name for t in node.targets
        ):
            v = node.value
            if isinstance(v, ast.Call) and v.args:
                v = v.args[0]
            if isinstance(v, (ast.Set, ast.Tuple, ast.List)):
                vals = [const_str(e) for e in v.elts]
                if all(x is not None for x in vals):
                    return sorted(vals)
    raise ExtractError(f"cannot read the keyword set {set_name}")


def extract_name_re() -> dict:
    """The identifier class `_decode_attr_name` (expressions/binding.py) accepts as a bare name:
    the module-level `re.compile` named in its `<RE>.match(token)` test, pattern `[C1][C2]*\\Z`."""
    mod = parse_file("expressions/binding.py")
    fn = find_function(mod, "_decode_attr_name")
    re_name = None
    for node in ast.walk(fn):
        if isinstance(node, ast.Call) and isinstance(node.func, ast.Attribute) and node.func.attr in ("match", "fullmatch") \
                and isinstance(node.func.value, ast.Name):
            re_name = (node.func.value.id, node.func.attr)
    if re_name is None:
        raise ExtractError("_decode_attr_name applies no module-level regex")
    for node in mod.body:
        if isinstance(node, ast.Assign) and any(isinstance(t, ast.Name) and t.id == re_name[0] for t in node.targets) \
                and isinstance(node.value, ast.Call) and node.value.args:
            p = const_str(node.value.args[0])
            m = re.fullmatch(r"\^?\[((?:[^\]\\]|\\.)+)\]\[((?:[^\]\\]|\\.)+)\]\*(\$|\\Z|)", p or "")
            if not m:
                raise ExtractError(f"{re_name[0]} = {p!r} is not of the shape [..][..]*\\Z")
            if not (m.group(3) == "\\Z" or re_name[1] == "fullmatch"):
                raise ExtractError(f"{re_name[0]} = {p!r} is applied with .{re_name[1]} and is not anchored by \\Z")
            return {"start": _parse_class(m.group(1)), "rest": _parse_class(m.group(2))}
    raise ExtractError(f"no module-level definition of {re_name[0]}")


def extract_name_escapes() -> list[tuple[str, str]]:
    """The escape dictionary `_decode_attr_name` consults (`<DICT>.get(following, following)`)."""
    mod = parse_file("expressions/binding.py")
    fn = find_function(mod, "_decode_attr_name")
    dict_name = None
    for node in ast.walk(fn):
        if isinstance(node, ast.Call) and isinstance(node.func, ast.Attribute) and node.func.attr == "get" \
                and isinstance(node.func.value, ast.Name) and len(node.args) == 2:
            dict_name = node.func.value.id
    if dict_name is None:
        raise ExtractError("_decode_attr_name has no <dict>.get(x, x)")
    for node in mod.body:
        if isinstance(node, ast.Assign) and any(isinstance(t, ast.Name) and t.id == dict_name for t in node.targets) \
                and isinstance(node.value, ast.Dict):
            ks = [const_str(k) for k in node.value.keys]
            vs = [const_str(v) for v in node.value.values]
            if any(x is None or len(x) != 1 for x in ks + vs):
                raise ExtractError(f"{dict_name} is not a char-to-char dictionary")
            return list(zip(ks, vs))
    raise ExtractError(f"no module-level dictionary {dict_name}")


# ------------------------------------------------------------------ driver
def emit(res: Result) -> dict[str, str]:
    out = [
        "/- GENERATED by harness/translate/translate.py from /repo on every run. Do not edit. -/",
        "namespace Nima.Gen",
        "",
    ]

    def table(name, fn):
        return run_table(res, name, fn)

    esc = table("escape", extract_escape)
    if esc is None:
        out += ["def escapeTable : Option (List (Char × List Char)) := none",
                "def interpEscape : Option (List Char) := none"]
    else:
        rows = ", ".join(f"({lean_char(c)}, {lean_text(r)})" for c, r in esc["table"])
        out += [f"def escapeTable : Option (List (Char × List Char)) := some [{rows}]",
                f"def interpEscape : Option (List Char) := some {lean_text(esc['interp'])}"]
    ident = table("ident_re", extract_ident_re)
    if ident is None:
        out += ["def identStartRanges : Option (List (Nat × Nat)) := none",
                "def identRestRanges : Option (List (Nat × Nat)) := none",
                "def identDollarAnchor : Option Bool := none"]
    else:
        fmt = lambda rs: "[" + ", ".join(f"({a}, {b})" for a, b in rs) + "]"
        out += [f"def identStartRanges : Option (List (Nat × Nat)) := some {fmt(ident['start'])}",
                f"def identRestRanges : Option (List (Nat × Nat)) := some {fmt(ident['rest'])}",
                f"def identDollarAnchor : Option Bool := some {'true' if ident['dollar'] else 'false'}"]
    kws = table("keywords", extract_keywords)
    if kws is None:
        out += ["def npKeywords : Option (List (List Char)) := none"]
    else:
        out += ["def npKeywords : Option (List (List Char)) := some [" + ", ".join(lean_text(k) for k in kws) + "]"]
    nre = table("name_re", extract_name_re)
    if nre is None:
        out += ["def nameStartRanges : Option (List (Nat × Nat)) := none",
                "def nameRestRanges : Option (List (Nat × Nat)) := none"]
    else:
        fmt = lambda rs: "[" + ", ".join(f"({a}, {b})" for a, b in rs) + "]"
        out += [f"def nameStartRanges : Option (List (Nat × Nat)) := some {fmt(nre['start'])}",
                f"def nameRestRanges : Option (List (Nat × Nat)) := some {fmt(nre['rest'])}"]
    nesc = table("name_escapes", extract_name_escapes)
    if nesc is None:
        out += ["def nameEscapes : Option (List (Char × Char)) := none"]
    else:
        out += ["def nameEscapes : Option (List (Char × Char)) := some ["
                + ", ".join(f"({lean_char(a)}, {lean_char(b)})" for a, b in nesc) + "]"]
    out += ["", "end Nima.Gen", ""]
    return {"Tables.lean": "\n".join(out)}


