import NimaVerif.Lemmas.Trivia
import NimaVerif.Lemmas.FragParse
import NimaVerif.Lemmas.FragSafe
/-!
# C01 — a comment never absorbs code (trivia algebra)

Theorems about `Model/Trivia.lean` (the transliteration of `expressions/trivia.py`, `comment.py`):
whatever `format_trivia` emits is empty or closed by a line break, every comment it emits is
directly followed by a line break, and `apply_trailing_trivia` leaves a comment open at the end of
its output in exactly one decidable situation — the obligation the construct renderers inherit.
All statements are over every trivia list, comment, text and indentation. SPEC notions are in
`Model/TriviaSpec.lean`. The per-construct renderers are observed by the harness, not modelled.
-/
namespace Nima.C01

/-! ## `format_trivia` closes every comment -/

/-- The output of `format_trivia` on a comma-free list is empty or ends with a line break: code
    written after it starts on a fresh line. -/
theorem formatTrivia_newline_terminated (ts : List Trivia) (i : Nat) (h : CommaFree ts) :
    formatTrivia ts i = [] ∨ endsWithNL (formatTrivia ts i) = true :=
  formatTrivia_nil_or_nl ts i h

/-- The same for EVERY trivia list, `,` sentinels of formals included (there the output is not a
    flatMap: a sentinel looks at its successor and at what was written before). -/
theorem formatTrivia_newline_terminated_all (ts : List Trivia) (i : Nat) :
    formatTrivia ts i = [] ∨ endsWithNL (formatTrivia ts i) = true :=
  formatTrivia_nil_or_nl_all ts i

/-- It is empty exactly when the list consists of line-break markers only. -/
theorem formatTrivia_empty_iff (ts : List Trivia) (i : Nat) (h : CommaFree ts) :
    formatTrivia ts i = [] ↔ ts.all (· == .linebreak) = true :=
  formatTrivia_eq_nil_iff ts i h

/-- Every comment token `format_trivia` writes is immediately followed by a line break: in the piece
    decomposition of the output, whatever follows a comment piece starts with the piece `"\n"`. -/
theorem formatTrivia_comment_closed (ts : List Trivia) (i : Nat) (h : CommaFree ts) :
    formatTrivia ts i = piecesText (triviaPieces i ts) ∧
    ∀ (pre : List Piece) (tok : Text) (post : List Piece),
      triviaPieces i ts = pre ++ .cmt tok :: post → ∃ post', post = .ws ['\n'] :: post' := by
  refine ⟨?_, ?_⟩
  · rw [formatTrivia_eq_flatMap ts i h, piecesText_triviaPieces]
  · intro pre tok post he
    exact cmtClosed_spec pre.length pre _ tok post (Nat.le_refl _) (cmtClosed_triviaPieces i ts) he

/-- A comment never ends in a line break itself and is never empty, so the closing line break is
    the formatter's: line comments whose text has no line break (as tree-sitter delivers them) and
    all block comments. -/
theorem comment_rendering_open (c : Comment) (i : Nat) (h : c.tokenLike = true) :
    c.rebuild i ≠ [] ∧ endsWithNL (c.rebuild i) = false :=
  ⟨rebuild_ne_nil c i h, rebuild_not_endsWithNL c i h⟩

/-! ## `apply_trailing_trivia`: exact output and the obligation it leaves -/

/-- The already rendered text is only ever extended, never inspected or trimmed. -/
theorem trailing_extends (rebuilt : Text) (after : List Trivia) (i : Nat) :
    applyTrailingTrivia rebuilt after i = rebuilt ++ applyTrailingTrivia [] after i :=
  applyTrailingTrivia_prefix rebuilt after i

/-- Exact output when the last item is a comment `c`: the trailing block ends with the rendering of
    `c` and nothing after it (the line break `format_trivia` put there is trimmed). An inline head
    comment stays on the line after one space; everything else starts on a new line. -/
theorem trailing_last_is_comment (rebuilt : Text) (init : List Trivia) (c : Comment) (i : Nat)
    (h : CommaFree init) (hc : c.tokenLike = true) :
    applyTrailingTrivia rebuilt (init ++ [.comment c]) i =
      match headInline (init ++ [.comment c]) with
      | some (c0, _) =>
        if init.isEmpty then rebuilt ++ ' ' :: c.rebuild 0
        else rebuilt ++ ' ' :: c0.rebuild 0 ++ '\n' :: formatTrivia init.tail i ++ c.rebuild i
      | none => rebuilt ++ '\n' :: formatTrivia init i ++ c.rebuild i :=
  trailing_last_comment rebuilt init c i h hc

/-- Exact output when the last item is a layout marker: nothing is trimmed. -/
theorem trailing_last_is_layout (rebuilt : Text) (init : List Trivia) (t : Trivia)
    (ht : t.isLayout = true) (i : Nat) :
    applyTrailingTrivia rebuilt (init ++ [t]) i =
      match headInline (init ++ [t]) with
      | some (c0, rest) => rebuilt ++ ' ' :: c0.rebuild 0 ++ nlBlock (formatTrivia rest i)
      | none => rebuilt ++ nlBlock (formatTrivia (init ++ [t]) i) :=
  trailing_last_layout rebuilt init t ht i

/-- THE OBLIGATION. The text `apply_trailing_trivia` appends is non-empty and not closed by a line
    break — i.e. the output ends inside a comment line — exactly when `leavesOpenComment after`:
    the last item of `after` is a comment, or `after` is an inline comment followed by line-break
    markers only. This is the precise, decidable condition under which a construct renderer must
    emit a line break before writing more code. -/
theorem trailing_open_comment_iff (after : List Trivia) (i : Nat) (h : CommaFree after)
    (hc : TokenLikeTrivia after) :
    (applyTrailingTrivia [] after i ≠ [] ∧ endsWithNL (applyTrailingTrivia [] after i) = false) ↔
      leavesOpenComment after = true :=
  trailing_open_iff after i h (fun c hm => hc (.comment c) hm)

/-- In that situation the appended text ends with the rendering of a comment of `after`. -/
theorem trailing_open_ends_with_comment (after : List Trivia) (i : Nat) (h : CommaFree after)
    (hc : TokenLikeTrivia after) (ho : leavesOpenComment after = true) :
    ∃ c pre, Trivia.comment c ∈ after ∧ applyTrailingTrivia [] after i = pre ++ c.rebuild i :=
  trailing_open_suffix after i h (fun c hm => hc (.comment c) hm) ho

/-- Otherwise the appended text is empty or closed by a line break: code may follow directly. -/
theorem trailing_closed_otherwise (after : List Trivia) (i : Nat) (h : CommaFree after)
    (hc : TokenLikeTrivia after) (ho : leavesOpenComment after = false) :
    applyTrailingTrivia [] after i = [] ∨ endsWithNL (applyTrailingTrivia [] after i) = true := by
  have hiff := trailing_open_iff after i h (fun c hm => hc (.comment c) hm)
  by_cases h0 : applyTrailingTrivia [] after i = []
  · exact Or.inl h0
  · right
    cases he : endsWithNL (applyTrailingTrivia [] after i) with
    | true => rfl
    | false => rw [hiff.mp ⟨h0, he⟩] at ho; simp at ho

/-- "Appending code directly after the trailing trivia never puts it inside a line comment" is
    therefore false as a statement about `apply_trailing_trivia` alone: -/
def trailing_always_closed_full : Prop :=
  ∀ (after : List Trivia) (i : Nat), CommaFree after → TokenLikeTrivia after →
    applyTrailingTrivia [] after i = [] ∨ endsWithNL (applyTrailingTrivia [] after i) = true

/-- witness: one own-line comment after an item; the caller has to close it. (The defect
    `a\n++ b ++ # c\nc` → `… ++ # c c` of DESIGN §12 lives in a construct renderer that does not honour
    this obligation; the trivia algebra itself is not at fault.) -/
theorem cex_trailing_comment_left_open : ¬ trailing_always_closed_full := by
  intro h
  have := h [.comment { text := ['c'] }] 0 (by decide) (by decide)
  revert this; decide

/-! ## Examples (non-vacuity) -/

/-- a trivia list with a blank line, an inline comment and a block comment -/
def sampleTrivia : List Trivia :=
  [.emptyLine, .comment { text := "c".toList, inline := true }, .linebreak,
   .comment { text := "a\nb".toList, kind := .block false (some 3) }]

example : CommaFree sampleTrivia ∧ TokenLikeTrivia sampleTrivia := by decide
example : formatTrivia sampleTrivia 2 = "\n# c\n  /* a\n     b */\n".toList := by decide
example : formatTrivia [.comma, .comment { text := "c".toList, inline := true }, .linebreak, .comma] 2
    = "  , # c\n  ,\n".toList := by decide
example : leavesOpenComment sampleTrivia = true := by decide
example : applyTrailingTrivia "x = 1;".toList sampleTrivia 2 = "x = 1;\n\n# c\n  /* a\n     b */".toList := by decide
example : applyTrailingTrivia "x = 1;".toList [.comment { text := "c".toList, inline := true }, .linebreak] 2
    = "x = 1; # c".toList := by decide
example : leavesOpenComment [.comment { text := "c".toList, inline := true }, .linebreak] = true := by decide
example : leavesOpenComment [.comment { text := "c".toList }, .emptyLine] = false := by decide
example : applyTrailingTrivia "x".toList [.comment { text := "c".toList }, .emptyLine] 2 = "x\n  # c\n\n".toList := by decide

section Fragment
open Nima.Frag

/-! ## Container fragment (L3–L5): the whole round trip

`Model/Cst.lean` (input: concrete-syntax trees with explicit gaps), `Model/FromCst.lean`
(`NixSourceCode.from_cst`, `AttributeSet.from_cst`, `Binding.from_cst`, `NixList.from_cst`,
`Parenthesis.from_cst`, `FunctionCall.from_cst`, `WithStatement.from_cst`, `Assertion.from_cst`,
`Select.from_cst`, `FunctionDefinition.from_cst`, `UnaryExpression.from_cst`, `BinaryExpression.from_cst`,
`IfExpression.from_cst`, `HasAttrExpression.from_cst`, `parse_delimited_sequence`)
and `Model/Rebuild.lean` (`rebuild` of the same classes, string level and piece level) model the parse
side and the render side for files made of attribute sets with plain single-segment names, lists,
parenthesised expressions `( e )`, function applications `f x` / `f x y`, `with e; body`,
`assert e; body`, selects `e.a.b` / `e.a or d`, lambdas `x: body`, unary `!e` / `-e`, binary operators `a + b` (not `//` / `++` with the operator on a line of its own),
`if c then a else b`, has-attr `e ? a.b` and leaf
values, nested to any depth, with
arbitrary whitespace and line / one-line block comments in every gap (inside parentheses and between
function and argument too; the three gaps of a `with` / `assert` itself — after the keyword and around
its `;` —, the gaps around the `.` / `or` of a select, around the `:` of a lambda, the five gaps of an `if` (around
its condition, `then`, `else`) and the two around the `?` of a has-attr hold whitespace only:
`Cst.wf`). The statements below are about EVERY such tree
(structural induction), tied to the implementation by `fragment_correspondence`. -/

/-- The piece list the theorems speak about is the output text, cut into pieces. -/
theorem frag_output_is_pieces (s : Src) : concat s.rebuildP = s.rebuild := concat_srcRebuildP s

/-- `fromCst` never raises on a well-formed file of the fragment. -/
theorem frag_parse_total (f : File) (hwf : f.wf = true) : ∃ s, f.parse = .ok s := by
  obtain ⟨s, hp, _, _⟩ := file_parse_spec false f hwf (fun h => by cases h)
  exact ⟨s, hp⟩

/-- ROUND TRIP PRESERVES THE CODE-TOKEN SEQUENCE: the token pieces of the rebuilt file are the code
    tokens of the input, in order — for every well-formed file of the fragment that does not start
    with whitespace (the inputs on which the model is the implementation, see `File.noLeadingWs`). -/
theorem frag_tokens_preserved (f : File) (s : Src) (hwf : f.wf = true) (_hws : f.noLeadingWs = true)
    (hp : f.parse = .ok s) : toks s.rebuildP = f.codeTokens := by
  obtain ⟨s', hp', hok, hl⟩ := file_parse_spec false f hwf (fun h => by cases h)
  rw [hp] at hp'; injection hp' with hs; subst hs
  have h1 := (srcRebuildP_lex s hok).1
  show toksL (lexOf s.rebuildP) = toksL f.items.lex
  rw [h1, ← toksL_proj_false, hl, toksL_proj_false, items_toks_lexM]

/-- Token and comment pieces of the output are never empty and never end in a line break: the
    whitespace cuts of the renderer (`rstrip("\n")`, `[:-1]`) only ever remove whitespace it wrote. -/
theorem frag_pieces_solid (f : File) (s : Src) (hwf : f.wf = true) (hp : f.parse = .ok s) :
    ∀ p ∈ s.rebuildP, p.solid := by
  obtain ⟨s', hp', hok, _⟩ := file_parse_spec false f hwf (fun h => by cases h)
  rw [hp] at hp'; injection hp' with hs; subst hs
  exact (srcRebuildP_lex s hok).2


/-- A COMMENT NEVER ABSORBS CODE. In the rebuilt file, whatever is written after a line-comment
    piece (`# …`) is nothing at all or starts with a line break — so the comment token tree-sitter
    reads from the output text ends where the piece ends and no code token is inside it. For every
    well-formed file of the fragment. (`safeGo` is the scan that decides it; it also says that no
    token or comment follows an open line comment directly.) -/
theorem frag_safe (f : File) (s : Src) (hwf : f.wf = true) (_hws : f.noLeadingWs = true) (hp : f.parse = .ok s) :
    safeGo false s.rebuildP = true ∧
    ∀ (pre post : List FP) (c : Text), s.rebuildP = pre ++ .cmt c :: post → isLineTok c = true →
      concat post = [] ∨ startsWithNL (concat post) = true := by
  have h := file_safe f s hwf hp
  exact ⟨h, fun pre post c he hl => safeGo_spec false _ pre post c h he hl⟩

/-- In the model, a name is single-segment when the model's fuel version of the attrpath splitter
    says so; that version is `Model/AttrPath.lean: splitAttrpath` (the transliteration C12 is about). -/
theorem frag_name_check_is_splitter (t : Text) : splitAttrpathF t = splitAttrpath t := splitAttrpathF_eq t

/-! ### Examples (non-vacuity) -/

/-- `# h⏎{ a = 1; # e⏎}⏎` -/
def fragSample : File :=
  { items := .cmt [] "# h".toList (.elem "\n".toList
      (.set false [] (.bind " ".toList "a".toList [] " ".toList [] " ".toList (.leaf .int "1".toList) [] []
        (.cmt " ".toList "# e".toList .nil)) "\n".toList) .nil),
    endGap := "\n".toList }

example : fragSample.flatten = "# h\n{ a = 1; # e\n}\n".toList := by decide
example : fragSample.wf = true ∧ fragSample.noLeadingWs = true := by decide
example : fragSample.roundtrip = .ok "# h\n{\n  a = 1; # e\n}\n".toList := by decide
example : fragSample.codeTokens = ["{", "a", "=", "1", ";", "}"].map String.toList := by decide

/-- `f /* a */ (g # c⏎ x) [ 1 ]`: a curried call whose first argument is a parenthesised call with a
    line comment between function and argument -/
def callSample : File :=
  { items := .elem []
      (.app (.app (.leaf .ident "f".toList) [(" ".toList, "/* a */".toList)] " ".toList
          (.paren (.elem [] (.app (.leaf .ident "g".toList) [(" ".toList, "# c".toList)] "\n ".toList
            (.leaf .ident "x".toList)) .nil) []))
        [] " ".toList (.list (.elem " ".toList (.leaf .int "1".toList) .nil) " ".toList)) .nil,
    endGap := [] }

example : callSample.flatten = "f /* a */ (g # c\n x) [ 1 ]".toList := by decide
example : callSample.wf = true ∧ callSample.noLeadingWs = true := by decide
example : callSample.roundtrip = .ok "f /* a */ (g # c\n x) [ 1 ]".toList := by decide
example : callSample.codeTokens = ["f", "(", "g", "x", ")", "[", "1", "]"].map String.toList := by decide

/-- `{ a = f (⏎⏎    x⏎  ) y; }`: a multi-line parenthesis (blank line after `(`) as an argument -/
def parenSample : File :=
  { items := .elem [] (.set false [] (.bind " ".toList "a".toList [] " ".toList [] " ".toList
      (.app (.app (.leaf .ident "f".toList) [] " ".toList
          (.paren (.elem "\n\n    ".toList (.leaf .ident "x".toList) .nil) "\n  ".toList))
        [] " ".toList (.leaf .ident "y".toList)) [] [] .nil) " ".toList) .nil,
    endGap := [] }

example : parenSample.flatten = "{ a = f (\n\n    x\n  ) y; }".toList := by decide
example : parenSample.wf = true ∧ parenSample.noLeadingWs = true := by decide
example : parenSample.roundtrip = .ok "{\n  a = f (\n\n    x\n  ) y;\n}".toList := by decide

/-- `with a;⏎⏎{ x = with (f b) ; [⏎ c ]; }`: an absorbable body on its own line after a blank line, a
    `with` as a binding value whose body is a multi-line list -/
def withSample : File :=
  { items := .elem []
      (.kw true [] " ".toList (.leaf .ident "a".toList) [] [] [] "\n\n".toList
        (.set false [] (.bind " ".toList "x".toList [] " ".toList [] " ".toList
          (.kw true [] " ".toList (.paren (.elem [] (.app (.leaf .ident "f".toList) [] " ".toList (.leaf .ident "b".toList)) .nil) [])
            [] " ".toList [] " ".toList
            (.list (.elem "\n ".toList (.leaf .ident "c".toList) .nil) " ".toList))
          [] [] .nil) " ".toList)) .nil,
    endGap := [] }

example : withSample.flatten = "with a;\n\n{ x = with (f b) ; [\n c ]; }".toList := by decide
example : withSample.wf = true ∧ withSample.noLeadingWs = true := by decide
example : withSample.codeTokens =
    ["with", "a", ";", "{", "x", "=", "with", "(", "f", "b", ")", ";", "[", "c", "]", ";", "}"].map String.toList := by decide

/-- `assert⏎  (f a);⏎⏎with e; [ b ]`: a condition on its own line, a blank line in front of the body -/
def assertSample : File :=
  { items := .elem []
      (.kw false [] "\n  ".toList
        (.paren (.elem [] (.app (.leaf .ident "f".toList) [] " ".toList (.leaf .ident "a".toList)) .nil) [])
        [] [] [] "\n\n".toList
        (.kw true [] " ".toList (.leaf .ident "e".toList) [] [] [] " ".toList
          (.list (.elem " ".toList (.leaf .ident "b".toList) .nil) " ".toList))) .nil,
    endGap := [] }

example : assertSample.flatten = "assert\n  (f a);\n\nwith e; [ b ]".toList := by decide
example : assertSample.wf = true ∧ assertSample.noLeadingWs = true := by decide
example : assertSample.codeTokens =
    ["assert", "(", "f", "a", ")", ";", "with", "e", ";", "[", "b", "]"].map String.toList := by decide

/-- `f (g x).a.b⏎  ."c d" {}.y`: selects on a parenthesised call and on a set, `.` on its own line -/
def selectSample : File :=
  { items := .elem []
      (.app (.app (.leaf .ident "f".toList) [] " ".toList
          (.sel (.sel (.paren (.elem [] (.app (.leaf .ident "g".toList) [] " ".toList (.leaf .ident "x".toList)) .nil) [])
              [] [] [] ["a".toList, "b".toList]) [] "\n  ".toList [] ["\"c d\"".toList]))
        [] " ".toList (.sel (.set false [] .nil []) [] [] [] ["y".toList])) .nil,
    endGap := [] }

example : selectSample.flatten = "f (g x).a.b\n  .\"c d\" {}.y".toList := by decide
example : selectSample.wf = true ∧ selectSample.noLeadingWs = true := by decide
example : selectSample.codeTokens =
    ["f", "(", "g", "x", ")", ".", "a", ".", "b", ".", "\"c d\"", "{", "}", ".", "y"].map String.toList := by decide
example : selectSample.roundtrip = .ok "f (g x).a.b\n  .\"c d\" { }.y".toList := by decide

/-- `[ a.b or c (f x).y⏎    or { } ]`: selects with defaults as list elements, `or` on its own line -/
def selectOrSample : File :=
  { items := .elem []
      (.list (.elem " ".toList (.selOr (.leaf .ident "a".toList) [] [] [] ["b".toList] [] " ".toList " ".toList
            (.leaf .ident "c".toList))
          (.elem " ".toList (.selOr (.paren (.elem [] (.app (.leaf .ident "f".toList) [] " ".toList (.leaf .ident "x".toList)) .nil) [])
            [] [] [] ["y".toList] [] "\n    ".toList " ".toList (.set false [] .nil " ".toList)) .nil)) " ".toList) .nil,
    endGap := [] }

example : selectOrSample.flatten = "[ a.b or c (f x).y\n    or { } ]".toList := by decide
example : selectOrSample.wf = true ∧ selectOrSample.noLeadingWs = true := by decide
example : selectOrSample.codeTokens =
    ["[", "a", ".", "b", "or", "c", "(", "f", "x", ")", ".", "y", "or", "{", "}", "]"].map String.toList := by decide

/-- `self : super:⏎⏎⏎  { a = x: x.b; }`: curried lambdas, two blank lines in front of the body, a lambda
    as a binding value -/
def lambdaSample : File :=
  { items := .elem []
      (.lam "self".toList [] " ".toList [] " ".toList
        (.lam "super".toList [] [] [] "\n\n\n  ".toList
          (.set false [] (.bind " ".toList "a".toList [] " ".toList [] " ".toList
            (.lam "x".toList [] [] [] " ".toList (.sel (.leaf .ident "x".toList) [] [] [] ["b".toList])) [] [] .nil)
            " ".toList))) .nil,
    endGap := [] }

example : lambdaSample.flatten = "self : super:\n\n\n  { a = x: x.b; }".toList := by decide
example : lambdaSample.wf = true ∧ lambdaSample.noLeadingWs = true := by decide
example : lambdaSample.codeTokens =
    ["self", ":", "super", ":", "{", "a", "=", "x", ":", "x", ".", "b", ";", "}"].map String.toList := by decide
example : lambdaSample.roundtrip = .ok "self: super:\n\n\n{ a = x: x.b; }".toList := by decide

/-- `assert !f x; -⏎  (a.b)`: unary operators over a call and over a parenthesised select -/
def unarySample : File :=
  { items := .elem []
      (.kw false [] " ".toList (.un ['!'] [] [] (.app (.leaf .ident "f".toList) [] " ".toList (.leaf .ident "x".toList)))
        [] [] [] " ".toList
        (.un ['-'] [] "\n  ".toList (.paren (.elem [] (.sel (.leaf .ident "a".toList) [] [] [] ["b".toList]) .nil) []))) .nil,
    endGap := [] }

example : unarySample.flatten = "assert !f x; -\n  (a.b)".toList := by decide
example : unarySample.wf = true ∧ unarySample.noLeadingWs = true := by decide
example : unarySample.codeTokens =
    ["assert", "!", "f", "x", ";", "-", "(", "a", ".", "b", ")"].map String.toList := by decide

/-- `a // b //⏎  { } ++ [ ]⏎  == !c`: operators of several kinds, the right operand / the operator on a new line -/
def binarySample : File :=
  { items := .elem []
      (.bin (.bin (.leaf .ident "a".toList) [] " ".toList "//".toList [] " ".toList
          (.bin (.leaf .ident "b".toList) [] " ".toList "//".toList [] "\n  ".toList
            (.bin (.set false [] .nil " ".toList) [] " ".toList "++".toList [] " ".toList (.list .nil " ".toList))))
        [] "\n  ".toList "==".toList [] " ".toList (.un ['!'] [] [] (.leaf .ident "c".toList))) .nil,
    endGap := [] }

example : binarySample.flatten = "a // b //\n  { } ++ [ ]\n  == !c".toList := by decide
example : binarySample.wf = true ∧ binarySample.noLeadingWs = true := by decide
example : binarySample.codeTokens =
    ["a", "//", "b", "//", "{", "}", "++", "[", "]", "==", "!", "c"].map String.toList := by decide

/-- full statement (false): the text the round trip writes determines the code tokens of the tree it was
    written from — i.e. re-lexing the output gives the tokens back (the theorems above speak about the
    PIECES of the output, not about the lexer's reading of their concatenation) -/
def frag_output_determines_tokens_full : Prop :=
  ∀ (f1 f2 : File), f1.wf = true → f2.wf = true → f1.noLeadingWs = true → f2.noLeadingWs = true →
    f1.roundtrip = f2.roundtrip → f1.codeTokens = f2.codeTokens

/-- `- ./p.nix` -/
def minusPathFile : File :=
  { items := .elem [] (.un "-".toList [] " ".toList (.leaf .path "./p.nix".toList)) .nil, endGap := "\n".toList }
/-- `-./p.nix`: one path token -/
def fusedPathFile : File :=
  { items := .elem [] (.leaf .path "-./p.nix".toList) .nil, endGap := "\n".toList }

/-- NEW FINDING `C01-fragment-unary-minus-path-fused`: `UnaryExpression.rebuild` (expressions/unary.py) writes
    the operator directly in front of an operand that follows it on the same line; for `-` in front of a
    path literal that does not start with `<` the two tokens `-`, `./p.nix` become the ONE path token
    `-./p.nix` (`- ./p.nix` -> `-./p.nix`; Nix's path syntax allows `-` in a path component): the
    unary minus disappears from the program. The pieces of the output are still `-` and `./p.nix`
    (`frag_tokens_preserved`), but two different trees of the fragment are written as the same text.
    Decidable exclusion where the output is re-read: `Cst.fusesMinus` in `Cst.cf` (C06). -/
theorem cex_unary_minus_path_fused : ¬ frag_output_determines_tokens_full := by
  intro h
  have := h minusPathFile fusedPathFile (by decide) (by decide) (by decide) (by decide) (by decide)
  revert this; decide

example : minusPathFile.flatten = "- ./p.nix\n".toList := by decide
example : minusPathFile.roundtrip = .ok "-./p.nix\n".toList := by decide
example : fusedPathFile.roundtrip = .ok "-./p.nix\n".toList := by decide
example : minusPathFile.items.cf = false ∧ fusedPathFile.items.cf = true := by decide

/-- `if a ? b.c then⏎  [ x ]⏎else { }`: `if` with a has-attr condition, the consequence on its own line -/
def ifSample : File :=
  { items := .elem []
      (.ite [] " ".toList (.has (.leaf .ident "a".toList) [] " ".toList [] " ".toList ["b".toList, "c".toList])
        [] " ".toList [] "\n  ".toList (.list (.elem " ".toList (.leaf .ident "x".toList) .nil) " ".toList)
        [] "\n".toList [] " ".toList (.set false [] .nil " ".toList)) .nil,
    endGap := [] }

example : ifSample.flatten = "if a ? b.c then\n  [ x ]\nelse { }".toList := by decide
example : ifSample.wf = true ∧ ifSample.noLeadingWs = true := by decide
example : ifSample.codeTokens =
    ["if", "a", "?", "b", ".", "c", "then", "[", "x", "]", "else", "{", "}"].map String.toList := by decide
example : ifSample.roundtrip = .ok "if a ? b.c then\n  [ x ]\nelse { }".toList := by decide

end Fragment

end Nima.C01
