import NimaVerif.Lemmas.Trivia
import NimaVerif.Lemmas.FragParse
/-!
# C03 — comments survive exactly once, in order, in place (trivia algebra)

Theorems about `Model/Trivia.lean` (the transliteration of `expressions/trivia.py`, `comment.py`):
the trivia formatters emit every comment of their list exactly once and in order, and the text
normalisation `Comment.from_cst` / `rebuild` is a projection (normalising twice = once), for every
trivia list, every comment token text, every column and indentation. SPEC notions are in
`Model/TriviaSpec.lean`. The per-construct renderers are observed by the harness, not modelled.
-/
namespace Nima.C03

/-! ## `format_trivia`: each item rendered once, in order, independently of its siblings -/

/-- For comma-free lists `format_trivia` is a `flatMap`: a blank-line marker is a line break, a
    line-break marker is nothing, a comment is its rendering followed by a line break. -/
theorem formatTrivia_flatMap (ts : List Trivia) (i : Nat) (h : CommaFree ts) :
    formatTrivia ts i = ts.flatMap (itemText i) :=
  formatTrivia_eq_flatMap ts i h

/-- congruence: rendering distributes over concatenation of lists -/
theorem formatTrivia_append (a b : List Trivia) (i : Nat) (h : CommaFree (a ++ b)) :
    formatTrivia (a ++ b) i = formatTrivia a i ++ formatTrivia b i :=
  Nima.formatTrivia_append a b i h

/-- The output is the concatenation of white-space pieces and comment tokens in which the comment
    tokens are exactly the comments of the list — each once, in order. -/
theorem formatTrivia_comments_once_in_order (ts : List Trivia) (i : Nat) (h : CommaFree ts) :
    formatTrivia ts i = piecesText (triviaPieces i ts) ∧
    (triviaPieces i ts).filterMap Piece.cmt? = commentTokens i ts := by
  refine ⟨?_, filterMap_cmt_triviaPieces i ts h⟩
  rw [formatTrivia_eq_flatMap ts i h, piecesText_triviaPieces]

/-- A comment's rendering is an indentation run followed by its token; inline-flagged comments
    ignore the requested indentation. -/
theorem rebuild_is_indent_token (c : Comment) (i : Nat) :
    c.rebuild i = spaces (c.effIndent i) ++ c.token (c.effIndent i) :=
  rebuild_eq_token c i

/-! ## `format_interstitial_trivia`: not a flatMap, but the same comments once and in order -/

/-- `format_interstitial_trivia` looks at what it has rendered so far (only: is it empty, what is
    its last character). Its output is the concatenation of the pieces `interPieces`, whose comment
    tokens are exactly the comments of the list, each once, in order; the white space before an
    item is `interGlue`. -/
theorem interstitial_comments_once_in_order (items : List Trivia) (i : Nat) (inlineNL : Bool) :
    formatInterstitialTrivia items i inlineNL = piecesText (interPieces i inlineNL items []) ∧
    (interPieces i inlineNL items []).filterMap Piece.cmt? = commentTokens i items := by
  refine ⟨?_, interPieces_comments i inlineNL items []⟩
  rw [formatInterstitialTrivia, interGo_pieces]; rfl

/-- One step of the loop, exactly. -/
theorem interstitial_step (i : Nat) (nl : Bool) (t : Trivia) (rest : List Trivia) (acc : Text) :
    formatInterstitialGo i nl (t :: rest) acc =
      formatInterstitialGo i nl rest (acc ++ piecesText (interItemPieces i nl acc t)) :=
  interGo_step i nl t rest acc

/-- The dependence on the already rendered text is only through its last character: a non-empty
    rendered prefix can be split off at any point. -/
theorem interstitial_prefix_congr (i : Nat) (nl : Bool) (ts : List Trivia) (a b : Text) (hb : b ≠ []) :
    formatInterstitialGo i nl ts (a ++ b) = a ++ formatInterstitialGo i nl ts b :=
  interGo_append i nl ts a b hb

/-- At a line start and without inline-flagged comments the interstitial renderer coincides with the
    flatMap form of `format_trivia`. -/
theorem interstitial_at_line_start (i : Nat) (nl : Bool) (ts : List Trivia) (acc : Text)
    (h : CommaFree ts) (hin : ∀ t ∈ ts, t.isInlineComment = false) (hacc : endsWithNL acc = true) :
    formatInterstitialGo i nl ts acc = acc ++ formatTrivia ts i := by
  rw [formatTrivia_eq_flatMap ts i h]; exact interGo_at_line_start i nl ts acc h hin hacc

/-! ## Comment text round trip: line comments -/

/-- A line-comment token `#r` (no line break in `r`) is reproduced character for character, with
    one exception: `# ` (hash, one space, nothing else) loses its trailing space. -/
theorem line_comment_roundtrip (col : Nat) (r : Text) (hnl : containsNL r = false) :
    (Comment.fromText col ('#' :: r)).str = if r = [' '] then ['#'] else '#' :: r :=
  line_comment_str col r hnl

/-- the exact exception set of the round trip -/
theorem line_comment_roundtrip_iff (col : Nat) (r : Text) (hnl : containsNL r = false) :
    (Comment.fromText col ('#' :: r)).str = '#' :: r ↔ r ≠ [' '] := by
  rw [line_comment_str col r hnl]
  by_cases h : r = [' ']
  · subst h; simp
  · simp [h]

/-- full statement (false): every line comment token is reproduced -/
def line_comment_roundtrip_full : Prop :=
  ∀ (col : Nat) (r : Text), containsNL r = false → (Comment.fromText col ('#' :: r)).str = '#' :: r

/-- `# ` is rewritten to `#`: the only line comment whose text changes (trailing white space). -/
theorem cex_hash_space : ¬ line_comment_roundtrip_full := by
  intro h
  have := h 0 [' '] rfl
  revert this; decide

theorem shebang_roundtrip (col : Nat) (r : Text) :
    (Comment.fromText col ('#' :: '!' :: r)).str = '#' :: '!' :: r := by
  rw [fromText_shebang]; simp [Comment.str]

/-- The rendering of a line comment at indentation `i` is `i` spaces and the (normalised) token. -/
theorem line_comment_rebuild (col i : Nat) (r : Text) (hnl : containsNL r = false) :
    (Comment.fromText col ('#' :: r)).rebuild i = spaces i ++ (if r = [' '] then ['#'] else '#' :: r) :=
  Nima.line_comment_rebuild col i r hnl

/-! ## Normalisation is idempotent -/

/-- Line comments: reading back the rendered token gives the same `Comment` (structurally), at any
    columns, except for `# ` whose `space_after_hash` flag flips once (see `cex_hash_space_flag`);
    the rendered text is stable in every case (`line_comment_text_idem`). -/
theorem line_comment_idem (c1 c2 : Nat) (r : Text) (hnl : containsNL r = false) (h : r ≠ [' ']) :
    Comment.fromText c2 ((Comment.fromText c1 ('#' :: r)).rebuild 0) = Comment.fromText c1 ('#' :: r) := by
  rw [Nima.line_comment_rebuild c1 0 r hnl, if_neg h]
  exact fromText_hash_col c2 c1 r

def line_comment_idem_full : Prop :=
  ∀ (c1 c2 : Nat) (r : Text), containsNL r = false →
    Comment.fromText c2 ((Comment.fromText c1 ('#' :: r)).rebuild 0) = Comment.fromText c1 ('#' :: r)

theorem cex_hash_space_flag : ¬ line_comment_idem_full := by
  intro h
  have := h 0 0 [' '] rfl
  revert this; decide

/-- text-level idempotence for every line comment, `# ` included -/
theorem line_comment_text_idem (c1 c2 i j : Nat) (r : Text) (hnl : containsNL r = false) :
    (Comment.fromText c2 (((Comment.fromText c1 ('#' :: r)).rebuild i).drop i)).rebuild j
      = (Comment.fromText c1 ('#' :: r)).rebuild j := by
  rw [Nima.line_comment_rebuild c1 i r hnl]
  have hd : (spaces i ++ (if r = [' '] then ['#'] else '#' :: r)).drop i = (if r = [' '] then ['#'] else '#' :: r) := by
    rw [List.drop_left' (by simp)]
  rw [hd]
  by_cases h : r = [' ']
  · subst h
    simp only [if_true]
    rw [Nima.line_comment_rebuild c2 j [] rfl, Nima.line_comment_rebuild c1 j [' '] rfl]; simp
  · simp only [h, if_false]
    rw [fromText_hash_col c2 c1 r]

/-- `str.strip()` is idempotent (for Python's `isspace` class). -/
theorem strip_idempotent (s : Text) : strip (strip s) = strip s := strip_idem s

/-- Block comments (`/* … */`, `/** … */`, single-line and multi-line, any inner indentation, any
    text whatsoever after `/*`): the token the renderer writes at column `i` is read back at column
    `i` as the same `Comment`. So normalisation is a projection on block comments. -/
theorem block_comment_idem (c1 i : Nat) (t : Text) (h : startsWith ['/', '*'] t = true) :
    Comment.fromText i ((Comment.fromText c1 t).token i) = Comment.fromText c1 t :=
  block_token_fixed c1 i t h

/-- the same in terms of `rebuild`: the rendering is `i` spaces followed by that token -/
theorem block_comment_rebuild_idem (c1 i : Nat) (t : Text) (h : startsWith ['/', '*'] t = true) :
    (Comment.fromText c1 t).rebuild i = spaces i ++ (Comment.fromText c1 t).token i ∧
    Comment.fromText i (((Comment.fromText c1 t).rebuild i).drop i) = Comment.fromText c1 t := by
  have hin : (Comment.fromText c1 t).inline = false := by
    rw [fromText_block c1 t h]; split <;> rfl
  have hr : (Comment.fromText c1 t).rebuild i = spaces i ++ (Comment.fromText c1 t).token i := by
    rw [rebuild_eq_token]; simp [Comment.effIndent, hin]
  refine ⟨hr, ?_⟩
  rw [hr, List.drop_left' (by simp)]
  exact block_token_fixed c1 i t h

/-- For single-line block comments the column does not matter at all. -/
theorem single_line_block_idem (c1 c2 i : Nat) (t : Text) (h : startsWith ['/', '*'] t = true)
    (hs : containsNL (blockInner t) = false) :
    Comment.fromText c2 ((Comment.fromText c1 t).token i) = Comment.fromText c1 t := by
  rw [fromText_block c1 t h]
  simp only [hs, Bool.false_eq_true, if_false]
  have hx : containsNL (strip (blockInner t)) = false := containsNL_of_sublist (stripBy_sublist _ _) hs
  have htok : ({ text := strip (blockInner t), kind := .block (blockDoc t) none } : Comment).token i =
      blockOpening (blockDoc t) ++ [' '] ++ strip (blockInner t) ++ [' ', '*', '/'] := by
    simp [Comment.token, hx, blockOpening]
  rw [htok]
  exact fromText_single_block c2 (blockDoc t) _ (stripBy_stripped _ _) hx

/-- Full statement with unrelated columns (false): a multi-line block comment rendered at
    indentation 0 but read at another column. This is the situation of an *inline* multi-line block
    comment (`rebuild` forces indentation 0 for inline comments, the token sits after code). -/
def block_idem_any_column_full : Prop :=
  ∀ (c1 c2 : Nat) (t : Text), startsWith ['/', '*'] t = true →
    Comment.fromText c2 ((Comment.fromText c1 t).rebuild 0) = Comment.fromText c1 t

theorem cex_block_idem_column_mismatch : ¬ block_idem_any_column_full := by
  intro h
  have := h 0 1 "/*\n a*/".toList rfl
  revert this; decide

/-- The empty block comment `/**/` is read as a doc comment whose text is `/` and comes back as
    `/** / */`: its text changes (the `/**` test precedes the `*/` test in `from_cst`). -/
theorem cex_empty_block_comment :
    (Comment.fromText 0 "/**/".toList).rebuild 0 = "/** / */".toList := by decide

/-! ## Examples -/

example : (Comment.fromText 4 "/* a\n       b\n     */".toList) =
    { text := "a\nb\n".toList, kind := .block false (some 3) } := by decide
example : (Comment.fromText 4 "/* a\n       b\n     */".toList).rebuild 2 = "  /* a\n     b\n  */".toList := by decide
example : Comment.fromText 2 "/* a\n     b\n  */".toList = Comment.fromText 4 "/* a\n       b\n     */".toList := by decide
example : (Comment.fromText 0 "#  two".toList).rebuild 2 = "  #  two".toList := by decide
example : (Comment.fromText 0 "/*  pad  */".toList).rebuild 0 = "/* pad */".toList := by decide

/-- a trivia list with a blank line, an inline comment and a block comment -/
def sampleTrivia : List Trivia :=
  [.emptyLine, .comment { text := "c".toList, inline := true }, .linebreak,
   .comment { text := "a\nb".toList, kind := .block false (some 3) }]

example : commentTokens 2 sampleTrivia = ["# c".toList, "/* a\n     b */".toList] := by decide
example : formatInterstitialTrivia sampleTrivia 2 = "\n\n# c\n  /* a\n     b */\n".toList := by decide

section Fragment
open Nima.Frag

/-! ## Container fragment (L3–L5): comments through the whole round trip

Same models as `Props/C01.lean` (section Fragment). `lexOf` reads the code tokens AND the comment
tokens off the output pieces, in order; `Items.lex` reads them off the input tree. -/

/-- the delimiters of a binding, which the property lets a comment cross -/
def isBindDelim : Lex → Bool
  | .tok s => s == ['='] || s == [';']
  | .cmt _ => false

/-- comment normalisation: a comment token is compared as `Comment.from_cst` / `rebuild` rewrite it
    (`line_comment_roundtrip`, `block_comment_idem` above say what that changes: `# ` → `#`,
    delimiter padding of block comments) -/
def normLex : Lex → Lex
  | .tok s => .tok s
  | .cmt t => normCmt t

def keep (l : Lex) : Bool := !isBindDelim l

theorem filter_keep_ncm (cs : GC) : (ncm cs).filter keep = ncm cs := by
  induction cs with
  | nil => rfl
  | cons p cs ih =>
    show List.filter keep (normCmt p.2 :: ncm cs) = normCmt p.2 :: ncm cs
    rw [List.filter_cons_of_pos (by simp [keep, normCmt, isBindDelim]), ih]

theorem map_normLex_lexGC (cs : GC) : (lexGC cs).map normLex = ncm cs := by
  induction cs with
  | nil => rfl
  | cons p cs ih => simp [lexGC, ncm, normLex] at ih ⊢

mutual
theorem cst_lexM_modulo : (c : Cst) → c.lexM.filter keep = (c.lex.map normLex).filter keep
  | .leaf _ _ => rfl
  | .list its _ => by
    have := items_lexM_modulo its
    simp only [Cst.lexM, Cst.lex, List.map_cons, List.map_append, List.filter_cons, List.filter_append, this]
    simp [normLex]
    rfl
  | .set r _ its _ => by
    have := items_lexM_modulo its
    cases r <;>
    simp only [Cst.lexM, Cst.lex, recLex, List.map_cons, List.map_append, List.filter_cons, List.filter_append, this] <;>
    simp [normLex] <;> rfl
  | .paren its _ => by
    have := items_lexM_modulo its
    simp only [Cst.lexM, Cst.lex, List.map_cons, List.map_append, List.filter_cons, List.filter_append, this]
    simp [normLex]
    rfl
  | .app f cs _ a => by
    simp only [Cst.lexM, Cst.lex, List.map_append, List.filter_append, cst_lexM_modulo f, cst_lexM_modulo a,
      map_normLex_lexGC]
  | .kw w c1 _ h c2 _ c3 _ b => by
    simp only [Cst.lexM, Cst.lex, List.map_cons, List.map_append, List.filter_cons, List.filter_append,
      cst_lexM_modulo h, cst_lexM_modulo b, map_normLex_lexGC]
    simp [normLex, keep, isBindDelim]
  | .sel e c1 _ _ attrs => by
    have hat : ∀ (as : List Text), (attrLex as).map normLex = attrLex as := by
      intro as
      induction as with
      | nil => rfl
      | cons a r ih => simp [attrLex, normLex, ih]
    simp only [Cst.lexM, Cst.lex, List.map_append, List.filter_append, cst_lexM_modulo e, map_normLex_lexGC, hat]
  | .selOr e c1 _ _ attrs c2 _ _ d => by
    have hat : ∀ (as : List Text), (attrLex as).map normLex = attrLex as := by
      intro as
      induction as with
      | nil => rfl
      | cons a r ih => simp [attrLex, normLex, ih]
    simp only [Cst.lexM, Cst.lex, List.map_append, List.map_cons, List.filter_append, List.filter_cons, cst_lexM_modulo e,
      cst_lexM_modulo d, map_normLex_lexGC, hat]
    simp [normLex, keep, isBindDelim]
  | .lam n c1 _ c2 _ b => by
    simp only [Cst.lexM, Cst.lex, List.map_append, List.map_cons, List.filter_append, List.filter_cons, cst_lexM_modulo b,
      map_normLex_lexGC]
    simp [normLex, keep, isBindDelim]
  | .un op c _ e => by
    simp only [Cst.lexM, Cst.lex, List.map_append, List.map_cons, List.filter_append, List.filter_cons, cst_lexM_modulo e,
      map_normLex_lexGC, normLex]
  | .bin l c1 _ op c2 _ r => by
    simp only [Cst.lexM, Cst.lex, List.map_append, List.map_cons, List.filter_append, List.filter_cons, cst_lexM_modulo l,
      cst_lexM_modulo r, map_normLex_lexGC, normLex]
  | .ite c1 _ c c2 _ c3 _ t c4 _ c5 _ e => by
    simp only [Cst.lexM, Cst.lex, List.map_append, List.map_cons, List.filter_append, List.filter_cons, cst_lexM_modulo c,
      cst_lexM_modulo t, cst_lexM_modulo e, map_normLex_lexGC, normLex]
    simp [keep, isBindDelim, kwIf, kwThen, kwElse]
  | .has e c1 _ c2 _ attrs => by
    simp only [Cst.lexM, Cst.lex, List.map_append, List.map_cons, List.filter_append, List.filter_cons, cst_lexM_modulo e,
      map_normLex_lexGC, normLex]
    have hattr : ∀ (l : List Text), List.map normLex (attrLex l) = attrLex l := by
      intro l; induction l with
      | nil => rfl
      | cons x r ih => simp [attrLex, normLex, ih]
    cases attrs with
    | nil => simp [attrLex0, keep, isBindDelim]
    | cons x r => simp [attrLex0, normLex, hattr, keep, isBindDelim]
theorem items_lexM_modulo : (its : Items) → its.lexM.filter keep = (its.lex.map normLex).filter keep
  | .nil => rfl
  | .cmt _ t rest => by
    have := items_lexM_modulo rest
    simp only [Items.lexM, Items.lex, List.map_cons, List.filter_cons, this]
    simp [normLex]
    rfl
  | .elem _ c rest => by
    simp only [Items.lexM, Items.lex, List.map_append, List.filter_append, cst_lexM_modulo c, items_lexM_modulo rest]
  | .bind _ n c1 _ c2 _ v c3 _ rest => by
    have h1 := cst_lexM_modulo v
    have h2 := items_lexM_modulo rest
    simp only [Items.lexM, Items.lex, List.map_cons, List.map_append, List.filter_cons, List.filter_append, h1, h2,
      map_normLex_lexGC, filter_keep_ncm]
    simp [normLex, keep, isBindDelim]
end

/-- COMMENTS SURVIVE EXACTLY ONCE, IN ORDER, IN PLACE. For every well-formed file of the fragment
    (containers, parentheses, function calls, `with e; body`, `assert e; body`, selects, lambdas, unary and binary
    operators, `if c then a else b`, has-attr `e ? a.b`, with comments anywhere but in the inner gaps of these
    keyword / operator constructs themselves: `Cst.wf`) in which no comment overtakes
    another (`File.orderOk`: in item sequences, see `cex_comment_overtakes`; between function and
    argument of a call, `appOrderOk`, see `cex_call_comment_reordered`) and no comment follows an
    `assert` item (`!c.isAsrt || rest.noCmt`, see `cex_comment_after_assert`), the
    sequence of code tokens and comment tokens of the output — `lexOf` of the pieces — is the
    sequence of the input with every comment normalised, except that the comments of a binding
    written in front of `=` come out after it and those in front of `;` after it (`Items.lexM`). -/
theorem frag_comments_preserved (f : File) (s : Src) (hwf : f.wf = true) (_hws : f.noLeadingWs = true)
    (hord : f.orderOk = true) (hp : f.parse = .ok s) : lexOf s.rebuildP = f.items.lexM := by
  obtain ⟨s', hp', hok, hl⟩ := file_parse_spec true f hwf (fun _ => hord)
  rw [hp] at hp'; injection hp' with hs; subst hs
  rw [(srcRebuildP_lex s hok).1]; exact hl

/-- The same in the property's own terms: with `=` and `;` left out (the property allows a
    comment to cross them) the interleaved sequence of tokens and comments is preserved, up to
    comment normalisation. No comment crosses any other token, none is lost or duplicated. -/
theorem frag_comments_in_place (f : File) (s : Src) (hwf : f.wf = true) (hws : f.noLeadingWs = true)
    (hord : f.orderOk = true) (hp : f.parse = .ok s) :
    (lexOf s.rebuildP).filter keep = (f.items.lex.map normLex).filter keep := by
  rw [frag_comments_preserved f s hwf hws hord hp]; exact items_lexM_modulo f.items

/-- what normalisation does to a line comment: nothing, except that `# ` loses its trailing space -/
theorem frag_line_comment_norm (r : Text) (hnl : containsNL r = false) :
    normLex (.cmt ('#' :: r)) = .cmt (if r = [' '] then ['#'] else '#' :: r) := by
  show Lex.cmt ((mkComment ('#' :: r) false).token 0) = _
  have hk := (line_comment_kind 0 r).1
  have : (mkComment ('#' :: r) false).token 0 = (Comment.fromText 0 ('#' :: r)).str := by
    unfold mkComment Comment.token
    simp only [hk]
    rfl
  rw [this, line_comment_str 0 r hnl]

/-- full statement (false): without the side condition on comment order -/
def frag_comments_preserved_full : Prop :=
  ∀ (f : File) (s : Src), f.wf = true → f.noLeadingWs = true → f.parse = .ok s →
    (lexOf s.rebuildP).filter keep = (f.items.lex.map normLex).filter keep

/-- `[ x⏎ /* b */ /* c */ y ]`: in a list (and at top level) a comment that starts on the row on
    which the previous comment ends is attached to the previous ELEMENT as an end-of-line comment,
    although own-line comments are still pending: it overtakes them (`parse_delimited_sequence`:
    `can_inline_comment` of `process_list` / `NixSourceCode.from_cst` does not look at what `prev`
    is). Output: `[⏎  x /* c */⏎  /* b */⏎  y⏎]`. -/
def overtakeFile : File :=
  { items := .elem [] (.list (.elem " ".toList (.leaf .ident "x".toList)
      (.cmt "\n ".toList "/* b */".toList (.cmt " ".toList "/* c */".toList
        (.elem " ".toList (.leaf .ident "y".toList) .nil)))) " ".toList) .nil,
    endGap := [] }

theorem cex_comment_overtakes : ¬ frag_comments_preserved_full := by
  intro h
  have := h overtakeFile _ (by decide) (by decide) rfl
  revert this; decide

example : overtakeFile.flatten = "[ x\n /* b */ /* c */ y ]".toList := by decide
example : overtakeFile.roundtrip = .ok "[\n  x /* c */\n  /* b */\n  y\n]".toList := by decide
example : overtakeFile.orderOk = false := by decide

/-- statement with the exclusion of the container fragment only (`orderOkSeq`: `orderOk` without the
    condition on calls) — false -/
def frag_comments_preserved_seq_only : Prop :=
  ∀ (f : File) (s : Src), f.wf = true → f.noLeadingWs = true → f.orderOkSeq = true → f.parse = .ok s →
    (lexOf s.rebuildP).filter keep = (f.items.lex.map normLex).filter keep

/-- `f/* a */ /* b */ x`: between function and argument, `FunctionCall.from_cst` puts the comments
    that start on the row the function ends on AND after its last byte into `function_after`, the
    others into `argument.before`. The first comment touches the function (`start_byte >
    function_node.end_byte` fails), so it stays behind while the second one is moved in front of it:
    output `f /* b */ /* a */⏎x` — the two comments have changed places (NEW finding
    `C03-call-comment-reordered`; `expressions/function/call.py: from_cst`, `inline_comment_nodes`). -/
def callReorderFile : File :=
  { items := .elem [] (.app (.leaf .ident "f".toList) [([], "/* a */".toList), (" ".toList, "/* b */".toList)]
      " ".toList (.leaf .ident "x".toList)) .nil,
    endGap := [] }

theorem cex_call_comment_reordered : ¬ frag_comments_preserved_seq_only := by
  intro h
  have := h callReorderFile _ (by decide) (by decide) (by decide) rfl
  revert this; decide

example : callReorderFile.flatten = "f/* a */ /* b */ x".toList := by decide
example : callReorderFile.roundtrip = .ok "f /* b */ /* a */\nx".toList := by decide
example : callReorderFile.orderOk = false ∧ callReorderFile.orderOkSeq = true := by decide

/-- statement with `orderOk` without its condition on `assert` items (`orderOkNA`) — false -/
def frag_comments_preserved_no_assert_clause : Prop :=
  ∀ (f : File) (s : Src), f.wf = true → f.noLeadingWs = true → f.orderOkNA = true → f.parse = .ok s →
    (lexOf s.rebuildP).filter keep = (f.items.lex.map normLex).filter keep

/-- `assert a; b # c⏎`: the comment after the body is attached to the top-level item — the
    `Assertion` — as trailing trivia (`parse_delimited_sequence`, `NixSourceCode.from_cst`), and
    `Assertion.rebuild` writes its trailing trivia with `add_trivia` on the `assert …;` line, in front
    of the body: output `assert a; # c⏎b⏎` — the comment has moved across the token `b` (open finding
    `C03-comments-comment-moved-source_code`; `expressions/assertion.py: rebuild`). The same inside
    parentheses: `(assert a; b /* c */)` → `(assert a; /* c */⏎b)`. -/
def assertCommentFile : File :=
  { items := .elem [] (.kw false [] " ".toList (.leaf .ident "a".toList) [] [] [] " ".toList (.leaf .ident "b".toList))
      (.cmt " ".toList "# c".toList .nil),
    endGap := "\n".toList }

theorem cex_comment_after_assert : ¬ frag_comments_preserved_no_assert_clause := by
  intro h
  have := h assertCommentFile _ (by decide) (by decide) (by decide) rfl
  revert this; decide

example : assertCommentFile.flatten = "assert a; b # c\n".toList := by decide
example : assertCommentFile.roundtrip = .ok "assert a; # c\nb\n".toList := by decide
example : assertCommentFile.orderOk = false ∧ assertCommentFile.orderOkNA = true := by decide

/-- `assert` as a binding value with a comment in front of the binding's `;` (written after it, as for
    every value), in parentheses, as a body of `with`; no comment follows an `assert` ITEM -/
def assertSample : File :=
  { items := .elem [] (.set false [] (.bind " ".toList "x".toList [] " ".toList [] " ".toList
      (.kw false [] "\n   ".toList (.paren (.elem [] (.leaf .ident "a".toList) (.cmt " ".toList "/* p */".toList .nil)) [])
        [] " ".toList [] "\n\n".toList
        (.kw true [] " ".toList (.leaf .ident "e".toList) [] [] [] " ".toList
          (.kw false [] " ".toList (.leaf .ident "c".toList) [] [] [] " ".toList (.leaf .ident "d".toList))))
      [(" ".toList, "/* v */".toList)] [] .nil) " ".toList) .nil,
    endGap := [] }

example : assertSample.flatten = "{ x = assert\n   (a /* p */) ;\n\nwith e; assert c; d /* v */; }".toList := by decide
example : assertSample.wf = true ∧ assertSample.noLeadingWs = true ∧ assertSample.orderOk = true := by decide
example : (match assertSample.parse with
    | .ok s => decide (lexOf s.rebuildP = assertSample.items.lexM)
    | _ => false) = true := by decide

/-- comments inside parentheses and between function and argument; no comment overtakes another -/
def callSample : File :=
  { items := .elem []
      (.app (.leaf .ident "f".toList) [(" ".toList, "/* a */".toList), ("\n  ".toList, "# b".toList)] "\n  ".toList
        (.paren (.cmt " ".toList "/* p */".toList (.elem " ".toList (.leaf .ident "x".toList)
          (.cmt " ".toList "# q".toList .nil))) "\n".toList)) .nil,
    endGap := [] }

example : callSample.flatten = "f /* a */\n  # b\n  ( /* p */ x # q\n)".toList := by decide
example : callSample.wf = true ∧ callSample.noLeadingWs = true ∧ callSample.orderOk = true := by decide
example : (match callSample.parse with
    | .ok s => decide (lexOf s.rebuildP = callSample.items.lexM)
    | _ => false) = true := by decide

/-- `with` as a binding value, in parentheses and as a body, comments around and inside the parts -/
def withSample : File :=
  { items := .cmt [] "# h".toList (.elem "\n".toList
      (.kw true [] " ".toList (.paren (.cmt [] "/* p */".toList (.elem " ".toList (.leaf .ident "a".toList) .nil)) [])
        [] [] [] "\n\n  ".toList
        (.set false [] (.bind " ".toList "x".toList [] " ".toList [] " ".toList
          (.kw true [] " ".toList (.leaf .ident "b".toList) [] " ".toList [] " ".toList
            (.list (.elem " ".toList (.leaf .ident "c".toList) (.cmt " ".toList "# e".toList .nil)) "\n".toList))
          [(" ".toList, "/* v */".toList)] [] .nil) " ".toList))
      (.cmt " ".toList "# t".toList .nil)),
    endGap := "\n".toList }

example : withSample.flatten = "# h\nwith (/* p */ a);\n\n  { x = with b ; [ c # e\n] /* v */; } # t\n".toList := by decide
example : withSample.wf = true ∧ withSample.noLeadingWs = true ∧ withSample.orderOk = true := by decide
example : (match withSample.parse with
    | .ok s => decide (lexOf s.rebuildP = withSample.items.lexM)
    | _ => false) = true := by decide

/-- a file with comments in every kind of gap of a binding; no comment overtakes another -/
def fragSample : File :=
  { items := .cmt [] "# h".toList (.elem "\n".toList
      (.set false [] (.bind " ".toList "a".toList [(" ".toList, "/* n */".toList)] " ".toList
          [(" ".toList, "/* e */".toList)] " ".toList (.leaf .int "1".toList) [(" ".toList, "/* v */".toList)] []
        (.cmt " ".toList "# e".toList .nil)) "\n".toList) .nil),
    endGap := "\n".toList }

example : fragSample.flatten = "# h\n{ a /* n */ = /* e */ 1 /* v */; # e\n}\n".toList := by decide
example : fragSample.wf = true ∧ fragSample.noLeadingWs = true ∧ fragSample.orderOk = true := by decide
example : fragSample.roundtrip = .ok "# h\n{\n  a =\n    /* n */\n    /* e */\n    1; /* v */\n# e\n}\n".toList := by decide

end Fragment

end Nima.C03
