"""G-doc / G-ops: editable (and non-editable) documents and operation histories.

Everything is derived from one `random.Random`; `enumerate_single_ops` is deterministic.
Documents are emitted in RFC-style layout (two-space indentation, one binding per line) or inline;
callers that need a canonical document check the fixed-point criterion themselves.
"""
from __future__ import annotations

import random

NAMES = ["a", "b", "c", "d", "x", "y", "version", '"q-r"']
VALUES_OK = ["1", '"s"', "[ 1 2 ]", "{ k = 1; }", "x", "true", "./p.nix", "f a", "a.b", "-1"]
# values that carry a comment (still exactly one expression): used by the enumerated / special streams only,
# a one-line set holding such a value no longer parses (finding C05-line-comment-value-in-one-line-set) and
# would poison every later step of a random history
VALUES_COMMENTED = ["1 # note", "/* c */ 2"]
VALUES_BAD = ["", "1 +", "{", "}", "a = 1;", "[ 1", '"unterminated', "# only a comment", '"x\\"', '"\\"', '"a\\\\"b"']
MALFORMED_PATHS = ["", "a..b", 'a."b', "@", ".a", "a.", 'a"b"', "@@", 'a."b\\', "foo-bar", "a b", "1a"]


class Body:
    """A set body: ordered items with optional trivia."""

    def __init__(self, items, multiline=True, rec=False):
        self.items = items  # list of (kind, text_of_line, comment_above, eol_comment, blank_before)
        self.multiline = multiline
        self.rec = rec

    def render(self, indent=0) -> str:
        pre = "rec " if self.rec else ""
        if not self.items:
            return pre + "{ }"
        if not self.multiline:
            return pre + "{ " + " ".join(it[1] for it in self.items) + " }"
        pad = " " * (indent + 2)
        lines = []
        for kind, text, above, eol, blank in self.items:
            if blank and lines:
                lines.append("")
            if above:
                lines.append(pad + "# " + above)
            body = text.replace("\n", "\n" + pad)
            lines.append(pad + body + ("  # " + eol if eol else ""))
        return pre + "{\n" + "\n".join(lines) + "\n" + " " * indent + "}"


def gen_value(rng: random.Random, depth=0) -> str:
    r = rng.random()
    if r < 0.45 or depth > 1:
        return rng.choice(["1", "2", '"s"', "true", "[ 1 2 ]", "null", '"1.0"'])
    if r < 0.6:
        # identifier reference: only names that body bindings never use (v, w may be bound by a let
        # layer); references to names of the set itself are exercised by C11's own documents
        return rng.choice(["v", "w", "v", "pkgs"])
    if r < 0.8:
        inner = gen_body(rng, depth + 1, small=True, trivia=False)
        return inner.render(2 * (depth + 1)) if inner.multiline else inner.render()
    return rng.choice(["f a", "a.b", "if c then 1 else 2", "lib.mk { k = 1; }"])


def gen_body(rng: random.Random, depth=0, small=False, trivia=True) -> Body:
    n = rng.randint(0, 2) if small else rng.randint(0, 5)
    names = NAMES[:]
    rng.shuffle(names)
    items = []
    used = set()
    i = 0
    while len(items) < n and i < len(names):
        nm = names[i]
        i += 1
        if nm in used:
            continue
        used.add(nm)
        r = rng.random()
        if r < 0.2 and depth == 0:
            # attrpath family, possibly interleaved later
            leaves = rng.sample(["p", "q", "r", "s.t"], rng.randint(1, 3))
            for lf in leaves:
                items.append(("attrpath", f"{nm}.{lf} = {gen_value(rng, 2)};", None, None, False))
        elif r < 0.27:
            items.append(("inherit", f"inherit {nm};", None, None, False))
        elif r < 0.32:
            items.append(("inherit", f"inherit (p) {nm};", None, None, False))
        else:
            items.append(("bind", f"{nm} = {gen_value(rng, depth)};", None, None, False))
    if rng.random() < 0.3:
        rng.shuffle(items)  # interleaves attrpath families with other bindings
    multiline = True if any("\n" in it[1] for it in items) else (rng.random() < 0.7)
    if trivia and multiline:
        out = []
        for kind, text, _, _, _ in items:
            out.append((kind, text,
                        rng.choice([None, None, None, "above " + text[:3].strip()]),
                        rng.choice([None, None, None, "eol"]),
                        rng.random() < 0.15))
        items = out
    return Body(items, multiline=multiline, rec=(rng.random() < 0.15))


WRAPPERS = [
    ("bare", "{S}"),
    ("lambda-formals", "{{ pkgs }}:\n{S}"),
    ("lambda-ident", "args: {S}"),
    ("with", "with pkgs;\n{S}"),
    ("assert", "assert c;\n{S}"),
    ("paren", "({S})"),
    ("call", "f {S}"),
    ("call-select", "pkgs.mk {S}"),
    ("lambda-call", "{{ pkgs }}:\npkgs.mk {S}"),
    ("lambda-with", "{{ pkgs }}:\nwith pkgs;\n{S}"),
    ("lambda-call-paren", "{{ pkgs }}:\npkgs.mk ({S})"),
    # curried calls whose inner callee is parenthesised
    ("call-curried-paren", "(lib.mk x) ./p.nix {S}"),
    ("call-paren-callee", "((f) x) {S}"),
    # the usual nixpkgs layout: a blank line (or a comment) between the wrapper head and the set
    ("lambda-formals-blank", "{{ pkgs, ... }}:\n\n{S}"),
    ("assert-blank", "assert c;\n\n{S}"),
    ("lambda-comment", "{{ pkgs }}:\n# note\n{S}"),
    ("header-lambda-call-blank", "# header\n{{ pkgs }}:\n\npkgs.mk {S}"),
]
CALL_WRAPPERS = ("call", "call-select", "lambda-call", "header-lambda-call-blank", "call-curried-paren", "call-paren-callee")
NON_EDITABLE = ["[ 1 2 ]", "1", '"s"', "x: x", "x", "a.b", "f 1", "if c then { a = 1; } else { a = 2; }"]
ERRONEOUS = ["{ a = 1; ", "{ a = ; }", "{ a = 1 }", "a = 1;", "{ a = 1; } }", "let in", "{ a = 1; b = [ 1 2; }", ")("]


def gen_layers(rng: random.Random, n: int) -> list[str]:
    """n let blocks (outermost first), names overlapping across layers on purpose."""
    out = []
    for _ in range(n):
        k = rng.randint(1, 3)
        names = rng.sample(["x", "y", "v", "version", "a"], k)
        binds = "\n".join(f"  {nm} = {rng.choice(['1', '2', chr(34) + 's' + chr(34), 'y', 'v'])};" for nm in names)
        if rng.random() < 0.3:
            inh = rng.choice(["inherit (pkgs) lib;", "inherit q;", "inherit (p) r s;"])
            binds = (f"  {inh}\n" + binds) if rng.random() < 0.5 else (binds + f"\n  {inh}")
        out.append(f"let\n{binds}\nin\n")
    return out


def gen_doc(rng: random.Random, final_newline=None):
    """Returns (text, info)."""
    r = rng.random()
    if r < 0.04:
        return rng.choice(NON_EDITABLE) + "\n", {"class": "non-editable"}
    if r < 0.08:
        return rng.choice(ERRONEOUS), {"class": "erroneous"}
    if r < 0.09:
        return rng.choice(["", "\n", "# c\n"]), {"class": "empty"}
    body = gen_body(rng)
    wname, wtpl = rng.choice(WRAPPERS)
    nlayers = rng.choice([0, 0, 0, 1, 1, 2, 3])
    layers = gen_layers(rng, nlayers)
    inner_pos = rng.random() < 0.7  # lets directly around the set (layers of the target) vs outside the wrapper
    s = body.render()
    if inner_pos and wname not in CALL_WRAPPERS + ("paren", "lambda-call-paren"):
        text = wtpl.replace("{S}", "".join(layers) + s).replace("{{", "{").replace("}}", "}")
    elif inner_pos and wname in ("paren", "lambda-call-paren"):
        text = wtpl.replace("{S}", "".join(layers) + s).replace("{{", "{").replace("}}", "}")
    else:
        text = "".join(layers) + wtpl.replace("{S}", s).replace("{{", "{").replace("}}", "}")
    if rng.random() < 0.15:
        text = "# header\n" + text
    fn = final_newline if final_newline is not None else (rng.random() < 0.8)
    if fn:
        text += "\n"
    return text, {"class": "editable", "wrapper": wname, "layers": nlayers, "multiline": body.multiline,
                  "rec": body.rec, "items": len(body.items)}


def paths_for(text: str, rng: random.Random) -> list[str]:
    """Candidate paths: names occurring in the text (existing), fresh ones, nested, scoped, quoted."""
    pool = ["a", "b", "c", "d", "x", "y", "version", '"q-r"', "v", "k", "p", "q", "s.t", "zz", "n"]
    cands = []
    for nm in pool:
        cands.append(nm)
    for a in ["a", "b", "c", "x", "zz", '"q-r"']:
        for b in ["p", "q", "k", "zz", "s.t", '"u.v"']:
            cands.append(f"{a}.{b}")
    cands += ["a.b.c", "zz.y.x", "b.s.t", "b.s.u", '"a.b"', '"a b"', '"${x}"']
    scoped = []
    for c in ["x", "y", "v", "version", "a", "zz", "x.y", "zz.k"]:
        for depth in (1, 1, 2, 3):
            scoped.append("@" * depth + c)
    return cands + scoped


def gen_ops(text: str, rng: random.Random, n: int) -> list[tuple]:
    cands = paths_for(text, rng)
    ops = []
    for _ in range(n):
        r = rng.random()
        if r < 0.07:
            path = rng.choice(MALFORMED_PATHS)
        else:
            path = rng.choice(cands)
        if rng.random() < 0.6:
            val = rng.choice(VALUES_BAD) if rng.random() < 0.08 else rng.choice(VALUES_OK)
            ops.append(("set", path, val))
        else:
            ops.append(("rm", path))
    return ops


SPECIAL = [
    # dotted bindings under different roots whose leaves are equal (same last segment, value, trivia)
    ("equal-leaves", "{\n  services.nginx.enable = true;\n  services.openssh.enable = true;\n  programs.zsh.enable = true;\n  x = 1;\n}",
     [("rm", "services.nginx.enable"), ("rm", "services.openssh.enable"), ("rm", "programs.zsh.enable"),
      ("set", "services.nginx.enable", "false"), ("set", "programs.zsh.enable", "false"), ("set", "programs.fish.enable", "true"),
      ("rm", "services.nginx"), ("rm", "x"), ("set", "services.nginx.port", "80")]),
    ("equal-bindings", "{\n  a = true;\n  b = true;\n  c = {\n    a = true;\n    b = true;\n  };\n}",
     [("rm", "a"), ("rm", "b"), ("rm", "c.a"), ("rm", "c.b"), ("set", "c.a", "false"), ("set", "b", "false")]),
    # an explicit set binding and a dotted binding with the same root (valid Nix: the definitions merge)
    ("explicit-then-attrpath", "{\n  a = {\n    x = 1;\n  };\n  a.b = 2;\n}",
     [("set", "a", "1"), ("rm", "a"), ("set", "a.x", "5"), ("set", "a.b", "7"), ("rm", "a.b"), ("rm", "a.x"), ("set", "a.z", "3")]),
    ("attrpath-then-explicit", "{\n  a.b = 2;\n  a = {\n    x = 1;\n  };\n}",
     [("set", "a", "1"), ("rm", "a"), ("set", "a.x", "5"), ("set", "a.b", "7"), ("rm", "a.b"), ("rm", "a.x"), ("set", "a.z", "3")]),
    # a quoted name containing a dot next to the nested path it must not be confused with
    ("quoted-dot-vs-nested", "{\n  a = {\n    b = {\n      d = 1;\n    };\n  };\n}",
     [("set", '"a.b".c', "2"), ("rm", '"a.b".d'), ("set", '"a.b"', "2"), ("rm", '"a.b"'), ("set", 'a."b.d"', "2"),
      ("rm", 'a."b.d"'), ("set", 'a."b".d', "3"), ("rm", '"a".b.d')]),
    ("quoted-dot-vs-attrpath", "{\n  a.b.d = 1;\n  x = 2;\n}",
     [("set", '"a.b".c', "2"), ("rm", '"a.b".d'), ("set", '"a.b"', "2"), ("rm", '"a.b"'), ("rm", 'a."b.d"'), ("set", 'a."b".d', "3")]),
    # a dotted leaf and a deeper path through it (refused: explicit binding inside the family); then the same again
    ("attrpath-leaf-then-deeper", "{\n  a.b = 1;\n  x = 2;\n}",
     [("set", "a.b.c", "2"), ("set", "a.b.c", "2"), ("rm", "a.b"), ("set", "a", "7"), ("set", "a.b", "5"), ("set", "a.d.e", "3")]),
    ("inline-set-comment-value", "{ a = 1; b = 2; }",
     [("set", "a", "1 # note"), ("set", "zz", "1 # note"), ("set", "a", "/* c */ 2"), ("set", "b", "3")]),
    # a nested explicit set that inherits from the enclosing scope, next to top-level bindings with the names
    # of leaves that are NOT in the nested set
    ("nested-inherit-sibling-names", "{\n  pname = \"a\";\n  version = \"1\";\n  passthru = {\n    inherit version;\n  };\n}",
     [("set", "passthru.pname", '"other"'), ("rm", "passthru.pname"), ("set", "passthru.version", '"2"'), ("rm", "passthru.version"),
      ("set", "passthru.zz", "1"), ("set", "pname", '"b"')]),
    # a quoted (non-identifier) segment followed by bare ones
    ("quoted-then-bare", "{\n  \"q-r\" = {\n    k = 1;\n    j = {\n      i = 2;\n    };\n  };\n  a = 1;\n}",
     [("rm", '"q-r".k'), ("set", '"q-r".k', "2"), ("set", '"q-r".zz', "3"), ("rm", '"q-r".j.i'), ("set", '"q-r".j.i', "4"), ("set", '"q-r".j.h', "5")]),
    # three-segment dotted families sharing their first two segments (the usual NixOS configuration shape)
    ("deep-family", "{\n  services.nginx.enable = true;\n  services.nginx.port = 80;\n  services.nginx.user = \"www\";\n  x = 1;\n}",
     [("set", "services.nginx.port", "8080"), ("rm", "services.nginx.user"), ("set", "services.nginx.enable", "false"),
      ("rm", "services.nginx.enable"), ("set", "services.nginx.group", '"g"'), ("rm", "services.nginx.port"), ("set", "services.nginx", "1"),
      ("set", "services.nginx.port.x", "1")]),
    # three and more parents to create; a name repeated along the path
    ("deep-fresh-paths", "{\n  a.x = 0;\n  k = 1;\n}",
     [("set", "p.q.r.s", "1"), ("set", "p.q.r.s.t", "1"), ("set", "a.b.b", "1"), ("set", "a.a.a", "1"), ("set", "a.b.c.b", "1"),
      ("rm", "a.b.b"), ("rm", "a.x"), ("set", "k.k", "2")]),
    ("quoted-dot-existing", "{\n  \"a.b\" = {\n    d = 1;\n  };\n  a.b.d = 2;\n}",
     [("set", '"a.b".d', "7"), ("set", "a.b.d", "7"), ("rm", '"a.b".d'), ("rm", "a.b.d"), ("set", '"a.b".c', "2")]),
]
SPECIAL_PATHS_MALFORMED = ["a.", "a.b.", "x.", "@x.", '"q-r".', "a..", ".a", "a. b", "a\n", "\ta", " a", "a ", '"a"b', 'a"b"', "@", "@.a"]


SPECIAL_DOCS = [
    # the edit target is reached through a name bound in an outer AND an inner let, a wrapper in between
    ("ident-target-shadowed-paren", "let\n  a = {\n    x = 1;\n  };\nin\n(let\n  a = {\n    x = 2;\n  };\nin\na)\n"),
    ("ident-target-shadowed-lambda", "let\n  a = {\n    x = 1;\n  };\nin\n{ pkgs }:\nlet\n  a = {\n    x = 2;\n  };\nin\npkgs.mk a\n"),
    ("ident-target-shadowed-assert", "let\n  a = {\n    x = 1;\n  };\nin\nassert true;\nlet\n  a = {\n    x = 2;\n  };\nin\na\n"),
    ("ident-target-nested-lets", "let\n  a = {\n    x = 1;\n  };\nin\nlet\n  a = {\n    x = 2;\n  };\nin\na\n"),
    ("ident-target-single", "let\n  a = {\n    x = 1;\n  };\n  b = 2;\nin\na\n"),
]


def enumerate_special():
    """shapes × their own operations (always run in full): what only a specific document shape or path
    spelling exposes"""
    for name, body, ops in SPECIAL:
        for wname, wtpl in (("bare", "{S}"), ("lambda-formals", "{{ pkgs }}:\n{S}"), ("call", "f {S}")):
            text = wtpl.replace("{S}", body).replace("{{", "{").replace("}}", "}") + "\n"
            for op in ops:
                yield text, [op], {"class": "editable", "wrapper": wname, "special": name}
            # every pair of operations as a history
            for i, op in enumerate(ops[:5]):
                for op2 in ops[:5]:
                    if op2 is not op and wname == "bare" and name != "inline-set-comment-value":
                        yield text, [op, op2], {"class": "editable", "wrapper": wname, "special": name}
    for pth in ("a.b.b", "a.a.a", "a.b.c.b", "p.q.r.s", "p.q.r.s.t", "w.x.y.z.v"):
        for base0 in ("{\n  a.x = 0;\n  k = 1;\n}\n", "{ }\n", "{\n  a = {\n    x = 0;\n  };\n}\n"):
            yield base0, [("set", pth, "1"), ("rm", pth)], {"class": "editable", "wrapper": "bare", "special": "deep-set-rm"}
            yield base0, [("set", pth, "1"), ("set", pth, "2")], {"class": "editable", "wrapper": "bare", "special": "deep-set-set"}
    for name, text in SPECIAL_DOCS:
        for op in [("set", "x", "7"), ("set", "zz", "7"), ("rm", "x"), ("set", "x.k", "7")]:
            yield text, [op], {"class": "editable", "wrapper": "ident-target", "special": name, "nomodel": True}
        yield text, [("set", "x", "7"), ("set", "zz", "8"), ("rm", "x")], {"class": "editable", "wrapper": "ident-target",
                                                                      "special": name, "nomodel": True}
    base = "{\n  a = 1;\n  x = {\n    k = 1;\n  };\n  \"q-r\" = 2;\n}\n"
    for lay in ("", "let\n  x = 1;\nin\n"):
        for p in SPECIAL_PATHS_MALFORMED:
            yield lay + base, [("set", p, "7")], {"class": "editable", "wrapper": "bare", "special": "malformed-path"}
            yield lay + base, [("rm", p)], {"class": "editable", "wrapper": "bare", "special": "malformed-path"}
            yield lay + base, [("set", p, "7"), ("set", "a", "2")], {"class": "editable", "wrapper": "bare", "special": "malformed-path"}


def enumerate_single_ops():
    """Deterministic cross product: wrapper × body template × single operation (quick tier core)."""
    bodies = [
        "{ }",
        "{ a = 1; }",
        "{\n  a = 1;\n  b = 2;\n}",
        "{\n  # above a\n  a = 1; # eol a\n\n  b = { k = 1; };\n  c = x;\n}",
        "{\n  a.p = 1;\n  a.q = 2;\n  b = 3;\n}",
        "{\n  a.p = 1;\n  b = 3;\n  a.q.r = 2;\n}",
        "rec {\n  version = v;\n  v = \"1\";\n  src = version;\n}",
        "{\n  \"q-r\" = 1;\n  inherit x;\n  inherit (p) y;\n}",
        "{\n  a = { p = 1; };\n  x = { };\n}",
        "{\n  b = {\n    a.p = 1;\n    a.q = 2;\n  };\n}",
        # the last item carries an end-of-line comment and is followed by closing comments / a blank line
        "{\n  a = 1;\n  b = 2; # eol b\n\n  # closing note\n}",
        "{\n  a = 1;\n  inherit b; # eol\n  # closing\n}",
        # the last item carries an end-of-line comment, nothing after it
        "{\n  a = 1;\n  b = 2; # eol b\n}",
    ]
    layers_opts = ["", "let\n  x = 1;\nin\n", "let\n  x = 1;\n  y = x;\nin\nlet\n  x = 2;\n  v = \"0\";\nin\n",
                   "let\n  inherit (pkgs) lib;\n  x = 1;\nin\n", "let\n  inherit (pkgs) lib;\nin\n"]
    ops = (
        [("set", p, v) for p in ["a", "b", "c", "zz", "a.p", "a.q", "a.z", "a.q.r", "a.q.z", "b.k", "b.z", "zz.k",
                                 "zz.k.j", "b.a.p", "b.a.z", "b.a.q.z", '"q-r"', '"a.p"', "x", "y", "version", "src", "@x", "@y", "@zz", "@@x",
                                 "@@zz", "@@@x", "@x.k", "", "a..b", "@"]
         for v in ["7"]]
        + [("set", "a", v) for v in ["{ k = 1; }", "x", "", "1 +", '"s"', "1 # note", '"x\\"']]
        + [("rm", p) for p in ["a", "b", "c", "zz", "b.a.p", "b.a", "a.p", "a.q", "a.q.r", "a.z", "b.k", "zz.k", '"q-r"', "x", "y",
                               "@x", "@y", "@zz", "@@x", "@@v", "@@@x", "", "a..b"]]
    )
    for wname, wtpl in WRAPPERS:
        for bi, body in enumerate(bodies):
            for li, lay in enumerate(layers_opts):
                if wname in CALL_WRAPPERS:
                    text = lay + wtpl.replace("{S}", body)
                else:
                    text = wtpl.replace("{S}", lay + body)
                text = text.replace("{{", "{").replace("}}", "}") + "\n"
                for op in ops:
                    yield text, [op], {"wrapper": wname, "body": bi, "layers": li}
