import NimaVerif.Lemmas.Update
import NimaVerif.Lemmas.NPath
/-!
The `EditM` monad unfolded, and `setValue` / `removeValue` characterised on plain (unscoped)
single-segment paths and attrpath leaves as updates by identity. Shared by C04 and C19.
-/
namespace Nima
-- name tokens are compared by spelling in this file (see `NameCmp` in Model/Edit.lean)
attribute [local instance] NameCmp.spelled
open Node

/-! ## the `EditM` monad, unfolded -/
namespace EditM
@[simp] theorem pure_apply {α} (a : α) (d : Doc) : (pure a : EditM α) d = (.ok a, d) := rfl
theorem bind_apply {α β} (m : EditM α) (f : α → EditM β) (d : Doc) :
    (m >>= f) d = match m d with
      | (.ok a, d') => f a d'
      | (.error e, d') => (.error e, d') := rfl
theorem bind_ok {α β} (m : EditM α) (f : α → EditM β) (d d' : Doc) (a : α)
    (h : m d = (.ok a, d')) : (m >>= f) d = f a d' := by
  rw [bind_apply, h]
theorem bind_error {α β} (m : EditM α) (f : α → EditM β) (d d' : Doc) (e : Err)
    (h : m d = (.error e, d')) : (m >>= f) d = (.error e, d') := by
  rw [bind_apply, h]
@[simp] theorem throw_apply {α} (e : Err) (d : Doc) : (EditM.throw e : EditM α) d = (.error e, d) := rfl
@[simp] theorem get_apply (d : Doc) : EditM.get d = (.ok d, d) := rfl
@[simp] theorem modify_apply (f : Doc → Doc) (d : Doc) : EditM.modify f d = (.ok (), f d) := rfl
@[simp] theorem lift_apply {α} (x : Except Err α) (d : Doc) : EditM.lift x d = (x, d) := rfl
end EditM

@[simp] theorem fresh_apply (d : Doc) : fresh d = (.ok d.next, { d with next := d.next + 1 }) := rfl
@[simp] theorem assign_apply (bid : Nat) (v : Node) (d : Doc) : assign bid v d = (.ok (), d.updBind bid v) := rfl

/-- `values.append(b)` as a function on the set object -/
def appendValueF (b : Node) : Node → Node
  | .set s vs o m r => .set s (vs ++ [b]) o m r
  | n => n
def appendOrderF (x : Node) : Node → Node
  | .set s vs o m r => if o.isEmpty then .set s vs o m r else .set s vs (o ++ [x]) m r
  | n => n
@[simp] theorem appendValue_apply (sid : Nat) (b : Node) (d : Doc) :
    appendValue sid b d = (.ok (), d.updSet sid (appendValueF b)) := by
  simp only [appendValue, EditM.modify_apply]
  rfl

theorem findAttrpathLeaf_single (ts : Node) (k : Text) : findAttrpathLeaf ts [k] = none := by
  simp [findAttrpathLeaf, walkAttrpathStack]

theorem setValue_plain (p : Text) (v : Node) (d : Doc) (hnt : d.noTarget = none)
    (hsp : splitScopeNpath p = .ok none) :
    setValue p (.one v) d = setValueInAttrset d.target true p v d := by
  simp [setValue, hnt, hsp, resolveTarget]

theorem setValueInAttrset_single (ts : Node) (wl : Bool) (p : Text) (v : Node) (k : Text) (sid : Nat)
    (hf : formatNPath currentAnchor p = .ok [k]) (hs : ts.setSid? = some sid)
    (hr : findAttrpathRoot ts.setValues k = none) :
    setValueInAttrset ts wl p v =
      match findBinding ts.setValues k with
      | some b => assignExisting ts ts wl b v
      | none => setSetItem ts k v := by
  unfold setValueInAttrset
  rw [hf, hs]
  simp only [findAttrpathLeaf_single, hr, List.isEmpty_nil, if_true, Option.isSome_none, Bool.false_eq_true, if_false]
  cases findBinding ts.setValues k <;> rfl

theorem assignExisting_plain (ts parent : Node) (wl : Bool) (bid : Nat) (nm : Text) (ne : Bool)
    (val v : Node) (bf af : Payload) (hval : val.isIdent = false) (d : Doc) :
    assignExisting ts parent wl (.bind bid nm ne val bf af) v d = (.ok (), d.updBind bid v) := by
  unfold assignExisting
  cases val <;> simp [bindId?, bindValue?, Node.isIdent] at hval ⊢

def appendBothF (nb : Node) : Node → Node
  | .set s vs o m r => .set s (vs ++ [nb]) (if o.isEmpty then o else o ++ [nb]) m r
  | n => n

def eraseBothF (bid : Nat) : Node → Node
  | .set s vs o m r => .set s (vs.eraseP fun n => n.bindId? == some bid)
      (if o.isEmpty then o else o.eraseP fun n => n.isBind && n.bindId? == some bid) m r
  | n => n

@[simp] theorem appendOrderIfNonEmpty_apply (sid : Nat) (x : Node) (d : Doc) :
    appendOrderIfNonEmpty sid x d = (.ok (), d.updSet sid (appendOrderF x)) := rfl

theorem appendValueF_sid (b : Node) (sid : Nat) (vs o : List Node) (m r : Bool) :
    (appendValueF b (.set sid vs o m r)).setSid? = some sid := rfl

theorem appendOrder_appendValue (nb : Node) : (fun x => appendOrderF nb (appendValueF nb x)) = appendBothF nb := by
  funext x
  cases x <;> simp [appendValueF, appendOrderF, appendBothF]
  split <;> simp_all

theorem setSid_of_setValues_ne (n : Node) (h : n.setValues ≠ []) : ∃ sid, n.setSid? = some sid := by
  cases n <;> simp [setValues] at h
  exact ⟨_, rfl⟩

theorem findBinding_some_ne {vs : List Node} {k : Text} {b : Node} (h : findBinding vs k = some b) : vs ≠ [] := by
  intro h'; subst h'; simp [findBinding_spelled] at h

theorem set_existing_plain (d : Doc) (p k : Text) (v : Node) (bid : Nat) (nm : Text) (ne : Bool)
    (val : Node) (bf af : Payload)
    (hnt : d.noTarget = none) (hsp : splitScopeNpath p = .ok none)
    (hf : formatNPath currentAnchor p = .ok [k])
    (hr : findAttrpathRoot d.target.setValues k = none)
    (hb : findBinding d.target.setValues k = some (.bind bid nm ne val bf af))
    (hval : val.isIdent = false) :
    setValue p (.one v) d = (.ok (), d.updBind bid v) := by
  obtain ⟨sid, hs⟩ := setSid_of_setValues_ne d.target (findBinding_some_ne hb)
  rw [setValue_plain p v d hnt hsp, setValueInAttrset_single d.target true p v k sid hf hs hr, hb]
  exact assignExisting_plain _ _ _ _ _ _ _ _ _ _ hval d

theorem set_fresh_plain (d : Doc) (p k : Text) (v : Node) (sid : Nat)
    (hnt : d.noTarget = none) (hsp : splitScopeNpath p = .ok none)
    (hf : formatNPath currentAnchor p = .ok [k])
    (hs : d.target.setSid? = some sid)
    (hr : findAttrpathRoot d.target.setValues k = none)
    (hb : findBinding d.target.setValues k = none) :
    setValue p (.one v) d =
      (.ok (), { d.updSet sid (appendBothF (.bind d.next k false v [] [])) with next := d.next + 1 }) := by
  rw [setValue_plain p v d hnt hsp, setValueInAttrset_single d.target true p v k sid hf hs hr, hb]
  simp only [setSetItem, hb, hs]
  simp only [EditM.bind_apply, fresh_apply, appendValue_apply, appendOrderIfNonEmpty_apply]
  rw [Doc.updSet_fuse sid _ _ (appendValueF_sid _ sid), appendOrder_appendValue]
  rfl

theorem removeValue_plain_single (p k : Text) (d : Doc) (hnt : d.noTarget = none)
    (hsp : splitScopeNpath p = .ok none) (hf : formatNPath currentAnchor p = .ok [k])
    (hr : findAttrpathRoot d.target.setValues k = none) (b : Node)
    (hb : findBinding d.target.setValues k = some b) :
    removeValue p d = setDelItem d.target k d := by
  simp [removeValue, hnt, hsp, resolveTarget, hf, findAttrpathLeaf_single, hr, hb]

theorem setDelItem_apply (ts : Node) (k : Text) (sid bid : Nat) (nm : Text) (ne : Bool)
    (val : Node) (bf af : Payload) (hs : ts.setSid? = some sid)
    (hb : findBinding ts.setValues k = some (.bind bid nm ne val bf af)) (d : Doc) :
    setDelItem ts k d = (.ok (), d.updSet sid (eraseBothF bid)) := by
  simp only [setDelItem, hb, hs, bindId?, EditM.modify_apply]
  rfl

theorem rm_plain (d : Doc) (p k : Text) (bid : Nat) (nm : Text) (ne : Bool)
    (val : Node) (bf af : Payload) (sid : Nat)
    (hnt : d.noTarget = none) (hsp : splitScopeNpath p = .ok none)
    (hf : formatNPath currentAnchor p = .ok [k])
    (hs : d.target.setSid? = some sid)
    (hr : findAttrpathRoot d.target.setValues k = none)
    (hb : findBinding d.target.setValues k = some (.bind bid nm ne val bf af)) :
    removeValue p d = (.ok (), d.updSet sid (eraseBothF bid)) := by
  rw [removeValue_plain_single p k d hnt hsp hf hr _ hb, setDelItem_apply _ _ sid _ _ _ _ _ _ hs hb]

theorem set_attrpath_leaf (d : Doc) (p : Text) (segs : List Text) (v : Node) (lid : Nat) (nm : Text)
    (ne : Bool) (val : Node) (bf af : Payload)
    (hnt : d.noTarget = none) (hsp : splitScopeNpath p = .ok none)
    (hf : formatNPath currentAnchor p = .ok segs)
    (hl : findAttrpathLeaf d.target segs = some (.bind lid nm ne val bf af)) :
    setValue p (.one v) d = (.ok (), d.updBind lid v) := by
  rw [setValue_plain p v d hnt hsp]
  unfold setValueInAttrset
  rw [hf]
  cases segs with
  | nil => simp [findAttrpathLeaf, walkAttrpathStack] at hl
  | cons s0 rest =>
    cases hs : d.target.setSid? with
    | none =>
      exfalso
      cases ht : d.target <;> simp [ht, setSid?] at hs <;>
        cases rest <;> simp [ht, findAttrpathLeaf, walkAttrpathStack, setValues, findAttrpathRoot_spelled] at hl
    | some sid =>
      simp [hl, bindId?]

/-! ## the path hypotheses hold for the canonical spelling of every name -/

/-- the canonical spelling of a single name is an unscoped path … -/
theorem splitScope_renderSeg (n : Text) : splitScopeNpath (renderSeg n) = .ok none := by
  have h : ∀ c cs, renderSeg n = c :: cs → c ≠ '@' := by
    intro c cs hc
    unfold renderSeg at hc
    split at hc
    · rename_i hid
      subst hc
      simp only [isIdent, Bool.and_eq_true] at hid
      intro h; subst h
      exact absurd hid.1 (by decide)
    · injection hc with h1 _
      subst h1; decide
  unfold splitScopeNpath
  cases hr : renderSeg n with
  | nil => simp
  | cons c cs =>
    have hc : (c == '@') = false := by simpa using h c cs hr
    simp [List.takeWhile, hc]

/-- … of exactly one segment: the spelling `set` itself writes for that name. -/
theorem formatNPath_renderSeg (n : Text) :
    formatNPath false (renderSeg n) = .ok [formatAttrName false (segOf n)] := by
  have haddr : parseNPath false (joinWith ['.'] ([n].map renderSeg)) = .ok ([n].map segOf) := by
    unfold parseNPath
    rw [joinWith_renderSeg_ne_nil]
    simp only [Bool.false_eq_true, if_false]
    have h := npRun_path false [] n []
    have hd : ({} : NPState) = { segs := [], buf := [], inQuotes := false, quotedSeg := false, escape := false } := rfl
    rw [hd, h]
    obtain ⟨h1, h2, st', h3, h4⟩ := endState_finalize false [] n []
    simp only [h1, h2, h3, Bool.false_eq_true, if_false]
    simpa using h4
  simp only [List.map, joinWith] at haddr
  simp [formatNPath, haddr, Except.map]



/-! ## frame form of fresh `set` / plain `rm` (target object referenced once) -/

/-- A mutation of an object that occurs only at the target changes the target alone. -/
theorem Doc.updSet_only_target (sid : Nat) (f : Node → Node) (d : Doc) (h : d.sidElsewhere sid = false) :
    d.updSet sid f = { d with target := Node.updSet sid f d.target } := by
  have := Doc.updSet_of_not_hasSet sid f _ h
  simp only [Doc.updSet, Doc.mk.injEq, true_and] at this
  obtain ⟨_, h1, h2, h3, h4, h5⟩ := this
  simp only [Doc.updSet, h1, h2, h3, h4, h5]

theorem set_fresh_frame (d : Doc) (p k : Text) (v : Node) (sid : Nat) (vs o : List Node) (m r : Bool)
    (hnt : d.noTarget = none) (hsp : splitScopeNpath p = .ok none)
    (hf : formatNPath currentAnchor p = .ok [k])
    (ht : d.target = .set sid vs o m r)
    (hr : findAttrpathRoot vs k = none) (hb : findBinding vs k = none)
    (hone : d.sidElsewhere sid = false) :
    setValue p (.one v) d =
      (.ok (), { d with
        target := .set sid (vs ++ [.bind d.next k false v [] []])
          (if o.isEmpty then o else o ++ [.bind d.next k false v [] []]) m r
        next := d.next + 1 }) := by
  rw [Nima.set_fresh_plain d p k v sid hnt hsp hf (by rw [ht]; rfl) (by rw [ht]; exact hr)
    (by rw [ht]; exact hb), Doc.updSet_only_target sid _ d hone, ht]
  simp [Node.updSet, appendBothF]

theorem rm_frame (d : Doc) (p k : Text) (bid : Nat) (nm : Text) (ne : Bool)
    (val : Node) (bf af : Payload) (sid : Nat) (vs o : List Node) (m r : Bool)
    (hnt : d.noTarget = none) (hsp : splitScopeNpath p = .ok none)
    (hf : formatNPath currentAnchor p = .ok [k])
    (ht : d.target = .set sid vs o m r)
    (hr : findAttrpathRoot vs k = none)
    (hb : findBinding vs k = some (.bind bid nm ne val bf af))
    (hone : d.sidElsewhere sid = false) :
    removeValue p d =
      (.ok (), { d with
        target := .set sid (vs.eraseP fun n => n.bindId? == some bid)
          (if o.isEmpty then o else o.eraseP fun n => n.isBind && n.bindId? == some bid) m r }) := by
  rw [Nima.rm_plain d p k bid nm ne val bf af sid hnt hsp hf (by rw [ht]; rfl) (by rw [ht]; exact hr)
    (by rw [ht]; exact hb), Doc.updSet_only_target sid _ d hone, ht]
  simp [Node.updSet, eraseBothF]

theorem find?_eraseP_none {α} (p q : α → Bool) : ∀ (l : List α), l.find? p = none → (l.eraseP q).find? p = none := by
  intro l h
  rw [List.find?_eq_none] at h ⊢
  intro x hx
  exact h x (List.mem_of_mem_eraseP hx)

/-- `rm k` then `set k val` with the removed value: the name is bound to the value again — as a NEW
    binding at the end of the set, with empty trivia. -/
theorem rm_set_rebinds (d : Doc) (p k : Text) (bid : Nat) (nm : Text) (ne : Bool)
    (val : Node) (bf af : Payload) (sid : Nat) (vs o : List Node) (m r : Bool)
    (hnt : d.noTarget = none) (hsp : splitScopeNpath p = .ok none)
    (hf : formatNPath currentAnchor p = .ok [k])
    (ht : d.target = .set sid vs o m r)
    (hr : findAttrpathRoot vs k = none)
    (hb : findBinding vs k = some (.bind bid nm ne val bf af))
    (hone : d.sidElsewhere sid = false)
    (huniq : findBinding (vs.eraseP fun n => n.bindId? == some bid) k = none) :
    setValue p (.one val) (removeValue p d).2 =
      (.ok (), { d with
        target := .set sid ((vs.eraseP fun n => n.bindId? == some bid) ++ [.bind d.next k false val [] []])
          (if (if o.isEmpty then o else o.eraseP fun n => n.isBind && n.bindId? == some bid).isEmpty
           then (if o.isEmpty then o else o.eraseP fun n => n.isBind && n.bindId? == some bid)
           else (if o.isEmpty then o else o.eraseP fun n => n.isBind && n.bindId? == some bid) ++
             [.bind d.next k false val [] []]) m r
        next := d.next + 1 }) := by
  rw [rm_frame d p k bid nm ne val bf af sid vs o m r hnt hsp hf ht hr hb hone]
  dsimp only
  have key := set_fresh_frame
    { d with target := (.set sid (vs.eraseP fun n => n.bindId? == some bid)
        (if o.isEmpty then o else o.eraseP fun n => n.isBind && n.bindId? == some bid) m r) }
    p k val sid _ _ m r hnt hsp hf rfl
    (find?_eraseP_none _ _ vs hr) huniq (by simpa [Doc.sidElsewhere] using hone)
  dsimp only at key
  rw [key]


end Nima
