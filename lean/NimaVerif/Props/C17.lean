import NimaVerif.Lemmas.Paths
import NimaVerif.Gen.Paths
/-!
# C17 — imports resolve relative to the importing file, whatever the working directory

Property theorems only (helper lemmas: `Lemmas/Paths.lean`; model: `Model/Paths.lean`).

* `implLookup fs cwd entry k ks` is the model of `parse_file(entry)[k][k1][k2]…` run with working
  directory `cwd`: it carries what the code carries — the path `parse_file` was called with *as
  spelled* (possibly relative, possibly with `..`), captured in every path literal at parse time —
  and hands uncollapsed pure paths to the OS view (`FS.locate`: a physical walk from `cwd`).
* `specFrom fs home cwd entry k ks` is the SPEC: files are identified by their canonical location;
  a literal in the file at `file` is resolved from the directory `file.dropLast`, an absolute
  literal from the root, `<…>` is a `ValueError`, and `~/x` is Nix's home-relative path when
  `home = some h` (with `home = none` it is read like `./~/x`, which is what the code does).

All statements quantify over every filesystem (any number of files and directories, any depth),
every working directory, every spelling of the entry path and every key list (unbounded).
`FS` has no symlink constructor: "no symlinks" is built into the type (assumption `NoSymlinks`).
-/
namespace Nima.C17

/-! ## Translator tie: `NixPath.resolved_path` and the plumbing around it are what the model says. -/

theorem tie_resolved_path : Gen.resolvedPathRecipe = some recipeModel := by decide
theorem tie_plumbing : Gen.plumbing = some plumbingModel := by decide

/-- The hand-written `resolvedPath` is the interpreter of `recipeModel` (so the tie above is about
    the function the theorems speak of). -/
theorem recipe_sound (t : Text) (src : Option PPath) (cwd : PPath) :
    recipeModel.eval t src cwd = resolvedPath t src := by
  have hpre : (['<'] : Text).isPrefixOf t = (t.head? == some '<') := by
    cases t with
    | nil => rfl
    | cons c cs => simp [List.isPrefixOf, Bool.beq_comm]
  have hsuf : (['>'] : Text).reverse.isPrefixOf t.reverse = (t.getLast? == some '>') := by
    rw [← List.head?_reverse]
    cases t.reverse with
    | nil => rfl
    | cons c cs => simp [List.isPrefixOf, Bool.beq_comm]
  unfold resolvedPath isAngle
  simp only [Recipe.eval, recipeModel, Recipe.runGuards, PCond.eval, PExpr.eval, hpre, hsuf]
  cases h1 : (t.head? == some '<') <;> cases h2 : (t.getLast? == some '>') <;>
    cases src <;> cases h3 : (parsePath t).abs <;> simp

/-! ## 1. The refinement: what the code computes is resolution relative to the importing file. -/

/-- Invariant of an import chain: the `source_path` the code carries (as spelled) is located by the
    OS, from the working directory, at the canonical file the spec has reached. Under it every
    further lookup agrees, for any number of further hops. -/
theorem implGet_refines (fs : FS) (cwd : List Comp) (ks : List Text) :
    ∀ (src : PPath) (file : List Comp) (v : Val), fs.locate cwd src = .ok file →
      implGet fs cwd (some src) v ks = specGet fs none file v ks := by
  induction ks with
  | nil => intro src file v _; cases v <;> simp [implGet, specGet]
  | cons k ks ih =>
    intro src file v hloc
    cases v with
    | lit n => simp [implGet, specGet]
    | set bs =>
      simp only [implGet, specGet]
      cases getKey bs k with
      | error e => rfl
      | ok v => exact ih src file v hloc
    | imp a =>
      simp only [implGet, specGet]
      cases hra : resolveArg a with
      | paren b => rfl
      | other => rfl
      | path t =>
        simp only [resolvedPath, specTarget]
        by_cases hang : isAngle t = true
        · simp [hang]
        · simp only [hang, Bool.false_eq_true, if_false]
          -- the two targets coincide
          have htarget : ∀ r : PPath, r = parsePath t →
              fs.locate cwd (if !r.abs then src.parent.join r else r) =
              fs.locateFrom (if r.abs then [] else file.dropLast) r.comps := by
            intro r _
            cases hab : r.abs with
            | true => simp [FS.locate, hab]
            | false =>
              simp only [Bool.not_false, if_true, PPath.join, hab, Bool.false_eq_true, if_false,
                FS.locate, PPath.parent]
              exact fs.hop _ src.comps file hloc r.comps
          have hsplit : (if !(parsePath t).abs then (Except.ok (src.parent.join (parsePath t)) : Except Err PPath)
              else .ok (parsePath t)) =
              .ok (if !(parsePath t).abs then src.parent.join (parsePath t) else parsePath t) := by
            split <;> rfl
          rw [hsplit]
          simp only
          have ht := htarget (parsePath t) rfl
          unfold enterFile
          rw [ht]
          cases hl : fs.locateFrom (if (parsePath t).abs then [] else file.dropLast) (parsePath t).comps with
          | error e => rfl
          | ok n =>
            simp only [specEnter]
            cases topSet (fs.content n) with
            | error e => rfl
            | ok bs =>
              simp only
              cases getKey bs k with
              | error e => rfl
              | ok v =>
                simp only
                exact ih _ n v (by rw [ht, hl])

/-- **Main theorem (full strength for `./`, `../`, child, sibling, parent and absolute literals and
    for `<…>`; `~/` read the way the code reads it).** For every filesystem, working directory,
    entry spelling and key list, the code's answer is the spec's answer: each hop is resolved in
    the directory of the file that contains the literal; errors included (same class, same hop). -/
theorem lookup_relative_to_importing_file (fs : FS) (cwd : List Comp) (entry k : Text) (ks : List Text) :
    implLookup fs cwd entry k ks = specFrom fs none cwd entry k ks := by
  simp only [implLookup, specFrom, enterFile, specLookup, specEnter]
  cases hl : fs.locate cwd (parsePath entry) with
  | error e => rfl
  | ok file =>
    simp only
    cases topSet (fs.content file) with
    | error e => rfl
    | ok bs =>
      simp only
      cases getKey bs k with
      | error e => rfl
      | ok v => exact implGet_refines fs cwd ks _ file v hl

/-! ## 2. Corollaries: the working directory and the spelling of the entry path do not matter. -/

/-- Two (working directory, entry spelling) pairs that the OS locates at the same file — or that
    both fail — give the same result for every key list. -/
theorem cwd_and_spelling_independent (fs : FS) (cwd₁ cwd₂ : List Comp) (e₁ e₂ k : Text) (ks : List Text)
    (h : fs.locate cwd₁ (parsePath e₁) = fs.locate cwd₂ (parsePath e₂)) :
    implLookup fs cwd₁ e₁ k ks = implLookup fs cwd₂ e₂ k ks := by
  rw [lookup_relative_to_importing_file, lookup_relative_to_importing_file]
  unfold specFrom
  rw [h]

/-- An absolute entry path gives the same result under every working directory. -/
theorem cwd_independent_absolute (fs : FS) (cwd₁ cwd₂ : List Comp) (e k : Text) (ks : List Text)
    (habs : (parsePath e).abs = true) :
    implLookup fs cwd₁ e k ks = implLookup fs cwd₂ e k ks := by
  apply cwd_and_spelling_independent
  simp [FS.locate, habs]

/-- The result depends on the entry only through the file it names: in particular the relative
    and the absolute spelling of one file agree. -/
theorem result_is_function_of_located_file (fs : FS) (cwd : List Comp) (e k : Text) (ks : List Text)
    (file : List Comp) (h : fs.locate cwd (parsePath e) = .ok file) :
    implLookup fs cwd e k ks = specLookup fs none file k ks := by
  rw [lookup_relative_to_importing_file]
  unfold specFrom
  rw [h]

/-! ## 3. Error classes. -/

/-- A non-path import argument (after parentheses are stripped) raises `TypeError` as soon as a
    key is looked up through it — no file is read. -/
theorem nonpath_argument_type_error (fs : FS) (cwd : List Comp) (src : Option PPath) (a : Arg)
    (k : Text) (ks : List Text) (h : ∀ t, resolveArg a ≠ .path t) :
    implGet fs cwd src (.imp a) (k :: ks) = .error .type := by
  cases hra : resolveArg a with
  | path t => exact absurd hra (h t)
  | paren b => simp [implGet, hra]
  | other => simp [implGet, hra]

/-- An angle-bracket path raises `ValueError` — no file is read. -/
theorem angle_path_value_error (fs : FS) (cwd : List Comp) (src : Option PPath) (a : Arg) (t : Text)
    (k : Text) (ks : List Text) (h : resolveArg a = .path t) (hang : isAngle t = true) :
    implGet fs cwd src (.imp a) (k :: ks) = .error .value := by
  simp [implGet, h, resolvedPath, hang]

/-- A literal whose target (relative to the importing file) is not a readable regular file raises
    an `OSError`; in particular the lookup does not fall back to some other file. -/
theorem missing_file_os_error (fs : FS) (cwd : List Comp) (src : PPath) (file : List Comp)
    (a : Arg) (t : Text) (k : Text) (ks : List Text) (e : Err)
    (hloc : fs.locate cwd src = .ok file) (h : resolveArg a = .path t) (hang : isAngle t = false)
    (hmiss : specTarget fs none file t = .error e) :
    implGet fs cwd (some src) (.imp a) (k :: ks) = .error .os := by
  rw [implGet_refines fs cwd (k :: ks) src file _ hloc]
  simp only [specGet, h, hmiss]
  congr 1
  rw [specTarget_none fs file t hang] at hmiss
  exact fs.locateFrom_error _ _ _ hmiss

/-- "Never another file": when a hop succeeds, the value comes out of exactly the file the spec
    names, and that file is the lexical normal form of `<directory of the importing file>/<literal>`
    (what Nix itself computes for the literal). -/
theorem hop_reads_the_lexical_target (fs : FS) (file : List Comp) (t : Text) (n : List Comp)
    (hang : isAngle t = false) (h : specTarget fs none file t = .ok n) :
    n = lexNorm (if (parsePath t).abs then [] else file.dropLast) (parsePath t).comps ∧
    fs.isFile n = true := by
  rw [specTarget_none fs file t hang] at h
  exact ⟨fs.locateFrom_lex _ _ _ h, (fs.locateFrom_ok _ _ _ h).2.1⟩

/-! ## 4. FULL statement with Nix's reading of `~/x` — false of the code. -/

/-- The full statement: as the main theorem, and `~/x` means `<home>/x`. -/
def Full : Prop :=
  ∀ (fs : FS) (home cwd : List Comp) (entry k : Text) (ks : List Text),
    implLookup fs cwd entry k ks = specFrom fs (some home) cwd entry k ks

def cexFS : FS where
  files := [
    (["w".toList, "a.nix".toList], .attrs [("h".toList, .imp (.path "~/h.nix".toList))]),
    (["w".toList, "~".toList, "h.nix".toList], .attrs [("v".toList, .lit 1)]),
    (["home".toList, "h.nix".toList], .attrs [("v".toList, .lit 2)])]
  dirs := []

/-- Counterexample (open known finding C17-home-literal): `import ~/h.nix` in `/w/a.nix` reads
    `/w/~/h.nix` (a directory literally named `~` next to the importing file), not `/home/h.nix`.
    Replayed on the implementation by the check. -/
theorem cex_home : ¬ Full := by
  intro h
  have := h cexFS ["home".toList] ["w".toList] "a.nix".toList "h".toList ["v".toList]
  revert this
  decide

/-- What does hold with Nix's reading of `~/`: the full statement on every filesystem that
    contains no `~/` literal. -/
theorem lookup_partial (fs : FS) (home cwd : List Comp) (entry k : Text) (ks : List Text)
    (hno : fs.noHome = true) :
    implLookup fs cwd entry k ks = specFrom fs (some home) cwd entry k ks := by
  rw [lookup_relative_to_importing_file]
  have key : ∀ (ks : List Text) (file : List Comp) (v : Val), v.noHome = true →
      specGet fs none file v ks = specGet fs (some home) file v ks := by
    intro ks
    induction ks with
    | nil => intro file v _; cases v <;> simp [specGet]
    | cons k ks ih =>
      intro file v hv
      cases v with
      | lit n => simp [specGet]
      | set bs =>
        simp only [specGet, getKey]
        cases hl : bs.lookup k with
        | none => rfl
        | some v =>
          simp only
          exact ih file v (noHomeL_lookup bs k v (by simpa [Val.noHome] using hv) hl)
      | imp a =>
        simp only [specGet]
        cases hra : resolveArg a with
        | paren b => rfl
        | other => rfl
        | path t =>
          have hh : isHome t = false := resolveArg_noHome a t (by simpa [Val.noHome] using hv) hra
          have hst : specTarget fs none file t = specTarget fs (some home) file t := by
            simp [specTarget, hh]
          simp only [hst]
          cases specTarget fs (some home) file t with
          | error e => rfl
          | ok n =>
            simp only [specEnter]
            have hc := fs.content_noHome hno n
            cases hcn : fs.content n with
            | notSet => rfl
            | attrs bs =>
              rw [hcn] at hc
              simp only [topSet, getKey]
              cases hl : bs.lookup k with
              | none => rfl
              | some v =>
                simp only
                exact ih n v (noHomeL_lookup bs k v (by simpa [Content.noHome] using hc) hl)
  unfold specFrom specLookup specEnter
  cases fs.locate cwd (parsePath entry) with
  | error e => rfl
  | ok file =>
    simp only
    have hc := fs.content_noHome hno file
    cases hcn : fs.content file with
    | notSet => rfl
    | attrs bs =>
      rw [hcn] at hc
      simp only [topSet, getKey]
      cases hl : bs.lookup k with
      | none => rfl
      | some v =>
        simp only
        exact key ks file v (noHomeL_lookup bs k v (by simpa [Content.noHome] using hc) hl)

/-! ## Non-vacuity: a layout with three directories, a chain through child, parent and absolute
literals, looked up from two working directories with three spellings of the entry. -/

def demoFS : FS where
  files := [
    (["r".toList, "a.nix".toList], .attrs [
      ("v".toList, .lit 1),
      ("i".toList, .imp (.paren (.path "./sub/b.nix".toList))),
      ("n".toList, .imp (.path "<nixpkgs>".toList)),
      ("s".toList, .imp .other),
      ("m".toList, .imp (.path "./nope/../sub/b.nix".toList))]),
    (["r".toList, "sub".toList, "b.nix".toList], .attrs [
      ("w".toList, .lit 3),
      ("up".toList, .imp (.path "../a.nix".toList)),
      ("d".toList, .imp (.path "deep/c.nix".toList))]),
    (["r".toList, "sub".toList, "deep".toList, "c.nix".toList], .attrs [
      ("z".toList, .lit 9),
      ("back".toList, .imp (.path "/r/sub/../a.nix".toList))])]
  dirs := [["r".toList, "empty".toList]]

example : demoFS.noHome = true := by decide
example : implLookup demoFS ["r".toList] "a.nix".toList "i".toList ["d".toList, "back".toList, "i".toList, "w".toList]
    = .ok (.lit 3) := by decide
example : implLookup demoFS ["r".toList, "sub".toList, "deep".toList] "../../a.nix".toList "i".toList
    ["d".toList, "back".toList, "i".toList, "w".toList] = .ok (.lit 3) := by decide
example : implLookup demoFS ["r".toList, "empty".toList] "/r/sub/deep/../../a.nix".toList "i".toList
    ["up".toList, "v".toList] = .ok (.lit 1) := by decide
example : demoFS.locate ["r".toList, "sub".toList] (parsePath "../a.nix".toList) =
    demoFS.locate ["r".toList, "empty".toList] (parsePath "/r/a.nix".toList) := by decide
example : implLookup demoFS ["r".toList] "a.nix".toList "n".toList ["x".toList] = .error .value := by decide
example : implLookup demoFS ["r".toList] "a.nix".toList "s".toList ["x".toList] = .error .type := by decide
example : implLookup demoFS ["r".toList] "a.nix".toList "m".toList ["w".toList] = .error .os := by decide
example : implLookup demoFS ["r".toList] "sub/../sub".toList "w".toList [] = .error .os := by decide

end Nima.C17
