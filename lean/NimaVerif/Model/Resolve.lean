import NimaVerif.Model.Scope
import NimaVerif.Model.NPath
/-!
L7 (b): `implResolve` — what `parse(text)[k1]…[kn].value` does, as a transliteration of

* `expressions/identifier.py`: `Identifier.value`, `_resolve_identifier` (with `_resolve_binding`,
  `_inherit_matches`, `_resolve_inherited_binding` and the two `visited` sets),
* `resolution.py`: `scopes_for_owner`, `function_call_scope`, `attach_resolution_context`,
  `set_resolution_context` (the store is `St`, see Model/Scope.lean),
* `expressions/source_code.py`: `NixSourceCode.__getitem__` / `_resolve_target_set`,
* `expressions/set.py`: `AttributeSet.__getitem__`, `expressions/with_statement.py`:
  `WithStatement.__getitem__`.

The model is bug-compatible: it describes the code that exists. Nix's own scoping rules are
`specResolve` in Model/ResolveSpec.lean; the two are compared in Props/C10.lean.

State: every function returns the store also on failure (`Except Fail α × St`), because the
Python code writes contexts before it raises and a later traversal of the same document reads them.

Fuel: `_resolve_identifier` recurses (a) into the value of the binding it found, (b) outwards for
`inherit x;`, (c) into the source set of `inherit (s) x;` and (d) — through
`from_expression.value` — into a NESTED resolution that starts with fresh `visited` sets.
(a)–(c) grow one of the visited sets, (d) does not: there is no measure, and
`rec { inherit (b) a; inherit (a) b; x = a; }` recurses until `RecursionError`
(`C10.cex_inherit_loop`). The model therefore takes a fuel; running out of it is the outcome
`Fail.fuel`, which corresponds to `RecursionError` in CPython.
The same fuel bounds `_resolve_target_set` (recursion through resolved identifiers, guarded by its
own `visited` set in Python) and nested `with` bodies in `__getitem__`; those are bounded by the
size of the program, so they never run out for `fuel ≥ size`.

Entry points for other models (C11 edits through a reference): `resolveId fuel st name chain [] []`
returns the resolved value TOGETHER with the id of the defining binding (`RR.ok val bid`), which is
what `Identifier.value.setter` assigns to; `valueOfWith (resolveId fuel) st e` is `e.value`;
`implTraverse fuel prog st path` is one `src[…]….value` and returns the store for the next
traversal of the same document; `scopesForOwner` / `getitemSet` are `scopes_for_owner` /
`AttributeSet.__getitem__`. Nothing here depends on Mathlib or on the spec.
-/
namespace Nima.Scope
open Nima

/-- Result of `_resolve_identifier`: `(resolved value, defining binding)` or an exception. -/
inductive RR where
  | ok (val : Expr) (bid : Nat)
  | err (f : Fail)

/-- `_resolve_identifier(identifier, scopes, visited, inherit_visited)` with the store threaded. -/
abbrev Resolver := St → Text → Chain → List Nat → List Nat → RR × St

/-- `Identifier.value`: look the context up, resolve with fresh visited sets. -/
def valueOfWith (k : Resolver) (st : St) (e : Expr) : RR × St :=
  match e.core with
  | .ref id n =>
    match st.get id with
    | none => (.err (.res .noContext), st)
    | some ch => k st n ch [] []
  | _ => (.err .notIdent, st)

/-- `_resolve_binding(binding, scope_chain)` -/
def resolveBinding (k : Resolver) (st : St) (bid : Nat) (val : Expr) (scopeChain : Chain)
    (vis ivis : List Nat) : RR × St :=
  if vis.contains bid then (.err (.res .cycle), st)
  else
    let st1 := st.set (nodeId val) scopeChain
    match val.core with
    | .ref _ n => k st1 n scopeChain (bid :: vis) ivis
    | _ => (.ok val bid, st1)

/-- `_resolve_inherited_binding(inherit_expr, scope_chain, outer_chain)` -/
def resolveInherited (k : Resolver) (st : St) (name : Text) (item : Item)
    (scopeChain outerChain : Chain) (vis ivis : List Nat) : RR × St :=
  match item with
  | .inh iid _ =>
    if ivis.contains iid then (.err (.res .cycleInherit), st)
    else if outerChain.isEmpty then (.err (.res .unbound), st)
    else k st name outerChain vis (iid :: ivis)
  | .inhFrom iid _ src =>
    if ivis.contains iid then (.err (.res .cycleInherit), st)
    else
      -- `source = from_expression`, resolved through `.value` when it is an identifier
      let r : RR × St :=
        match src.core with
        | .ref sid _ => valueOfWith k (st.set sid scopeChain) src
        | _ => (.ok src 0, st)
      match r with
      | (.err f, st1) => (.err f, st1)
      | (.ok source _, st1) =>
        match source.core with
        | .set sid _ items =>
          let newChain := scopeChain ++ [items]
          k (st1.set sid newChain) name newChain vis (iid :: ivis)
        | _ => (.err (.res .inheritSrc), st1)
  | .bind .. => (.err (.res .unbound), st)

/-- The `for index, scope in enumerate(ordered_scopes)` loop; `rev` is the chain innermost first. -/
def scan (k : Resolver) (name : Text) (vis ivis : List Nat) : St → List Scope → RR × St
  | st, [] => (.err (.res .unbound), st)
  | st, s :: outerRev =>
    let scopeChain := (s :: outerRev).reverse
    let outerChain := outerRev.reverse
    match findBind name s with
    | some (bid, v) => resolveBinding k st bid v scopeChain vis ivis
    | none =>
      match findQuoted name s with
      | some (bid, v) => resolveBinding k st bid v scopeChain vis ivis
      | none =>
        match findInherit name s with
        | some it => resolveInherited k st name it scopeChain outerChain vis ivis
        | none => scan k name vis ivis st outerRev

/-- `_resolve_identifier` -/
def resolveId : Nat → Resolver
  | 0 => fun st _ _ _ _ => (.err .fuel, st)
  | f + 1 => fun st name chain vis ivis => scan (resolveId f) name vis ivis st chain.reverse

/-! ## Scope chains: `scopes_for_owner`, `function_call_scope` -/

/-- `owner.scope` (if non-empty) followed by the non-empty layers of `owner.scope_state.stack`. -/
def ownLayers (e : Expr) : List Scope := e.layers.filter (fun l => !l.isEmpty)

def isParenCore : Expr → Bool
  | .paren .. => true
  | .letE _ body => isParenCore body
  | _ => false

/-- `while isinstance(x, Parenthesis): x = x.value` -/
def stripParens : Expr → Expr
  | .paren _ inner => stripParens inner
  | .letE items body => if isParenCore body then stripParens body else .letE items body
  | e => e

/-- `if isinstance(x, Parenthesis): x = x.value` -/
def unparen1 (e : Expr) : Expr :=
  match e.core with
  | .paren _ inner => inner
  | _ => e

/-- the loop over formals in `function_call_scope`: the supplied binding (same object) or a fresh
    `Binding(name, default)`; `none` when a required formal is missing. -/
def buildParams (provided : Scope) : List Formal → Option Scope
  | [] => some []
  | .req n :: fs =>
    match findBind n provided with
    | some (bid, v) => (buildParams provided fs).map (Item.bind bid n v :: ·)
    | none => none
  | .opt n d :: fs =>
    match findBind n provided with
    | some (bid, v) => (buildParams provided fs).map (Item.bind bid n v :: ·)
    | none => (buildParams provided fs).map (Item.bind (dfltBindId (nodeId d)) n d :: ·)

/-- `for item in param_scope: set_resolution_context(item.value, scope_chain)` -/
def setAll (st : St) (chain : Chain) : Scope → St
  | [] => st
  | .bind _ _ v :: rest => setAll (st.set (nodeId v) chain) chain rest
  | _ :: rest => setAll st chain rest

/-- `function_call_scope(call, inherited_scopes=…)` -/
def functionCallScope (k : Resolver) (st : St) (call : Expr) (inherited : Chain) :
    Except Fail (Option Scope) × St :=
  match call.core with
  | .app _ fn arg =>
    let base : Chain := if inherited.isEmpty then ownLayers call else inherited
    match (unparen1 fn).core with
    | .lamP _ formals _ =>
      -- `_resolve_argument_to_attrset`
      let a := stripParens arg
      let r : RR × St :=
        match a.core with
        | .ref aid _ => valueOfWith k (st.set aid base) a
        | _ => (.ok a 0, st)
      match r with
      | (.err f, st1) => (.error f, st1)
      | (.ok v _, st1) =>
        match v.core with
        | .set _ _ items =>
          match buildParams items formals with
          | none => (.error (.res .missingParam), st1)
          | some ps => (.ok (some ps), setAll st1 (base ++ [ps]) ps)
        | _ => (.error (.res .callArg), st1)
    | .lam1 lid p _ =>
      let a := unparen1 arg
      let r : RR × St :=
        match a.core with
        | .ref aid _ =>
          if base.isEmpty then (.ok a 0, st) else valueOfWith k (st.set aid base) a
        | _ => (.ok a 0, st)
      match r with
      | (.err f, st1) => (.error f, st1)
      | (.ok v _, st1) =>
        let ps : Scope := [.bind (simpleBindId lid) p v]
        (.ok (some ps), setAll st1 (base ++ [ps]) ps)
    | _ => (.ok none, st)
  | _ => (.ok none, st)

/-- The order in which `scopesForOwner` (below) builds the chain; the translator re-reads the same
    order from `scopes_for_owner` in the source (`C10.tie_chain_order`). -/
def chainOrder : List String := ["inherited", "own", "rec", "with", "call"]

/-- `scopes_for_owner(owner)` -/
def scopesForOwner (k : Resolver) (st : St) (owner : Expr) : Except Fail Chain × St :=
  let inherited : Chain := (st.get (nodeId owner)).getD []
  let scopes0 := inherited ++ ownLayers owner
  -- `if isinstance(owner, AttributeSet) and owner.recursive`
  let p : Chain × St :=
    match owner.core with
    | .set sid true items => (scopes0 ++ [items], st.set sid scopes0)
    | _ => (scopes0, st)
  let scopes1 := p.1
  let st1 := p.2
  match owner.core with
  | .withE _ env _ =>
    match env.core with
    | .set eid _ items => (.ok (scopes1 ++ [items]), st1.set eid scopes1)
    | .ref eid _ =>
      if scopes1.isEmpty then (.ok scopes1, st1)
      else
        match valueOfWith k (st1.set eid scopes1) env with
        | (.err f, st3) => (.error f, st3)
        | (.ok v _, st3) =>
          match v.core with
          | .set vid _ items => (.ok (scopes1 ++ [items]), st3.set vid scopes1)
          | _ => (.error (.res .withEnv), st3)
    | _ => (.error (.res .withEnv), st1)
  | .app .. =>
    match functionCallScope k st1 owner scopes1 with
    | (.error f, st2) => (.error f, st2)
    | (.ok none, st2) => (.ok scopes1, st2)
    | (.ok (some ps), st2) => (.ok (scopes1 ++ [ps]), st2)
  | _ => (.ok scopes1, st1)

/-! ## Traversal: `__getitem__` of sets, `with`, and the document -/

def itemId : Item → Nat
  | .bind id _ _ => id
  | .inh id _ => id
  | .inhFrom id _ _ => id

/-- the `for binding in self.values` loop of `AttributeSet.__getitem__`: the FIRST `Binding` whose
    name token denotes the same attribute as the key (`_same_attr_name(binding.name, key)`,
    `sameName` of Model/NPath.lean) — `doc["a"]` finds `"a" = …;` and `doc["\"a\""]` finds `a = …;`.
    `Scope.get_binding` (identifier resolution, `findBind`) still compares by spelling. -/
def findBindKey (key : Text) : Scope → Option (Nat × Expr)
  | [] => none
  | .bind id n v :: rest => if sameName n key then some (id, v) else findBindKey key rest
  | _ :: rest => findBindKey key rest

/-- `AttributeSet.__getitem__(self, key)` for a key that `_split_attrpath` leaves in one piece (no
    `.` outside quotes and `${…}`): the binding by what its name denotes, else the `inherit` clause
    naming the key as spelled (`name.name == key`), else `KeyError` (the walk over the segments of
    a dotted key is not reached). -/
def getitemSet (k : Resolver) (st : St) (self : Expr) (key : Text) : Except Fail Expr × St :=
  match self.core with
  | .set _ _ items =>
    match findBindKey key items with
    | some (_, v) =>
      -- attach_resolution_context(value, owner=self)
      match scopesForOwner k st self with
      | (.error f, st1) => (.error f, st1)
      | (.ok ch, st1) => (.ok v, st1.set (nodeId v) ch)
    | none =>
      match findInherit key items with
      | some it =>
        -- a copy of the name identifier, with the set itself as innermost scope
        match scopesForOwner k st self with
        | (.error f, st1) => (.error f, st1)
        | (.ok ch, st1) =>
          let tid := inhCopyId (itemId it)
          (.ok (.ref tid key), st1.set tid (ch ++ [items]))
      | none => (.error .key, st)
  | _ => (.error .type, st)

/-- `obj[key]` for the objects a traversal can stand on (`AttributeSet`, `WithStatement`);
    everything else is not subscriptable. -/
def getitem (k : Resolver) : Nat → St → Expr → Text → Except Fail Expr × St
  | 0, st, _, _ => (.error .fuel, st)
  | f + 1, st, self, key =>
    match self.core with
    | .set .. => getitemSet k st self key
    | .withE _ _ body =>
      -- `_attach_body_context`, then `body[key]` if the body has `__getitem__`
      match scopesForOwner k st self with
      | (.error e, st1) => (.error e, st1)
      | (.ok ch, st1) =>
        let st2 := st1.set (nodeId body) ch
        match body.core with
        | .set .. => getitem k f st2 body key
        | .withE .. => getitem k f st2 body key
        | _ => (.error .type, st2)
    | _ => (.error .type, st)

/-- the argument handling shared by the `FunctionDefinition` and `FunctionCall` cases of
    `_resolve_target_set`: `some set` when the (resolved) argument is an attribute set. -/
def targetFromArgument (k : Resolver) (st : St) (arg : Expr) (scopes : Chain) :
    Except Fail (Option Expr) × St :=
  let a := stripParens arg
  match a.core with
  | .ref aid _ =>
    if scopes.isEmpty then (.ok none, st)
    else
      match valueOfWith k (st.set aid scopes) a with
      | (.err f, st1) => (.error f, st1)
      | (.ok v _, st1) =>
        match v.core with
        | .set .. => (.ok (some v), st1)
        | _ => (.ok none, st1)
  | .set .. => (.ok (some a), st)
  | _ => (.ok none, st)

/-- `resolve_from_expr(target, scopes)` inside `_resolve_target_set`; `scopes? = none` is the
    first call (`scopes is None`). `seen` is its `visited` set. -/
def resolveFromExpr (k : Resolver) : Nat → St → Expr → Option Chain → List Nat →
    Except Fail Expr × St
  | 0, st, _, _, _ => (.error .fuel, st)
  | f + 1, st, target, scopes?, seen =>
    if seen.contains (nodeId target) then (.error .value, st)
    else
      let seen' := nodeId target :: seen
      let r : Except Fail Chain × St :=
        match scopes? with
        | some s => (.ok s, st)
        | none => scopesForOwner k st target
      match r with
      | (.error e, st1) => (.error e, st1)
      | (.ok scopes, st1) =>
        match target.core with
        | .set .. => (.ok target, st1)
        | .paren _ inner => resolveFromExpr k f st1 inner (some scopes) seen'
        | .withE _ _ body =>
          -- body_scopes = scopes_for_owner(target) or scopes
          match scopesForOwner k st1 target with
          | (.error e, st2) => (.error e, st2)
          | (.ok own, st2) =>
            let bodyScopes := if own.isEmpty then scopes else own
            -- attach_resolution_context(target.body, owner=target)
            match scopesForOwner k st2 target with
            | (.error e, st3) => (.error e, st3)
            | (.ok own2, st3) =>
              resolveFromExpr k f (st3.set (nodeId body) own2) body (some bodyScopes) seen'
        | .ref tid _ =>
          -- identifier_scopes = scopes or scopes_for_owner(target)
          let r2 : Except Fail Chain × St :=
            if scopes.isEmpty then scopesForOwner k st1 target else (.ok scopes, st1)
          match r2 with
          | (.error e, st2) => (.error e, st2)
          | (.ok idScopes, st2) =>
            match valueOfWith k (st2.set tid idScopes) target with
            | (.err e, st3) => (.error e, st3)
            | (.ok v _, st3) => resolveFromExpr k f st3 v (some idScopes) seen'
        | .lam1 _ _ body | .lamP _ _ body =>
          let viaArg : Except Fail (Option Expr) × St :=
            match body.core with
            | .app _ _ arg => targetFromArgument k st1 arg scopes
            | _ => (.ok none, st1)
          match viaArg with
          | (.error e, st2) => (.error e, st2)
          | (.ok (some s), st2) => (.ok s, st2)
          | (.ok none, st2) => resolveFromExpr k f st2 body (some scopes) seen'
        | .app _ _ arg =>
          match targetFromArgument k st1 arg scopes with
          | (.error e, st2) => (.error e, st2)
          | (.ok (some s), st2) => (.ok s, st2)
          | (.ok none, st2) => (.error .value, st2)
        | _ => (.error .value, st1)

/-- Where a traversal stands: on the document, or on an object. -/
inductive Cur where
  | root
  | at (e : Expr)

/-- One step `cur[key]` or `cur.value`. -/
def stepNav (fuel : Nat) (prog : Expr) (st : St) (cur : Cur) (s : Step) : Except Fail Cur × St :=
  let k := resolveId fuel
  match cur, s with
  | .root, .key key =>
    match resolveFromExpr k fuel st prog none [] with
    | (.error e, st1) => (.error e, st1)
    | (.ok target, st1) =>
      match getitemSet k st1 target key with
      | (.error e, st2) => (.error e, st2)
      | (.ok v, st2) => (.ok (.at v), st2)
  | .root, .deref => (.error .notIdent, st)
  | .at e, .key key =>
    match getitem k fuel st e key with
    | (.error e, st1) => (.error e, st1)
    | (.ok v, st1) => (.ok (.at v), st1)
  | .at e, .deref =>
    match valueOfWith k st e with
    | (.err f, st1) => (.error f, st1)
    | (.ok v _, st1) => (.ok (.at v), st1)

def runSteps (fuel : Nat) (prog : Expr) : St → Cur → List Step → Except Fail Cur × St
  | st, cur, [] => (.ok cur, st)
  | st, cur, s :: rest =>
    match stepNav fuel prog st cur s with
    | (.error e, st1) => (.error e, st1)
    | (.ok cur1, st1) => runSteps fuel prog st1 cur1 rest

/-- One traversal `src[…]…[…].value` starting from store `st`; returns the store for the next. -/
def implTraverse (fuel : Nat) (prog : Expr) (st : St) (path : List Step) : Outcome × St :=
  match runSteps fuel prog st .root path with
  | (.error e, st1) => (.nav e, st1)
  | (.ok .root, st1) => (.nav .notIdent, st1)
  | (.ok (.at e), st1) =>
    match valueOfWith (resolveId fuel) st1 e with
    | (.err .notIdent, st2) => (.nav .notIdent, st2)
    | (.err f, st2) => (.fail f, st2)
    | (.ok v _, st2) => (.bound (nodeId v), st2)

/-- A freshly parsed document has no contexts. -/
def implResolve (fuel : Nat) (prog : Expr) (path : List Step) : Outcome :=
  (implTraverse fuel prog {} path).1

/-- Several traversals of the same document, one after the other (contexts persist). -/
def implHistory (fuel : Nat) (prog : Expr) : St → List (List Step) → List Outcome
  | _, [] => []
  | st, p :: ps =>
    let r := implTraverse fuel prog st p
    r.1 :: implHistory fuel prog r.2 ps

end Nima.Scope
