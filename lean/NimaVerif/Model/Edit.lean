import NimaVerif.Model.Doc
/-!
L6 (b): `set_value` / `remove_value` and the helpers of `cli/manipulations.py`, and the mapping API
of `AttributeSet` (`__getitem__/__setitem__/__delitem__`), as state-keeping functions.

`EditM α = Doc → Except Err α × Doc` **returns the state also on failure**, and the writes are in
the same order as in the Python, so that "a rejected edit leaves the document as it was" (C08) is
a theorem about the second component and not an artefact of `Except` discarding state.
-/
namespace Nima

open Node

/-- computation over the document that keeps the (possibly already mutated) state on failure -/
def EditM (α : Type) := Doc → Except Err α × Doc

namespace EditM
@[inline] def pure' {α} (a : α) : EditM α := fun d => (.ok a, d)
@[inline] def bind' {α β} (m : EditM α) (f : α → EditM β) : EditM β := fun d =>
  match m d with
  | (.ok a, d') => f a d'
  | (.error e, d') => (.error e, d')
instance : Monad EditM where
  pure := pure'
  bind := bind'
@[inline] def throw {α} (e : Err) : EditM α := fun d => (.error e, d)
@[inline] def get : EditM Doc := fun d => (.ok d, d)
@[inline] def modify (f : Doc → Doc) : EditM Unit := fun d => (.ok (), f d)
@[inline] def lift {α} (x : Except Err α) : EditM α := fun d => (x, d)
end EditM
open EditM

/-! ### lookups (pure) -/

/-- How a lookup compares the name token of a binding with the key it looks for. The edit code has
    two comparisons: `NameCmp.nix` (`_same_attr_name`: bare and quoted spellings of one Nix name are
    the same name) in `cli/manipulations.py` and `AttributeSet.__*item__`, and `NameCmp.spelled`
    (`item.name == key`) in `Scope.get_binding` and the `let_bindings` scans. The definitions below
    take the comparison as an instance argument; `NameCmp.model` is the code as it is. -/
class NameCmp where
  same : Text → Text → Bool

/-- comparison by spelling (`==`) -/
@[reducible] def NameCmp.spelled : NameCmp := ⟨fun a b => a == b⟩
/-- `_same_attr_name` -/
@[reducible] def NameCmp.nix : NameCmp := ⟨sameName⟩
/-- the comparison `_find_binding` & co. use in the source now -/
@[reducible] def NameCmp.model : NameCmp := NameCmp.nix

/-- `isinstance(n, Binding) and same(n.name, key)` -/
def nameIs [NameCmp] (n : Node) (key : Text) : Bool :=
  match n.bindName? with
  | some nm => NameCmp.same nm key
  | none => false

@[simp] theorem nameIs_spelled (n : Node) (key : Text) :
    @nameIs NameCmp.spelled n key = (n.bindName? == some key) := by
  unfold nameIs
  cases h : n.bindName? with
  | none => simp
  | some nm => simp [NameCmp.same]

section
variable [NameCmp]

/-- `_find_binding(target_set, key)` / the `for binding in self.values` loops: first Binding named `key` -/
def findBinding (vs : List Node) (key : Text) : Option Node :=
  vs.find? fun n => n.isBind && nameIs n key

/-- `_find_named_binding(values, key, nested=…)` -/
def findNamedBinding (vs : List Node) (key : Text) (nested : Option Bool) : Option Node :=
  vs.find? fun n => n.isBind && nameIs n key &&
    (match nested with | none => true | some b => n.bindNested == b)

/-- `_find_attrpath_root` -/
def findAttrpathRoot (vs : List Node) (root : Text) : Option Node :=
  vs.find? fun n => n.isBind && n.bindNested && nameIs n root

omit [NameCmp] in
/-- the three lookups with the comparison by spelling, as they read before `_same_attr_name` -/
theorem findBinding_spelled (vs : List Node) (key : Text) :
    @findBinding NameCmp.spelled vs key = vs.find? fun n => n.isBind && n.bindName? == some key := by
  unfold findBinding; simp only [nameIs_spelled]

omit [NameCmp] in
theorem findNamedBinding_spelled (vs : List Node) (key : Text) (nested : Option Bool) :
    @findNamedBinding NameCmp.spelled vs key nested =
      vs.find? fun n => n.isBind && n.bindName? == some key &&
        (match nested with | none => true | some b => n.bindNested == b) := by
  unfold findNamedBinding; simp only [nameIs_spelled]

omit [NameCmp] in
theorem findAttrpathRoot_spelled (vs : List Node) (root : Text) :
    @findAttrpathRoot NameCmp.spelled vs root =
      vs.find? fun n => n.isBind && n.bindNested && n.bindName? == some root := by
  unfold findAttrpathRoot; simp only [nameIs_spelled]

/-- does an `Inherit` of this set mention `key`? (`AttributeSet.__getitem__`, second branch) -/
def inheritMentions (vs : List Node) (key : Text) : Bool :=
  vs.any fun n => match n with | .inherit _ names => names.contains key | _ => false

/-- `_walk_attrpath_stack`: the (parent set, binding) stack, root first.
    Outer `Except`: raised with `require_root`; inner `Option`: `None`. -/
def walkAttrpathStack (ts : Node) (segs : List Text) (leafNested requireRoot : Bool) :
    Except Err (Option (List (Node × Node))) :=
  match segs with
  | [] => if requireRoot then .error .key else .ok none
  | [_] => if requireRoot then .error .key else .ok none
  | root :: rest =>
    match findAttrpathRoot ts.setValues root with
    | none => if requireRoot then .error .key else .ok none
    | some rootB =>
      match rootB.bindValue? with
      | some (rv@(.set ..)) =>
        let rec go (current : Node) (stack : List (Node × Node)) : List Text →
            Except Err (Option (List (Node × Node)))
          | [] => .ok (some stack)
          | [seg] =>
            match findNamedBinding current.setValues seg (some leafNested) with
            | none => if requireRoot then .error .key else .ok none
            | some b => .ok (some (stack ++ [(current, b)]))
          | seg :: more =>
            match findNamedBinding current.setValues seg (some true) with
            | none => if requireRoot then .error .key else .ok none
            | some b =>
              match b.bindValue? with
              | some (v@(.set ..)) => go v (stack ++ [(current, b)]) more
              | _ => if requireRoot then .error .value else .ok none
        go rv [(ts, rootB)] rest
      | _ => if requireRoot then .error .key else .ok none

/-- `_find_attrpath_leaf` -/
def findAttrpathLeaf (ts : Node) (segs : List Text) : Option Node :=
  match walkAttrpathStack ts segs false false with
  | .ok (some stack) => stack.getLast?.map (·.2)
  | _ => none

/-- `AttributeSet.__getitem__(key)` (value, or KeyError). The `Inherit` branch returns an
    Identifier proxy, which is not an attribute set. -/
def setGetItem (s : Node) (key : Text) : Except Err Node :=
  match findBinding s.setValues key with
  | some b => match b.bindValue? with | some v => .ok v | none => .error .key
  | none =>
    if inheritMentions s.setValues key then .ok (.ident key)
    else match splitAttrpath key with
      | .error _ => .error .key
      | .ok segs =>
        if segs.length ≤ 1 then .error .key
        else
          let rec walk (cur : Node) : List Text → Except Err Node
            | [] => .error .key
            | [seg] => match findBinding cur.setValues seg with
              | some b => match b.bindValue? with | some v => .ok v | none => .error .key
              | none => .error .key
            | seg :: more => match findBinding cur.setValues seg with
              | some b => match b.bindValue? with
                | some (v@(.set ..)) => walk v more
                | _ => .error .key
              | none => .error .key
          walk s segs

/-- `_path_exists_in_attrset` -/
def pathExistsInAttrset (ts : Node) (segs : List Text) : Bool :=
  if segs.isEmpty then false
  else if (findAttrpathLeaf ts segs).isSome then true
  else
    let rec go (cur : Node) : List Text → Bool
      | [] => false
      | [seg] => (findNamedBinding cur.setValues seg (some false)).isSome
      | seg :: more => match findNamedBinding cur.setValues seg (some false) with
        | none => false
        | some b => match b.bindValue? with
          | some (v@(.set ..)) => go v more
          | _ => false
    go ts segs

/-! ### allocation and object mutation -/

def fresh : EditM Nat := fun d => (.ok d.next, { d with next := d.next + 1 })

/-- `values.append(b)` on the set object `sid` -/
def appendValue (sid : Nat) (b : Node) : EditM Unit :=
  modify fun d => d.updSet sid fun
    | .set s vs o m r => .set s (vs ++ [b]) o m r
    | n => n

/-- `attrpath_order.append(x)` guarded by `if self.attrpath_order:` -/
def appendOrderIfNonEmpty (sid : Nat) (x : Node) : EditM Unit :=
  modify fun d => d.updSet sid fun
    | .set s vs o m r => if o.isEmpty then .set s vs o m r else .set s vs (o ++ [x]) m r
    | n => n

/-- remove the first item of `values` that is the Binding object `bid` -/
def removeValueById (sid bid : Nat) : EditM Unit :=
  modify fun d => d.updSet sid fun
    | .set s vs o m r => .set s (vs.eraseP fun n => n.bindId? == some bid) o m r
    | n => n

/-- `binding.value = v` -/
def assign (bid : Nat) (v : Node) : EditM Unit := modify (·.updBind bid v)

/-! ### `AttributeSet.__setitem__` / `__delitem__` -/

/-- `AttributeSet.__setitem__(key, value)` on the set object `sid` (current state `s`) -/
def setSetItem (s : Node) (key : Text) (v : Node) : EditM Unit :=
  match findBinding s.setValues key, s.setSid? with
  | some b, _ => match b.bindId? with
    | some bid => assign bid v
    | none => pure ()
  | none, some sid => do
    let bid ← fresh
    let nb := Node.bind bid key false v [] []
    appendValue sid nb
    appendOrderIfNonEmpty sid nb
  | none, none => throw (.internal "not-a-set")

/-- `AttributeSet.__delitem__(key)`: the order entry is removed only if it **is** the binding
    (`item is binding`), so an `_AttrpathEntry` never matches. -/
def setDelItem (s : Node) (key : Text) : EditM Unit :=
  match findBinding s.setValues key, s.setSid? with
  | some b, some sid => match b.bindId? with
    | some bid =>
      modify fun d => d.updSet sid fun
        | .set s' vs o m r =>
            .set s' (vs.eraseP fun n => n.bindId? == some bid)
              (if o.isEmpty then o else o.eraseP fun n => n.isBind && n.bindId? == some bid) m r
        | n => n
    | none => pure ()
  | _, _ => throw .key

/-! ### `Scope.__getitem__` / `__setitem__` / `__delitem__` on `target.scope` -/

/-- `scope[key]` (`Scope.get_binding` compares spellings) -/
def scopeGetItem (d : Doc) (key : Text) : Except Err Node :=
  match @findBinding NameCmp.spelled d.scope key with
  | some b => match b.bindValue? with | some v => .ok v | none => .error .key
  | none => .error .key

/-- `scope[key] = value`: `_attrpath_order()` is `owner.scope_state.attrpath_order or None` -/
def scopeSetItem (key : Text) (v : Node) : EditM Unit := fun d =>
  match @findBinding NameCmp.spelled d.scope key with
  | some b => match b.bindId? with
    | some bid => assign bid v d
    | none => (.ok (), d)
  | none =>
    let bid := d.next
    let nb := Node.bind bid key false v [] []
    (.ok (), { d with next := d.next + 1, scope := d.scope ++ [nb],
                      stOrder := if d.stOrder.isEmpty then d.stOrder else d.stOrder ++ [nb] })

/-- `del scope[key]`: the order item is removed when it is the binding or an entry holding it -/
def scopeDelItem (key : Text) : EditM Unit := fun d =>
  match @findBinding NameCmp.spelled d.scope key with
  | none => (.error .key, d)
  | some b => match b.bindId? with
    | none => (.ok (), d)
    | some bid =>
      (.ok (), { d with
        scope := d.scope.eraseP fun n => n.isBind && n.bindId? == some bid
        stOrder := if d.stOrder.isEmpty then d.stOrder else d.stOrder.eraseP fun n => match n with
          | .bind i .. => i == bid
          | .entry _ leaf _ _ => leaf.bindId? == some bid
          | _ => false })

/-! ### attrpath families -/

/-- the loop of `_set_attrpath_value` over `segments[1:-1]`: returns the set to put the leaf in.
    Missing intermediate sets are created (and appended) as the walk goes — a write. -/
def setAttrpathWalk (current : Node) : List Text → EditM Node
  | [] => pure current
  | seg :: more =>
    match findNamedBinding current.setValues seg (some true) with
    | some b =>
      -- `if not binding.nested` cannot fire (found with nested=True)
      match b.bindValue? with
      | some (v@(.set ..)) => setAttrpathWalk v more
      | _ => throw .value
    | none =>
      if (findNamedBinding current.setValues seg (some false)).isSome then throw .value
      else match current.setSid? with
        | none => throw (.internal "not-a-set")
        | some csid => do
          let sid ← fresh
          let bid ← fresh
          let nested := Node.set sid [] [] current.setMultiline false
          let nb := Node.bind bid seg true nested [] []
          appendValue csid nb
          setAttrpathWalk nested more

/-- `_set_attrpath_value(target_set, root, segments, value_expr)` -/
def setAttrpathValue (tsSid : Nat) (root : Node) (segs : List Text) (v : Node) : EditM Unit :=
  match root.bindValue? with
  | some (rv@(.set ..)) => do
    let middle := (segs.drop 1).dropLast
    let current ← setAttrpathWalk rv middle
    match segs.getLast? with
    | none => throw (.internal "IndexError")
    | some finalKey =>
      -- `current` may have been mutated by the walk only if it is fresh; re-read is not needed:
      -- a fresh set is empty, an existing one was not touched.
      if (findNamedBinding current.setValues finalKey (some true)).isSome then throw .value
      else match findNamedBinding current.setValues finalKey (some false) with
        | some b => match b.bindId? with
          | some bid => assign bid v
          | none => pure ()
        | none => match current.setSid? with
          | none => throw (.internal "not-a-set")
          | some csid => do
            let bid ← fresh
            let nb := Node.bind bid finalKey false v [] []
            appendValue csid nb
            appendOrderIfNonEmpty tsSid (.entry segs nb none none)
  | _ => throw .value

/-- prune loop of `_remove_attrpath_value`: innermost parent first; stop at the first non-empty -/
def pruneParents : List (Node × Node) → EditM Unit
  | [] => pure ()
  | (parent, b) :: rest => do
    -- re-read the binding's value set as it is now
    let d ← get
    match b.bindValue?, parent.setSid?, b.bindId? with
    | some (.set vsid ..), some psid, some bid =>
      let nowEmpty := match d.findSet vsid with
        | some cur => cur.setValues.isEmpty
        | none => true
      if nowEmpty then do
        removeValueById psid bid
        pruneParents rest
      else pure ()
    | _, _, _ => pure ()

/-- `_remove_attrpath_value(target_set, segments)` -/
def removeAttrpathValue (ts : Node) (segs : List Text) : EditM Unit :=
  match walkAttrpathStack ts segs false true with
  | .error e => throw e
  | .ok none => throw (.internal "AssertionError")
  | .ok (some stack) =>
    match stack.getLast?, ts.setSid? with
    | some (parent, leaf), some tsSid =>
      match parent.setSid?, leaf.bindId? with
      | some psid, some lid => do
        removeValueById psid lid
        -- delete the first `_AttrpathEntry` whose binding is the leaf
        modify fun d => d.updSet tsSid fun
          | .set s vs o m r =>
              .set s vs (o.eraseP fun n => match n with
                | .entry _ l _ _ => l.bindId? == some lid
                | _ => false) m r
          | n => n
        pruneParents stack.dropLast.reverse
      | _, _ => throw (.internal "shape")
    | _, _ => throw (.internal "shape")

/-! ### plain nested paths -/

/-- the loop of `_resolve_npath_parent` over `segments[:-1]` (already formatted keys) -/
def resolveParentWalk (createMissing : Bool) (current : Node) : List Text → EditM Node
  | [] => pure current
  | key :: more =>
    match setGetItem current key with
    | .ok (v@(.set ..)) => resolveParentWalk createMissing v more
    | .ok _ => throw .value
    | .error _ =>
      if !createMissing then throw .key
      else match current.setSid? with
        | none => throw (.internal "not-a-set")
        | some _ => do
          let sid ← fresh
          let nested := Node.set sid [] [] current.setMultiline false
          setSetItem current key nested
          resolveParentWalk createMissing nested more

/-! ### assign-through-identifier (simplified resolver: scope layers and `rec` self) -/

/-- The scope chain `scopes_for_owner(target_set)` yields when no context was inherited:
    the let layers (outermost first), then the set itself when `rec`. -/
def scopeChain (d : Doc) (ts : Node) (withLayers : Bool) : List (List Node) :=
  let layers := if withLayers then
      (if d.scope.isEmpty then [] else [d.scope]) ++ (d.stack.filter (!·.scope.isEmpty)).map (·.scope)
    else []
  layers ++ (if ts.setRecursive then [ts.setValues] else [])

/-- `name.strip('"')` -/
def stripQuotes (nm : Text) : Text :=
  ((nm.dropWhile (· == '"')).reverse.dropWhile (· == '"')).reverse

/-- innermost-first scan of a reversed chain: the first scope that binds `name` (directly, or by
    the quoted-name fallback), with the chain from that scope outwards; `inherit` entries that
    mention the name stop the scan (following them is not modelled). -/
def scanChain (name : Text) : List (List Node) → Option (Node × List (List Node))
  | [] => none
  | scope :: outer =>
    let hit := match @findBinding NameCmp.spelled scope name with
      | some b => some b
      | none => scope.find? fun n => n.isBind &&
          (match n.bindName? with | some nm => stripQuotes nm == name | none => false)
    match hit with
    | some b => some (b, scope :: outer)
    | none => if inheritMentions scope name then none else scanChain name outer

/-- `_resolve_identifier` restricted to direct / quoted-name matches and reference chains;
    `none` models `ResolutionError` (unbound, cycle, or an `inherit` entry — not modelled).
    `rchain` is the chain innermost first. -/
def resolveIdent (fuel : Nat) (rchain : List (List Node)) (name : Text) (visited : List Nat) :
    Option Nat :=
  match fuel with
  | 0 => none
  | fuel + 1 =>
    match scanChain name rchain with
    | none => none
    | some (b, rest) =>
      match b.bindId?, b.bindValue? with
      | some bid, some v =>
        if visited.contains bid then none
        else match v with
          | .ident n' => resolveIdent fuel rest n' (bid :: visited)
          | _ => some bid
      | _, _ => none

/-- `_assign_through_identifier(identifier)`: `true` when the write went through a reference. -/
def assignThrough (ts : Node) (withLayers : Bool) (name : Text) (v : Node) : EditM Bool := do
  let d ← get
  let chain := scopeChain d ts withLayers
  if chain.isEmpty then pure false
  else match resolveIdent (chain.foldl (fun n s => n + s.length) 1) chain.reverse name [] with
    | some bid => do assign bid v; pure true
    | none => pure false

/-- what `set` does once it holds an existing binding `b` of the set `parent` -/
def assignExisting (ts parent : Node) (withLayers : Bool) (b : Node) (v : Node) : EditM Unit :=
  match b.bindId?, b.bindValue? with
  | some bid, some (.ident targetName) => do
    if (← assignThrough ts withLayers targetName v) then pure ()
    else
      let d ← get
      let letBindings : List Node := match d.topScope with
        | some s => s.filter (·.isBind)
        | none => d.scope.filter (·.isBind)
      match letBindings.find? (·.bindName? == some targetName) with
      | some outer => match outer.bindId? with
        | some oid => assign oid v
        | none => pure ()
      | none =>
        match findBinding parent.setValues targetName with
        | some sib => match sib.bindId? with
          | some sid' => assign sid' v
          | none => pure ()
        | none => assign bid v
  | some bid, _ => assign bid v
  | none, _ => pure ()

/-! ### `_set_value_in_attrset` / `_remove_value_in_attrset` -/

/-- `_set_value_in_attrset(target_set, npath, value_expr, let_bindings=…)`.
    `withLayers`: whether `target_set` is the document's target (so `scopes_for_owner` sees the
    let layers) or the scratch set built for a scope layer. -/
def setValueInAttrset (ts : Node) (withLayers : Bool) (npath : Text) (v : Node) : EditM Unit :=
  match formatNPath currentAnchor npath, ts.setSid? with
  | .error e, _ => throw e
  | .ok [], _ => throw .value
  | .ok _, none => throw (.internal "not-a-set")
  | .ok (segs@(seg0 :: segRest)), some tsSid =>
    match findAttrpathLeaf ts segs with
    | some leaf => match leaf.bindId? with
      | some lid => assign lid v
      | none => pure ()
    | none =>
      let attrRoot := findAttrpathRoot ts.setValues seg0
      if segRest.isEmpty then
        if attrRoot.isSome then throw .value
        else match findBinding ts.setValues seg0 with
          | some b => assignExisting ts ts withLayers b v
          | none => setSetItem ts seg0 v
      else match attrRoot with
        | some root => setAttrpathValue tsSid root segs v
        | none => do
          -- `_resolve_npath_parent(target_set, npath, create_missing=True)`; the fallback through
          -- `_resolve_inherited_binding` needs a FunctionCall value and is outside the model
          let parent ← resolveParentWalk true ts segs.dropLast
          match segs.getLast? with
          | none => throw (.internal "IndexError")
          | some finalKey =>
            match findBinding parent.setValues finalKey with
            | some b => assignExisting ts parent withLayers b v
            | none => setSetItem parent finalKey v

/-- `_remove_value_in_attrset(target_set, npath)` -/
def removeValueInAttrset (ts : Node) (npath : Text) : EditM Unit :=
  match formatNPath currentAnchor npath with
  | .error e => throw e
  | .ok [] => throw .value
  | .ok (segs@(seg0 :: segRest)) =>
    if (findAttrpathLeaf ts segs).isSome then removeAttrpathValue ts segs
    else
      let attrRoot := findAttrpathRoot ts.setValues seg0
      if segRest.isEmpty then
        if attrRoot.isSome then throw .key
        else if (findBinding ts.setValues seg0).isNone then throw .key
        else setDelItem ts seg0
      else if attrRoot.isSome then removeAttrpathValue ts segs
      else do
        let parent ← resolveParentWalk false ts segs.dropLast
        match segs.getLast? with
        | none => throw (.internal "IndexError")
        | some finalKey => setDelItem parent finalKey

/-! ### scope layers -/

/-- `_split_scope_npath` -/
def splitScopeNpath (npath : Text) : Except Err (Option (Nat × Text)) :=
  let depth := (npath.takeWhile (· == '@')).length
  if depth = 0 then .ok none
  else
    let rest := npath.drop depth
    if rest.isEmpty then .error .value else .ok (some (depth, rest))

/-- `_collect_scope_layers(target_expr)` : outermost → innermost -/
def collectScopeLayers (d : Doc) : List Layer :=
  (if d.scope.isEmpty then []
   else [({ scope := d.scope, order := d.stOrder, bodyBefore := d.stBodyBefore,
            bodyAfter := d.stBodyAfter, afterLet := d.stAfterLet } : Layer)]) ++
  d.stack.filter (!·.scope.isEmpty)

/-- `_write_scope_layers(expr, layers, restored_layer=…)` -/
def writeScopeLayers (layers : List Layer) (restored : Option Layer) (d : Doc) : Doc :=
  match layers with
  | [] =>
    let d := { d with scope := [], stBodyBefore := [], stBodyAfter := [], stOrder := [],
                      stAfterLet := none, stack := [] }
    match restored with
    | some r =>
      { d with tBefore := if r.bodyBefore.isEmpty then d.tBefore else r.bodyBefore,
               tAfter := r.bodyAfter ++ d.tAfter.filter (!r.bodyAfter.contains ·) }
    | none => d
  | outer :: rest =>
    { d with scope := outer.scope, stBodyBefore := outer.bodyBefore, stBodyAfter := outer.bodyAfter,
             stOrder := outer.order, stAfterLet := outer.afterLet,
             stack := rest.filter (!·.scope.isEmpty) }

/-- replace the `scope` list of the `k`-th layer that has a non-empty scope -/
def setNthNonEmpty (sc : List Node) : Nat → List Layer → List Layer
  | _, [] => []
  | k, l :: ls =>
    if l.scope.isEmpty then l :: setNthNonEmpty sc k ls
    else match k with
      | 0 => { l with scope := sc } :: ls
      | k + 1 => l :: setNthNonEmpty sc k ls

/-- in-place update of the `scope` list of collected layer `idx` (see `collectScopeLayers`) -/
def Doc.setLayerScope (idx : Nat) (sc : List Node) (d : Doc) : Doc :=
  if d.scope.isEmpty then { d with stack := setNthNonEmpty sc idx d.stack }
  else match idx with
    | 0 => { d with scope := sc }
    | k + 1 => { d with stack := setNthNonEmpty sc k d.stack }

/-- scratch `AttributeSet(values=layer["scope"], attrpath_order=layer["attrpath_order"])`;
    the scratch object gets a fresh identity and lives in the `scope`-independent slot of the run. -/
def layerAsSet (sid : Nat) (l : Layer) : Node := .set sid l.scope l.order true false

def setLayerFrom (l : Layer) (s : Node) : Layer := { l with scope := s.setValues, order := s.setOrder }

/-- replace element `i` -/
def listSet {α} (xs : List α) (i : Nat) (x : α) : List α := xs.set i x

/-! ### `set_value` / `remove_value` -/

/-- Classification of the parsed VALUE argument (`parse(value)`), computed by the caller. -/
inductive ValueArg where
  | empty                    -- no expression
  | invalid                  -- not exactly one expression, or a RawExpression (syntax error)
  | one (v : Node)           -- exactly one well-formed expression
deriving Repr

/-- `_resolve_target_set(source)` outcome -/
def resolveTarget (d : Doc) : Except Err Node :=
  match d.noTarget with
  | some .resolution => .error .resolution
  | some _ => .error .value
  | none => .ok d.target

/-- Run an attrset-level operation on the scratch set of layer `idx`; the layer's `scope` list is
    shared with the scratch set (writes persist even if the operation fails), its
    `attrpath_order` is a copy that is written back only by `_write_scope_layers`.
    `fromDoc`: the layers were collected from the document (so the Binding objects in them are the
    document's own and see every mutation); otherwise `layers` is the single freshly created layer. -/
def onLayer (layers : List Layer) (fromDoc : Bool) (idx : Nat) (op : Node → EditM Unit) :
    EditM (List Layer) := fun d =>
  match layers[idx]? with
  | none => (.error (.internal "IndexError"), d)
  | some l =>
    let sid := d.next
    let scratch := layerAsSet sid l
    let (r, d1) := op scratch { d with next := d.next + 1, scratch := some scratch }
    let scratch' := d1.scratch.getD scratch
    let d2 := { d1 with scratch := none }
    -- the layer dictionaries alias the document's Binding objects
    let layers1 := if fromDoc then collectScopeLayers d2 else layers
    let l1 := (layers1[idx]?).getD l
    match r with
    | .ok () => (.ok (listSet layers1 idx (setLayerFrom l1 scratch')), d2)
    | .error e =>
      -- nothing is written back on failure; only the `scope` list, which the scratch set shares
      -- with the layer, keeps whatever was appended before the failure
      if fromDoc then (.error e, d2.setLayerScope idx scratch'.setValues)
      else (.error e, d2)

/-- `set_value(source, npath, value)` up to (not including) the final `source.rebuild()` -/
def setValue (npath : Text) (value : ValueArg) : EditM Unit := fun d =>
  match value with
  | .empty => (.error .value, d)
  | .invalid => (.error .value, d)
  | .one v =>
    match d.noTarget with
    | some .empty => (.error .value, d)
    | some .multi => (.error .value, d)
    | _ =>
      match splitScopeNpath npath with
      | .error e => (.error e, d)
      | .ok (some (depth, scopeNpath)) =>
        (match resolveTarget d with
        | .error e => (.error e, d)
        | .ok ts =>
          let layers := collectScopeLayers d
          -- `if not layers and depth == 1:`
          let step1 : Except Err (Option (List Layer × Bool × Doc)) :=
            if layers.isEmpty && depth == 1 then
              match formatNPath currentAnchor scopeNpath with
              | .error e => .error e
              | .ok segs =>
                if pathExistsInAttrset ts segs then .ok none
                else
                  let newLayer : Layer := { scope := [], order := [], bodyBefore := d.tBefore,
                                            bodyAfter := d.tAfter, afterLet := none }
                  .ok (some ([newLayer], false, { d with tBefore := [], tAfter := [] }))
            else .ok (some (layers, true, d))
          match step1 with
          | .error e => (.error e, d)
          | .ok none => setValueInAttrset ts true scopeNpath v d
          | .ok (some (layers, fromDoc, d)) =>
            if depth > layers.length then (.error .value, d)
            else
              match onLayer layers fromDoc (layers.length - depth)
                      (fun s => setValueInAttrset s false scopeNpath v) d with
              | (.ok layers', d') => (.ok (), writeScopeLayers layers' none d')
              | (.error e, d') => (.error e, d'))
      | .ok none =>
        match resolveTarget d with
        | .error e => (.error e, d)
        | .ok ts => setValueInAttrset ts true npath v d

/-- `remove_value(source, npath)` up to the final `source.rebuild()` -/
def removeValue (npath : Text) : EditM Unit := fun d =>
  match d.noTarget with
  | some .empty => (.error .value, d)
  | some .multi => (.error .value, d)
  | _ =>
    match splitScopeNpath npath with
    | .error e => (.error e, d)
    | .ok (some (depth, scopeNpath)) =>
      (match resolveTarget d with
      | .error e => (.error e, d)
      | .ok _ =>
        let layers := collectScopeLayers d
        if depth > layers.length then (.error .value, d)
        else
          let idx := layers.length - depth
          match onLayer layers true idx (fun s => removeValueInAttrset s scopeNpath) d with
          | (.error e, d') => (.error e, d')
          | (.ok layers', d') =>
            let removed : Option Layer := match layers'[idx]? with
              | some l => if l.scope.isEmpty then some l else none
              | none => none
            let layers'' := if removed.isSome then layers'.eraseIdx idx else layers'
            let d1 := writeScopeLayers layers'' removed d'
            let d2 := if removed.isSome && layers''.isEmpty then
                { d1 with trailing := (d1.trailing.reverse.dropWhile (fun t => t == 0 || t == 1)).reverse }
              else d1
            let d3 := match removed with
              | some r => if !r.bodyAfter.isEmpty then
                  (if d2.trailing.isEmpty then { d2 with trailing := r.bodyAfter }
                   else { d2 with trailing := d2.trailing ++ r.bodyAfter.filter (!d2.trailing.contains ·) })
                else d2
              | none => d2
            let d4 := if d3.trailing.isEmpty && !d.trailing.isEmpty then { d3 with trailing := d.trailing } else d3
            let rs := match removed with
              | some r => layers''.isEmpty && !r.bodyBefore.isEmpty
              | none => false
            (.ok (), { d4 with rstripped := rs }))
    | .ok none =>
      match resolveTarget d with
      | .error e => (.error e, d)
      | .ok ts =>
        match formatNPath currentAnchor npath with
        | .error e => (.error e, d)
        | .ok [] => (.error .value, d)
        | .ok (segs@(seg0 :: segRest)) =>
          if (findAttrpathLeaf ts segs).isSome then removeAttrpathValue ts segs d
          else
            let attrRoot := findAttrpathRoot ts.setValues seg0
            if segRest.isEmpty then
              if attrRoot.isSome then (.error .key, d)
              else if (findBinding ts.setValues seg0).isNone then (.error .key, d)
              else setDelItem ts seg0 d
            else if attrRoot.isSome then removeAttrpathValue ts segs d
            else
              (do
                let parent ← resolveParentWalk false ts segs.dropLast
                match segs.getLast? with
                | none => throw (.internal "IndexError")
                | some finalKey => setDelItem parent finalKey) d

end

end Nima
