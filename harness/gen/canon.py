"""G-canon: files in RFC-0166 / nixfmt layout built from the package-file idiom and its parts.

Layout rules written here directly (two-space indentation, one item per line in multi-line
containers, closers aligned with the line of their opener, single blank lines, `{ }` / `[ ]` for
empty containers, inline `[ a b ]` / `{ a = 1; }` kept inline, `=` followed by a line break only for
multi-line `if`), validated against tests/nix-files/pkgs/trl-default.nix (nixfmt output)."""
from __future__ import annotations

import random
import zlib

IDENTS = ["lib", "stdenv", "fetchurl", "pname", "version", "src", "meta", "owner", "repo", "a", "b", "foo-bar", "x'"]
STRS = ['"trl"', '"0.19.0"', '"sha256-abc="', '"v${version}"', '"a b"', '""', '"é✓"', '"say \\"hi\\""', '"\\"q\\" and \\\\"',
        '"The so-called \\"best\\""']


def ind(n):
    return "  " * n


class Gen:
    def __init__(self, rng: random.Random, max_items=6, max_depth=3):
        self.rng = rng
        self.max_items = max_items
        self.max_depth = max_depth
        self.n = 0

    def name(self):
        self.n += 1
        return self.rng.choice(["pname", "version", "src", "meta", "doCheck", "owner", "hash", "x", "y"]) + str(self.n)

    def scalar(self):
        r = self.rng.random()
        if r < 0.35:
            return self.rng.choice(STRS)
        if r < 0.5:
            return self.rng.choice(["true", "false", "null", "1", "42"])
        if r < 0.7:
            return self.rng.choice(["lib.licenses.asl20", "pkgs.hello", "owner", "src.tag"])
        if r < 0.8:
            return self.rng.choice(["./default.nix", "../foo/bar.nix"])
        if r < 0.9:
            return "[ " + " ".join(self.rng.sample(["a", "b", '"s"', "1"], self.rng.randint(1, 2))) + " ]"
        return self.rng.choice(["{ }", "[ ]", "f a", "with lib.maintainers; [ hoh ]", "if a then b else c", "a + b",
                                "{ k = 1; }", "!x", "a ++ b"])

    def value(self, level, depth):
        """returns (text starting on the `=` line, ends without `;`)"""
        r = self.rng.random()
        if depth >= self.max_depth or r < 0.55:
            return self.scalar()
        if r < 0.7:
            items = [self.rng.choice(["setuptools", "rich", '"s"', "(f x)", "1"]) for _ in range(self.rng.randint(2, 4))]
            return "[\n" + "".join(ind(level + 1) + it + "\n" for it in items) + ind(level) + "]"
        if r < 0.9:
            head = self.rng.choice(["", "", "fetchFromGitHub ", "rec ", "lib.mkIf c "])
            return head + self.set_body(level, depth + 1)
        if r < 0.95:
            return "''\n" + ind(level + 1) + "echo hi\n" + ind(level + 1) + "make ${pname}\n" + ind(level) + "''"
        return "with lib; [\n" + ind(level + 1) + "a\n" + ind(level + 1) + "b\n" + ind(level) + "]"

    def item(self, level, depth, kind=None):
        kind = kind or self.rng.choice(["bind"] * 6 + ["commented", "eol", "inherit", "inherit-from", "attrpath", "blank-bind",
                                                      "block-comment", "if-multi", "eol-multi", "empty-containers", "attrpath-next-line", "comment-only-list"])
        pad = ind(level)
        if kind == "bind":
            return f"{pad}{self.name()} = {self.value(level, depth)};\n"
        if kind == "commented":
            return f"{pad}# This is something else\n{pad}{self.name()} = {self.value(level, depth)};\n"
        if kind == "eol":
            return f"{pad}{self.name()} = {self.scalar()}; # eol note\n"
        if kind == "inherit":
            return f"{pad}inherit {' '.join(self.rng.sample(['a', 'b', 'version'], self.rng.randint(1, 2)))};\n"
        if kind == "inherit-from":
            return f"{pad}inherit (lib) {' '.join(self.rng.sample(['licenses', 'mkIf'], self.rng.randint(1, 2)))};\n"
        if kind == "attrpath":
            n = self.name()
            return f"{pad}{n}.description = {self.scalar()};\n{pad}{n}.homepage = \"https://x\";\n"
        if kind == "blank-bind":
            return f"\n{pad}{self.name()} = {self.value(level, depth)};\n"
        if kind == "block-comment":
            return f"{pad}/*\n{pad}  We love\n{pad}  multiline comments\n{pad}*/\n{pad}{self.name()} = {self.scalar()};\n"
        if kind == "eol-multi":
            n1 = self.name()
            return (f"{pad}{n1} = fetchurl {{\n{pad}  url = \"u\";\n{pad}}}; # why\n"
                    f"{pad}{self.name()} = [\n{pad}  a\n{pad}  b\n{pad}]; # list\n")
        if kind == "empty-containers":
            return f"{pad}{self.name()} = f [ ];\n{pad}{self.name()} = x: {{ }};\n{pad}{self.name()} = g {{ }} [ ];\n"
        if kind == "comment-only-list":
            return (f"{pad}{self.name()} = with pkgs; [\n{pad}  # none yet\n{pad}];\n"
                    f"{pad}{self.name()} = [\n{pad}  # todo\n{pad}];\n")
        if kind == "attrpath-next-line":
            n = self.name()
            return (f"{pad}{n}.platforms =\n{pad}  with lib.platforms;\n{pad}  linux ++ darwin;\n"
                    f"{pad}{n}.broken =\n{pad}  if stdenv.isDarwin then\n{pad}    true\n{pad}  else\n{pad}    false;\n")
        if kind == "if-multi":
            return (f"{pad}{self.name()} =\n{pad}  if stdenv.isLinux then\n{pad}    a\n{pad}  else\n{pad}    b;\n")
        raise ValueError(kind)

    def formals_multi(self):
        """multi-line formals ending in `...` (no trailing-comma ERROR node, so the file is really
        parsed): end-of-line comments, own-line comments, single blank lines, defaults"""
        r = self.rng
        lines = []
        names = r.sample(["lib", "stdenv", "fetchurl", "rich", "python3", "callPackage", "enableFoo"], r.randint(2, 5))
        for i, nm in enumerate(names):
            if i and r.random() < 0.3:
                lines.append("")
            if r.random() < 0.3:
                lines.append("  # deps " + nm)
            d = r.choice(["", "", "", " ? null", " ? true", " ? [ ]"])
            e = r.choice(["", "", " # note " + nm])
            lines.append(f"  {nm}{d},{e}")
        if r.random() < 0.4:
            lines.append("")
        if r.random() < 0.2:
            lines.append("  # rest")
        lines.append("  ...")
        return "{\n" + "\n".join(lines) + "\n}:\n" + r.choice(["", "\n"])

    def set_body(self, level, depth, kinds=None):
        n = self.rng.randint(0, self.max_items) if kinds is None else len(kinds)
        if n == 0:
            return "{ }"
        items = [self.item(level + 1, depth, kinds[i] if kinds else None) for i in range(n)]
        if items[0].startswith("\n"):
            items[0] = items[0][1:]
        return "{\n" + "".join(items) + ind(level) + "}"

    def document(self, kinds=None, wrapper=None):
        r = self.rng
        wrapper = wrapper or r.choice(["bare", "lambda", "lambda-blank", "lambda-let", "lambda-call", "let", "formals-multi",
                                       "header-lambda-call", "let3", "lambda-let3", "formals-ellipsis", "formals-ellipsis",
                                       "let-same-twice", "assert-multiline"])
        body = self.set_body(0, 0, kinds)
        let = "let\n  owner = \"huggingface\";\n  # We love comments here\n  acc = accelerate;\nin\n"
        if wrapper == "bare":
            t = body
        elif wrapper == "lambda":
            t = "{ lib, stdenv }:\n" + body
        elif wrapper == "lambda-blank":
            t = "{ lib, stdenv, ... }:\n\n" + body
        elif wrapper == "lambda-let":
            t = "{ pkgs }:\n" + let + body
        elif wrapper == "lambda-call":
            t = "{ lib, stdenv }:\n\nstdenv.mkDerivation rec " + body
        elif wrapper == "let":
            t = let + body
        elif wrapper in ("let3", "lambda-let3"):
            let3 = ("let\n  a = 1;\nin\nlet\n  # second\n  b = a;\n\n  c = b;\nin\nlet\n  d = c;\nin\n")
            t = ("{ pkgs, ... }:\n" if wrapper == "lambda-let3" else "") + let3 + body
        elif wrapper == "formals-ellipsis":
            t = self.formals_multi() + r.choice(["", let, "stdenv.mkDerivation "]) + body
        elif wrapper == "assert-multiline":
            t = ("assert lib.all f [\n  a\n\n  b\n];\n" + r.choice(["", "assert builtins.elem x {\n  k = 1;\n\n  j = 2;\n};\n"])
                 + r.choice(["", "\n"]) + body)
        elif wrapper == "let-same-twice":
            same = "let\n  version = \"1.0\";\n  # note\n  owner = version;\nin\n"
            t = same + r.choice(["", "let\n  mid = owner;\nin\n"]) + same + body
        elif wrapper == "formals-multi":
            t = "{\n  lib,\n  stdenv,\n\n  # deps\n  rich,\n}:\n" + let + "buildPythonPackage rec " + body
        else:
            t = "# Header comment\n# second line\n{ lib, stdenv }:\n\nstdenv.mkDerivation " + body
        return t + "\n", wrapper


ITEM_KINDS = ["bind", "commented", "eol", "inherit", "inherit-from", "attrpath", "blank-bind", "block-comment", "if-multi",
              "eol-multi", "empty-containers", "attrpath-next-line", "comment-only-list"]


def enumerate_pairs(seed=0):
    """every ordered pair of adjacent item kinds × 3 wrappers (deterministic values)"""
    for a in ITEM_KINDS:
        for b in ITEM_KINDS:
            for w in ("bare", "lambda-call", "lambda-let", "let3", "formals-ellipsis", "let-same-twice", "assert-multiline"):
                g = Gen(random.Random(zlib.crc32(repr((a, b, w, seed)).encode())), max_depth=2)
                yield {"pair": [a, b], "wrapper": w}, g.document(kinds=[a, b], wrapper=w)[0]
