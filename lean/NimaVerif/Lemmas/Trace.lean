import NimaVerif.Lemmas.Layers
/-!
Traces: every run of an attrset-level edit is a list of in-place writes (`Upd`) whose targets lie
in a footprint. Generic machinery (this file) and the per-function lemmas (`Lemmas/TraceEdit.lean`).
-/
namespace Nima
-- name tokens are compared by spelling in this file (see `NameCmp` in Model/Edit.lean)
attribute [local instance] NameCmp.spelled

open Node EditM

/-! ### `applyAll` -/

@[simp] theorem applyAll_nil (d : Doc) : applyAll [] d = d := rfl
@[simp] theorem applyAll_cons (u : Upd) (us : List Upd) (d : Doc) :
    applyAll (u :: us) d = applyAll us (u.apply d) := rfl
theorem applyAll_append (us vs : List Upd) (d : Doc) :
    applyAll (us ++ vs) d = applyAll vs (applyAll us d) := by
  simp [applyAll, List.foldl_append]

@[simp] theorem applyAllNode_nil' : applyAllNode [] = id := by funext n; rfl
@[simp] theorem applyAllLayer_nil' : applyAllLayer [] = id := by funext n; rfl
@[simp] theorem applyAllNode_nil (n : Node) : applyAllNode [] n = n := rfl
@[simp] theorem applyAllNode_cons (u : Upd) (us : List Upd) (n : Node) :
    applyAllNode (u :: us) n = applyAllNode us (u.applyNode n) := rfl
@[simp] theorem applyAllLayer_nil (l : Layer) : applyAllLayer [] l = l := rfl
@[simp] theorem applyAllLayer_cons (u : Upd) (us : List Upd) (l : Layer) :
    applyAllLayer (u :: us) l = applyAllLayer us (u.applyLayer l) := rfl

@[simp] theorem applyNode_bump : Upd.bump.applyNode = id := by funext n; rfl
@[simp] theorem applyNode_assign (b : Nat) (v : Node) :
    (Upd.assign b v).applyNode = updBind b v := by funext n; rfl
@[simp] theorem applyNode_onSet (s : Nat) (f : SetFn) :
    (Upd.onSet s f).applyNode = updSet s f.fn := by funext n; rfl
@[simp] theorem applyLayer_bump : Upd.bump.applyLayer = id := by funext n; rfl
@[simp] theorem applyLayer_assign (b : Nat) (v : Node) :
    (Upd.assign b v).applyLayer = Layer.updBind b v := by funext n; rfl
@[simp] theorem applyLayer_onSet (s : Nat) (f : SetFn) :
    (Upd.onSet s f).applyLayer = Layer.updSet s f.fn := by funext n; rfl

theorem apply_next_le (u : Upd) (d : Doc) : d.next ≤ (u.apply d).next := by
  cases u <;> simp [Upd.apply, Doc.updBind, Doc.updSet]

theorem applyAll_next_le (us : List Upd) (d : Doc) : d.next ≤ (applyAll us d).next := by
  induction us generalizing d with
  | nil => exact Nat.le_refl _
  | cons u us ih => exact Nat.le_trans (apply_next_le u d) (ih _)

/-- what no write touches -/
structure SameFrame (d d' : Doc) : Prop where
  noTarget : d'.noTarget = d.noTarget
  tBefore : d'.tBefore = d.tBefore
  tAfter : d'.tAfter = d.tAfter
  stBodyBefore : d'.stBodyBefore = d.stBodyBefore
  stBodyAfter : d'.stBodyAfter = d.stBodyAfter
  stAfterLet : d'.stAfterLet = d.stAfterLet
  trailing : d'.trailing = d.trailing
  rstripped : d'.rstripped = d.rstripped

theorem apply_frame (u : Upd) (d : Doc) : SameFrame d (u.apply d) := by
  cases u <;> constructor <;> rfl

theorem applyAll_frame (us : List Upd) (d : Doc) : SameFrame d (applyAll us d) := by
  induction us generalizing d with
  | nil => constructor <;> rfl
  | cons u us ih =>
    have h1 := apply_frame u d
    have h2 := ih (u.apply d)
    constructor
    · exact h2.noTarget.trans h1.noTarget
    · exact h2.tBefore.trans h1.tBefore
    · exact h2.tAfter.trans h1.tAfter
    · exact h2.stBodyBefore.trans h1.stBodyBefore
    · exact h2.stBodyAfter.trans h1.stBodyAfter
    · exact h2.stAfterLet.trans h1.stAfterLet
    · exact h2.trailing.trans h1.trailing
    · exact h2.rstripped.trans h1.rstripped

theorem apply_target (u : Upd) (d : Doc) : (u.apply d).target = u.applyNode d.target := by
  cases u <;> rfl
theorem applyAll_target (us : List Upd) (d : Doc) :
    (applyAll us d).target = applyAllNode us d.target := by
  induction us generalizing d with
  | nil => rfl
  | cons u us ih => simp [ih, apply_target]

theorem apply_scratch (u : Upd) (d : Doc) : (u.apply d).scratch = d.scratch.map u.applyNode := by
  cases u <;> simp [Upd.apply, Doc.updBind, Doc.updSet]
theorem applyAll_scratch (us : List Upd) (d : Doc) :
    (applyAll us d).scratch = d.scratch.map (applyAllNode us) := by
  induction us generalizing d with
  | nil => simp
  | cons u us ih =>
    simp only [applyAll_cons, ih, apply_scratch, Option.map_map]
    congr 1

theorem nonEmpty_updBind (id : Nat) (v : Node) (l : Layer) :
    (l.updBind id v).nonEmpty = l.nonEmpty := by simp [Layer.nonEmpty, Layer.updBind]
theorem nonEmpty_updSet (sid : Nat) (f : Node → Node) (l : Layer) :
    (l.updSet sid f).nonEmpty = l.nonEmpty := by simp [Layer.nonEmpty, Layer.updSet]

theorem collect_apply (u : Upd) (d : Doc) :
    collectScopeLayers (u.apply d) = (collectScopeLayers d).map u.applyLayer := by
  have e : (fun x : Layer => !x.scope.isEmpty) = Layer.nonEmpty := rfl
  cases u with
  | bump => simp [Upd.apply, collectScopeLayers]
  | assign bid v =>
    simp only [Upd.apply, applyLayer_assign, collectScopeLayers, Doc.updBind, updBindL_isEmpty,
      List.map_append, e, List.filter_map]
    congr 1
    · by_cases h : d.scope.isEmpty = true <;> simp [h, Layer.updBind]
    · congr 1
      apply List.filter_congr
      intro l _
      simp [nonEmpty_updBind]
  | onSet sid f =>
    simp only [Upd.apply, applyLayer_onSet, collectScopeLayers, Doc.updSet, updSetL_isEmpty,
      List.map_append, e, List.filter_map]
    congr 1
    · by_cases h : d.scope.isEmpty = true <;> simp [h, Layer.updSet]
    · congr 1
      apply List.filter_congr
      intro l _
      simp [nonEmpty_updSet]

theorem collect_applyAll (us : List Upd) (d : Doc) :
    collectScopeLayers (applyAll us d) = (collectScopeLayers d).map (applyAllLayer us) := by
  induction us generalizing d with
  | nil => simp
  | cons u us ih =>
    simp only [applyAll_cons, ih, collect_apply, List.map_map]
    congr 1

theorem applyAllLayer_frame (us : List Upd) (l : Layer) :
    (applyAllLayer us l).bodyBefore = l.bodyBefore ∧ (applyAllLayer us l).bodyAfter = l.bodyAfter ∧
    (applyAllLayer us l).afterLet = l.afterLet ∧
    (applyAllLayer us l).nonEmpty = l.nonEmpty := by
  induction us generalizing l with
  | nil => simp
  | cons u us ih =>
    obtain ⟨a, b, c, e⟩ := ih (u.applyLayer l)
    simp only [applyAllLayer_cons, a, b, c, e]
    cases u <;> simp [Layer.updBind, Layer.updSet, Layer.nonEmpty]

/-! ### traced computations -/

/-- every run of `m` from a state with `N ≤ next` is a list of allowed writes, and its result
    satisfies `Q` -/
def Traced {α} (grow : Bool) (A S : Nat → Prop) (N : Nat) (m : EditM α) (Q : α → Prop) : Prop :=
  ∀ d : Doc, N ≤ d.next → ∃ us, (m d).2 = applyAll us d ∧ (∀ u ∈ us, u.Allowed grow A S) ∧
    ∀ a, (m d).1 = .ok a → Q a

namespace Traced
variable {α β : Type} {grow : Bool} {A S : Nat → Prop} {N : Nat}

theorem pure {a : α} {Q : α → Prop} (h : Q a) : Traced grow A S N (Pure.pure a : EditM α) Q := by
  intro d _
  exact ⟨[], rfl, by simp, fun a' ha => by cases ha; exact h⟩

theorem throw {e : Err} {Q : α → Prop} : Traced grow A S N (EditM.throw e : EditM α) Q := by
  intro d _
  exact ⟨[], rfl, by simp, fun a' ha => by cases ha⟩

theorem get : Traced grow A S N EditM.get (fun _ => True) := by
  intro d _
  exact ⟨[], rfl, by simp, fun _ _ => trivial⟩

theorem mono {m : EditM α} {Q Q' : α → Prop} (h : Traced grow A S N m Q) (hq : ∀ a, Q a → Q' a) :
    Traced grow A S N m Q' := by
  intro d hd
  obtain ⟨us, h1, h2, h3⟩ := h d hd
  exact ⟨us, h1, h2, fun a ha => hq a (h3 a ha)⟩

theorem bind {m : EditM α} {f : α → EditM β} {Q : α → Prop} {R : β → Prop}
    (hm : Traced grow A S N m Q) (hf : ∀ a, Q a → Traced grow A S N (f a) R) :
    Traced grow A S N (m >>= f) R := by
  intro d hd
  obtain ⟨us, h1, h2, h3⟩ := hm d hd
  simp only [EditM.bind_apply]
  cases hr : m d with
  | mk r d1 =>
    rw [hr] at h1 h3
    simp only at h1 h3
    cases r with
    | error e => exact ⟨us, h1, h2, fun a ha => by cases ha⟩
    | ok a =>
      have hd1 : N ≤ d1.next := by rw [h1]; exact Nat.le_trans hd (applyAll_next_le us d)
      have h3' := h3 a rfl
      obtain ⟨vs, g1, g2, g3⟩ := hf a h3' d1 hd1
      subst h1
      refine ⟨us ++ vs, ?_, ?_, g3⟩
      · simp only [g1, applyAll_append]
      · intro u hu
        rcases List.mem_append.1 hu with hu | hu
        · exact h2 u hu
        · exact g2 u hu

theorem fresh : Traced grow A S N Nima.fresh (fun i => N ≤ i) := by
  intro d hd
  refine ⟨[.bump], rfl, ?_, fun a ha => ?_⟩
  · intro u hu; simp only [List.mem_singleton] at hu; subst hu; trivial
  · simp only [fresh_apply] at ha; injection ha with ha; subst ha; exact hd

theorem assign {bid : Nat} {v : Node} (h : A bid) :
    Traced grow A S N (Nima.assign bid v) (fun _ => True) := by
  intro d _
  refine ⟨[.assign bid v], rfl, ?_, fun _ _ => trivial⟩
  intro u hu; simp only [List.mem_singleton] at hu; subst hu; exact h

theorem onSet {sid : Nat} (f : SetFn) (h : S sid) (hg : grow = true → f.grows = true) :
    Traced grow A S N (EditM.modify fun d => d.updSet sid f.fn) (fun _ => True) := by
  intro d _
  refine ⟨[.onSet sid f], rfl, ?_, fun _ _ => trivial⟩
  intro u hu; simp only [List.mem_singleton] at hu; subst hu; exact ⟨h, hg⟩

end Traced

theorem appendValue_eq' (sid : Nat) (b : Node) :
    appendValue sid b = EditM.modify fun d => d.updSet sid (SetFn.appendValue b).fn := by
  unfold appendValue; congr
theorem appendOrder_eq' (sid : Nat) (x : Node) :
    appendOrderIfNonEmpty sid x = EditM.modify fun d => d.updSet sid (SetFn.appendOrder x).fn := by
  unfold appendOrderIfNonEmpty; congr
theorem removeValueById_eq' (sid bid : Nat) :
    removeValueById sid bid = EditM.modify fun d => d.updSet sid (SetFn.removeValue bid).fn := by
  unfold removeValueById; congr

namespace Traced
variable {grow : Bool} {A S : Nat → Prop} {N : Nat}

theorem appendValue {sid : Nat} {b : Node} (h : S sid) :
    Traced grow A S N (Nima.appendValue sid b) (fun _ => True) := by
  rw [appendValue_eq']; exact onSet _ h (fun _ => rfl)
theorem appendOrder {sid : Nat} {x : Node} (h : S sid) :
    Traced grow A S N (appendOrderIfNonEmpty sid x) (fun _ => True) := by
  rw [appendOrder_eq']; exact onSet _ h (fun _ => rfl)
theorem removeValueById {sid bid : Nat} (h : S sid) :
    Traced false A S N (Nima.removeValueById sid bid) (fun _ => True) := by
  rw [removeValueById_eq']; exact onSet _ h (fun hh => by cases hh)
end Traced

end Nima
