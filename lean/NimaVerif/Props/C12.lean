import NimaVerif.Lemmas.NPath
import NimaVerif.Gen.Tables
/-!
# C12 — attribute names in paths are written and matched faithfully

Property theorems only (helper lemmas live in `Lemmas/`). All statements quantify over every
`Text = List Char` (unbounded). `parseNPath`, `formatAttrName`, `escapeNix` are the model of
`_parse_npath`, `_format_attr_name`, `_escape_nix_string`; `nixDecodeName` and `renderSeg` are
SPEC definitions (how Nix reads a name token; how the property says a name is written in a path).
-/
namespace Nima.C12

/-! ## Translator tie: the tables the model uses are the tables the Python source has now. -/

theorem tie_escape_table : Gen.escapeTable = some escapeTable := by decide
theorem tie_interp_escape : Gen.interpEscape = some interpEscape := by decide
theorem tie_ident_start : Gen.identStartRanges = some identStartRanges := by decide
theorem tie_ident_rest : Gen.identRestRanges = some identRestRanges := by decide
theorem tie_anchor : Gen.identDollarAnchor = some currentAnchor := by decide
theorem tie_keywords : Gen.npKeywords = some npKeywords := by decide

/-- The model's `escapeNix` is the interpreter of `escapeTable` (so the tie above is about the
    function the theorems speak of). -/
theorem escapeNix_table (interp : Bool) (c : Char) (cs : Text) (r : Text)
    (h : (c, r) ∈ escapeTable) : escapeNix interp (c :: cs) = r ++ escapeNix interp cs := by
  simp only [escapeTable, List.mem_cons, Prod.mk.injEq, List.not_mem_nil, or_false] at h
  rcases h with ⟨rfl, rfl⟩ | ⟨rfl, rfl⟩ | ⟨rfl, rfl⟩ | ⟨rfl, rfl⟩ | ⟨rfl, rfl⟩ <;> simp [escapeNix]

/-! ## 1. Addressability: every list of names, whatever characters they contain, is addressed by
the path that joins their canonical segment spellings with dots. -/

theorem addressable (a : Bool) (n : Text) (ns : List Text) :
    parseNPath a (joinWith ['.'] ((n :: ns).map renderSeg)) = .ok ((n :: ns).map segOf) := by
  unfold parseNPath
  rw [joinWith_renderSeg_ne_nil]
  simp only [Bool.false_eq_true, if_false]
  have h := npRun_path a [] n ns
  have hd : ({} : NPState) = { segs := [], buf := [], inQuotes := false, quotedSeg := false, escape := false } := rfl
  rw [hd, h]
  obtain ⟨h1, h2, st', h3, h4⟩ := endState_finalize a [] n ns
  simp only [h1, h2, h3, Bool.false_eq_true, if_false]
  simpa using h4

/-! ## 2. Faithful writing: the token `set` writes for a segment is read back by Nix as exactly
the segment's name (in particular it contains no live `${`), for every name and both spellings. -/

theorem string_escape_faithful (s : Text) : decodeBody (escapeNix true s) = some s :=
  escape_decode s

theorem faithful_writing (s : Seg) :
    nixDecodeName (formatAttrName false s) = some s.name := by
  unfold formatAttrName formatAttrNameWith
  split
  · -- quoted spelling
    simp only [nixDecodeName]
    simp [escape_decode]
  · rename_i h
    simp only [Bool.or_eq_true, Bool.not_eq_eq_eq_not, Bool.not_true, not_or, Bool.not_eq_true,
      Bool.not_eq_false, reMatchIdent_false] at h
    obtain ⟨⟨_, hid⟩, hkw⟩ := h
    match hn : s.name with
    | [] => simp [hn, isIdent] at hid
    | c :: cs =>
      rw [hn] at hid hkw
      have hc : c ≠ '"' := by
        simp only [isIdent, Bool.and_eq_true] at hid
        exact (identStart_ne c hid.1).2
      have hnix : isNixIdent (c :: cs) = true := by
        simp only [isIdent, Bool.and_eq_true, List.all_eq_true] at hid
        simp only [isNixIdent, Bool.and_eq_true, List.all_eq_true, hid.1, true_and]
        intro d hd
        simp [nixIdentRest, hid.2 d hd]
      have hkw' : nixKeywords.contains (c :: cs) = false := hkw
      unfold nixDecodeName
      split
      · rename_i rest heq
        injection heq with h1 _
        exact absurd h1 hc
      · have : ¬ (c :: cs) ∈ nixKeywords := by simpa using hkw'
        simp [hnix, this]

/-- Both halves together: parse the canonical path of some names, format each segment the way
    `set` writes it, and Nix reads back exactly those names. -/
theorem roundtrip (n : Text) (ns : List Text) :
    ∃ toks, formatNPath false (joinWith ['.'] ((n :: ns).map renderSeg)) = .ok toks ∧
      toks.map nixDecodeName = (n :: ns).map some := by
  refine ⟨((n :: ns).map segOf).map (formatAttrName false), ?_, ?_⟩
  · unfold formatNPath
    rw [addressable]
    simp [Except.map]
  · simp only [List.map_map]
    apply List.map_congr_left
    intro x _
    simp [Function.comp, faithful_writing, segOf]

/-! ## 3. Malformed paths are rejected; nothing that is not an identifier is accepted bare. -/

theorem rejects_empty (a : Bool) : parseNPath a [] = .error .value := rfl

theorem bare_segments_are_identifiers (p : Text) (segs : List Seg)
    (h : parseNPath false p = .ok segs) :
    ∀ s ∈ segs, s.quoted = false → isIdent s.name = true := by
  unfold parseNPath at h
  split at h
  · cases h
  · split at h
    · cases h
    · rename_i st hrun
      split at h
      · cases h
      · split at h
        · cases h
        · split at h
          · rename_i st' hfin
            injection h with h
            subst h
            have h0 : SegsOK ({} : NPState).segs := by intro s hs; cases hs
            exact npFinalize_ok st st' hfin (npRun_ok {} st p hrun h0)
          · cases h

theorem rejects_examples :
    parseNPath false "a..b".toList = .error .value ∧          -- empty segment
    parseNPath false "a.".toList = .error .value ∧            -- trailing dot
    parseNPath false "foo\"bar\"".toList = .error .value ∧     -- quote not at a boundary
    parseNPath false "a.\"b".toList = .error .value ∧          -- unterminated quote
    parseNPath false "a.\"b\\".toList = .error .value ∧        -- dangling escape
    parseNPath false "foo-bar".toList = .error .value ∧        -- not an identifier, unquoted
    parseNPath false "foo\n".toList = .error .value ∧           -- trailing newline (fixed defect)
    parseNPath false "\"a\"b".toList = .error .value ∧          -- text after a closing quote (fixed defect)
    parseNPath false "\"\"b".toList = .error .value := by
  decide

/-- A quoted segment ends at a segment boundary: once the closing quote has been read, every
    character but `.` makes the path malformed (repaired: `"a"b` used to be read as the name `ab`). -/
theorem quoted_segment_ends_at_boundary (a : Bool) (st : NPState) (ch : Char)
    (hq : st.inQuotes = false) (hs : st.quotedSeg = true) (hc : ch ≠ '.') :
    npStep a st ch = .error .value := by
  simp [npStep, hq, hs, hc]

/-! ## 4. The defect that was repaired (`fix:` commit): with Python's `$` anchor the bare
segment `foo\n` was accepted and written verbatim. Kept as a theorem about the model with the
old anchor so that a regression is recognised for what it is. -/

theorem cex_dollar_anchor :
    parseNPath true "foo\n".toList = .ok [⟨"foo\n".toList, false⟩] ∧
    nixDecodeName (formatAttrName true ⟨"foo\n".toList, false⟩) ≠ some "foo\n".toList := by
  decide

theorem cex_keyword_unquoted :
    nixDecodeName (formatAttrNameWith false [] ⟨"if".toList, false⟩) ≠ some "if".toList := by
  decide

/-! ## 5. One attribute per Nix name — FULL statement, false of the current code.

`lookupBySpelling` is how `_find_binding` & co. compare: rendered spelling against rendered
spelling. The property demands that spellings Nix reads as the same name denote one attribute. -/

def OneAttributePerName : Prop :=
  ∀ (fileTok : Text) (s : Seg), nixDecodeName fileTok = some s.name →
    fileTok = formatAttrName false s

/-- Counterexample (open known finding C12-spelling): the file spells the name `a` bare, the path
    addresses it as `"a"`; both denote `a`, the spellings differ, so the lookup misses and a
    second definition is written. Replayed on the implementation by the check. -/
theorem cex_spelling : ¬ OneAttributePerName := by
  intro h
  have := h "a".toList ⟨"a".toList, true⟩ (by decide)
  revert this
  decide

/-- What does hold: the spelling `set` writes is a function of the segment alone, so a second
    `set`/`rm` with the same path text looks for the very same token (refinding). -/
theorem refinding_partial (p : Text) (t1 t2 : List Text)
    (h1 : formatNPath false p = .ok t1) (h2 : formatNPath false p = .ok t2) : t1 = t2 := by
  rw [h1] at h2; injection h2

/-! ## Non-vacuity: the hypotheses above are met by non-trivial inputs. -/

example : parseNPath false "services.\"foo.bar\".\"a\\\"b\"".toList =
    .ok [⟨"services".toList, false⟩, ⟨"foo.bar".toList, true⟩, ⟨"a\"b".toList, true⟩] := by decide
example : formatAttrName false ⟨"${x}\n".toList, true⟩ = "\"\\${x}\\n\"".toList := by decide
example : renderSeg "foo.bar".toList = "\"foo.bar\"".toList := by decide

end Nima.C12
