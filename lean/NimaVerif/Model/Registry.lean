import NimaVerif.Model.Basic
/-!
L7 (e): the context registry of `nix_manipulator/resolution.py`

```python
_CONTEXTS: dict[int, tuple[ReferenceType, ResolutionContext]] = {}
def _store_context(expr, context):        # key id(expr); value (ref(expr, _clear), context)
def _clear(reference):                    # weakref callback: pop only if the stored ref IS `reference`
def _get_context(expr):                   # entry at id(expr); served only if stored_ref() is expr,
                                          # otherwise the stale entry is popped and None returned
def clear_resolution_context(expr):       # pop id(expr)
```

as a state machine. Objects are numbered in order of allocation (`0, 1, 2, …` — the abstract,
never reused identity); every live object occupies an ADDRESS (`id(obj)`), and an address may be
reused once its object is dead. A weak reference is alive iff its referent is.
`free` delivers the callback, `freeQuiet` models a lost callback (the validation in `_get_context`
is what keeps such an entry from being served). Operations that CPython cannot perform (touching a
dead object, allocating at an occupied address) leave the state unchanged.

`Cfg` carries the two facts the translator re-reads from the source on every run
(`Gen/Registry.lean`): whether `_get_context` validates the referent and whether the callback
compares the stored reference; the theorems are about `currentCfg`.
-/
namespace Nima.Registry

structure Cfg where
  /-- `_get_context`: `if stored_ref() is expr` before serving -/
  validateGet : Bool
  /-- `_clear`: `if stored_ref is reference` before popping -/
  guardCallback : Bool
deriving DecidableEq, Repr

def currentCfg : Cfg := ⟨true, true⟩

structure Entry where
  /-- identity of the weak reference object -/
  ref : Nat
  /-- its referent -/
  target : Nat
  ctx : Nat
deriving DecidableEq, Repr

structure Reg where
  /-- number of objects allocated so far (the next object is `next`) -/
  next : Nat := 0
  /-- live object ↦ its address -/
  addr : Nat → Option Nat := fun _ => none
  /-- `_CONTEXTS`: address ↦ entry -/
  table : Nat → Option Entry := fun _ => none
  nextRef : Nat := 0

def init : Reg := {}

inductive Op where
  /-- a new object is created at address `a` -/
  | alloc (a : Nat)
  | free (o : Nat)
  | freeQuiet (o : Nat)
  /-- `_store_context(o, c)` -/
  | store (o : Nat) (c : Nat)
  /-- `_get_context(o)` -/
  | get (o : Nat)
  /-- `clear_resolution_context(o)` -/
  | clear (o : Nat)
deriving DecidableEq, Repr

def Reg.alive (s : Reg) (o : Nat) : Bool := (s.addr o).isSome

def Reg.addrInUse (s : Reg) (a : Nat) : Bool :=
  (List.range s.next).any (fun o => s.addr o == some a)

def Reg.setTable (s : Reg) (a : Nat) (e : Option Entry) : Reg :=
  { s with table := fun a' => if a' = a then e else s.table a' }

/-- `_get_context`: the value returned and the state afterwards -/
def getCtx (cfg : Cfg) (s : Reg) (o : Nat) : Option Nat × Reg :=
  match s.addr o with
  | none => (none, s)
  | some a =>
    match s.table a with
    | none => (none, s)
    | some e =>
      if !cfg.validateGet then (some e.ctx, s)
      else if s.alive e.target && e.target == o then (some e.ctx, s)   -- stored_ref() is expr
      else (none, s.setTable a none)

/-- the weak-reference callback `_clear(reference)` created by the store at address `a` -/
def callback (cfg : Cfg) (s : Reg) (a : Nat) (reference : Nat) : Reg :=
  match s.table a with
  | none => s
  | some e => if !cfg.guardCallback || e.ref == reference then s.setTable a none else s

def step (cfg : Cfg) (s : Reg) : Op → Reg
  | .alloc a =>
    if s.addrInUse a then s
    else { s with next := s.next + 1, addr := fun o => if o = s.next then some a else s.addr o }
  | .free o =>
    match s.addr o with
    | none => s
    | some a =>
      -- the only weak reference to `o` that is still referenced is the one in the table (an
      -- overwritten entry's reference object is gone, and with it its callback)
      let s1 : Reg :=
        match s.table a with
        | some e => if e.target == o then callback cfg s a e.ref else s
        | none => s
      { s1 with addr := fun o' => if o' = o then none else s1.addr o' }
  | .freeQuiet o =>
    match s.addr o with
    | none => s
    | some _ => { s with addr := fun o' => if o' = o then none else s.addr o' }
  | .store o c =>
    match s.addr o with
    | none => s
    | some a => { (s.setTable a (some ⟨s.nextRef, o, c⟩)) with nextRef := s.nextRef + 1 }
  | .get o => (getCtx cfg s o).2
  | .clear o =>
    match s.addr o with
    | none => s
    | some a => s.setTable a none

def run (cfg : Cfg) : Reg → List Op → Reg
  | s, [] => s
  | s, op :: ops => run cfg (step cfg s op) ops

/-- the answers of the `get` operations of a history, in order -/
def answers (cfg : Cfg) : Reg → List Op → List (Option Nat)
  | _, [] => []
  | s, .get o :: ops => (getCtx cfg s o).1 :: answers cfg (step cfg s (.get o)) ops
  | s, op :: ops => answers cfg (step cfg s op) ops

/-! ## SPEC: the registry the property asks for — contexts keyed by the objects themselves -/

structure Abs where
  next : Nat := 0
  alive : Nat → Bool := fun _ => false
  /-- addresses are needed only to decide which allocations can happen -/
  addr : Nat → Option Nat := fun _ => none
  ctx : Nat → Option Nat := fun _ => none

def Abs.addrInUse (s : Abs) (a : Nat) : Bool :=
  (List.range s.next).any (fun o => s.addr o == some a)

def absStep (s : Abs) : Op → Abs
  | .alloc a =>
    if s.addrInUse a then s
    else { s with next := s.next + 1,
                  alive := fun o => if o = s.next then true else s.alive o,
                  addr := fun o => if o = s.next then some a else s.addr o }
  | .free o | .freeQuiet o =>
    if s.alive o then
      { s with alive := fun o' => if o' = o then false else s.alive o',
               addr := fun o' => if o' = o then none else s.addr o',
               ctx := fun o' => if o' = o then none else s.ctx o' }
    else s
  | .store o c => if s.alive o then { s with ctx := fun o' => if o' = o then some c else s.ctx o' } else s
  | .get _ => s
  | .clear o => if s.alive o then { s with ctx := fun o' => if o' = o then none else s.ctx o' } else s

def absRun : Abs → List Op → Abs
  | s, [] => s
  | s, op :: ops => absRun (absStep s op) ops

/-- what `get o` must answer: the context last stored FOR `o` (and not cleared since) -/
def absAnswers : Abs → List Op → List (Option Nat)
  | _, [] => []
  | s, .get o :: ops => (if s.alive o then s.ctx o else none) :: absAnswers (absStep s (.get o)) ops
  | s, op :: ops => absAnswers (absStep s op) ops

end Nima.Registry
