import NimaVerif.Model.NPath
/-!
L5 (value fragment): Python values handed to the construction API and how they are rendered.

Transliteration (bug-compatible) of
* `expression.coerce_expression/_float_literal`, `primitive.Primitive.__new__/_primitive_cls_from_value`,
  `primitive.*Primitive._render_value`, `float.FloatExpression.rebuild`,
  `NixExpression.add_trivia` (with empty `before`/`after`, which is what constructed objects have),
* `list.NixList._item_requires_multiline/_auto_multiline/_inline_preview/simple_inline_preview/rebuild`,
  `list._coerce_list_item/_is_negative_number_literal`, `parenthesis.Parenthesis.rebuild` (empty gaps),
* `binding.Binding.__post_init__/rebuild` (default `value_gap = " "`),
* `set.AttributeSet.__post_init__/from_dict/rebuild/__setitem__`, `set._render_bindings`.

The input types ARE the shape part of the property's domain ("dicts at top level or as binding
values; list elements are scalars or lists"): a dict inside a list is not representable (the code
raises `ValueError` there), floats are given by their Python `repr` text (finite floats only; the
code raises `ValueError` on `inf`/`nan`).

Refusal. `coerce_expression` raises `ValueError` for an int whose magnitude exceeds
`_MAX_INTEGER_LITERAL`. Raw values are coerced when they are rendered, and a rebuild renders every
part of the object (each list item in `render_item`, each binding value in `Binding.rebuild`, each
binding of a set), so `rebuild()` raises exactly when the object holds such an int: `exprRefused`.
The text functions below describe the rebuild of an object that holds none; `renderCtx` puts the
two together (`Except`-valued).
-/
namespace Nima

/-- What may stand in a Python list handed to `NixList` / as a scalar binding value. -/
inductive Elem where
  | none
  | bool (b : Bool)
  | int (i : Int)
  | float (repr : Text)      -- `repr(value)` of a finite Python float (the code spells it `floatLiteral repr`)
  | str (s : Text)
  | list (xs : List Elem)
deriving Repr, Inhabited

/-- A Python value of the property's domain. -/
inductive PyVal where
  | elem (e : Elem)
  | dict (kvs : List (Text × PyVal))
deriving Repr, Inhabited

/-- What a `Binding` holds in `.value` once `__post_init__` has run: a raw Python scalar / list
    (coerced at every rebuild), or an `AttributeSet` built by `from_dict` (bindings in order, and
    the `multiline` flag, which is fixed at construction time). -/
inductive Expr where
  | raw (e : Elem)
  | aset (bs : List (Text × Expr)) (multiline : Bool)
deriving Repr, Inhabited

/-! ## Constants (re-extracted from the source by `harness/translate/gen_value.py`) -/

/-- `list.MAX_INLINE_LIST_WIDTH` -/
def maxInlineListWidth : Nat := 100
/-- `_auto_multiline`: `return count > 2` when `inline and indent == 0`, else `return count > 1`. -/
def autoMultilineThresholds : Nat × Nat := (2, 1)
/-- `from_dict`: `multiline = len(values_list) != 1`; `__post_init__`: `len(items) == 1`. -/
def singleBindingCount : Nat := 1
/-- `_render_value` of `NullPrimitive`, `BooleanPrimitive`. -/
def litNull : Text := "null".toList
def litTrue : Text := "true".toList
def litFalse : Text := "false".toList
/-- `StringPrimitive._render_value`: `f'"{raw_value}"'`, escaper called with its default
    `escape_interpolation=False`. -/
def stringQuotes : Text × Text := (['"'], ['"'])
def stringEscapesInterpolation : Bool := false
/-- Order of the type tests in `coerce_expression` / `_primitive_cls_from_value` (`bool` is tested
    before `int`: `True` is a boolean, not the integer 1). The constructors of `Elem` are these classes. -/
def coerceOrder : List String := ["NixExpression", "None", "bool", "int", "float", "list", "str"]
def primitiveOrder : List String := ["bool", "None", "int", "str"]
/-- `expression._float_literal`: `if "<1>" not in text:` / `text.partition("<2>")` / the text put
    between the mantissa and the exponent mark. -/
def floatLiteralRule : Char × Char × Text := ('.', 'e', ['.', '0'])
/-- `expression._MAX_INTEGER_LITERAL`: `coerce_expression` raises `ValueError` for an int with
    `abs(value) >` this bound. -/
def coerceIntMax : Nat := 9223372036854775807
/-- `list._is_negative_number_literal`: the class tests and what each returns. -/
def negLiteralTests : List (String × String) :=
  [("IntegerPrimitive", "value<0"), ("FloatExpression", "value.startswith:-")]
/-- Which functions of `NixList` coerce an item with `_coerce_list_item` (negative number literals get
    parentheses) and which with plain `coerce_expression` (the multiline probe). -/
def listItemCoercers : List String × List String := (["_inline_preview", "render_item"], ["_auto_multiline"])

/-! ## Construction -/

mutual
/-- `Binding.__post_init__`: a dict payload becomes `AttributeSet.from_dict(value)`; anything else
    is stored as it is. -/
def bindValue : PyVal → Expr
  | .elem e => .raw e
  | .dict kvs => .aset (bindAll kvs) (kvs.length != singleBindingCount)
/-- `[Binding(name=key, value=value) for key, value in values.items()]` -/
def bindAll : List (Text × PyVal) → List (Text × Expr)
  | [] => []
  | (k, v) :: rest => (k, bindValue v) :: bindAll rest
end

/-- `AttributeSet.from_dict(values)` -/
def fromDict (kvs : List (Text × PyVal)) : Expr :=
  .aset (bindAll kvs) (kvs.length != singleBindingCount)

/-- `AttributeSet(values=dict)`: `multiline` defaults to `True`; `__post_init__` turns it off when
    there is exactly one item. -/
def valuesCtor (kvs : List (Text × PyVal)) : Expr :=
  let multiline := true
  .aset (bindAll kvs) (if multiline && kvs.length == singleBindingCount then false else multiline)

/-- the `for binding in self.values: if binding.name == key: binding.value = value; return` loop -/
def replaceFirst (k : Text) (x : Expr) : List (Text × Expr) → Option (List (Text × Expr))
  | [] => none
  | (k', y) :: rest =>
    if k' = k then some ((k', x) :: rest)
    else (replaceFirst k x rest).map ((k', y) :: ·)

/-- `AttributeSet.__setitem__(key, value)` on a constructed set (no `attrpath_order`): the
    `multiline` flag is NOT recomputed. -/
def setItem (s : Expr) (k : Text) (v : PyVal) : Expr :=
  match s with
  | .raw e => .raw e   -- not an attribute set: not reachable from the construction API
  | .aset bs ml =>
    let value := bindValue v        -- dict → AttributeSet.from_dict(value)
    match replaceFirst k value bs with
    | some bs' => .aset bs' ml
    | none => .aset (bs ++ [(k, value)]) ml

/-! ## Domain predicates on strings -/

/-- the string contains `${` (such strings are outside the property's domain) -/
def hasInterp : Text → Bool
  | [] => false
  | '$' :: '{' :: _ => true
  | _ :: cs => hasInterp cs

/-! ## Refusal -/

/-- `coerce_expression(value)` for an int: `if abs(value) > _MAX_INTEGER_LITERAL: raise ValueError` -/
def intRefused (i : Int) : Bool := i.natAbs > coerceIntMax

mutual
/-- some `coerce_expression` call of `coerce_expression(e).rebuild(…)` raises -/
def elemRefused : Elem → Bool
  | .int i => intRefused i
  | .list xs => elemsRefused xs
  | _ => false
def elemsRefused : List Elem → Bool
  | [] => false
  | x :: xs => elemRefused x || elemsRefused xs
end

mutual
/-- some `coerce_expression` call of `value.rebuild(…)` raises -/
def exprRefused : Expr → Bool
  | .raw e => elemRefused e
  | .aset bs _ => bsRefused bs
def bsRefused : List (Text × Expr) → Bool
  | [] => false
  | (_, v) :: rest => exprRefused v || bsRefused rest
end

/-! ## Rendering -/

/-- `expression._float_literal(value)` given `repr(value)`: a repr without `.` (it then has an
    exponent: `1e+16`) gets `.0` in front of the exponent mark — `text.partition("e")` is (before the
    first `e`, `e`, after it), or (text, "", "") when there is none. -/
def floatLiteral (r : Text) : Text :=
  if r.contains floatLiteralRule.1 then r
  else r.takeWhile (· != floatLiteralRule.2.1) ++ (floatLiteralRule.2.2 ++ r.dropWhile (· != floatLiteralRule.2.1))

/-- `f"{self.value}"` for a Python int -/
def pyIntStr (i : Int) : Text :=
  if i < 0 then '-' :: Nat.toDigits 10 i.natAbs else Nat.toDigits 10 i.toNat

/-- `NixExpression.add_trivia(s, indent, inline)` with empty `before` and `after`. -/
def addTrivia (s : Text) (indent : Nat) (inline : Bool) : Text :=
  (if inline then [] else spaces indent) ++ s

/-- `"\n" in s` -/
def hasNl (t : Text) : Bool := t.contains '\n'
/-- `s.endswith("\n")` -/
def endsNl (t : Text) : Bool := t.getLast? == some '\n'
/-- `s.rstrip("\n")` -/
def rstripNl (t : Text) : Text := (t.reverse.dropWhile (· == '\n')).reverse

/-- `NixList._auto_multiline(indent, inline)` for a constructed list (`self.multiline is None`, no
    inner trivia): `count = len(self.value)`, `anyNl` = some item needs several lines. -/
def autoMultiline (count : Nat) (anyNl : Bool) (indent : Nat) (inline : Bool) : Bool :=
  if count == 0 then false
  else if anyNl then true
  else if inline && indent == 0 then count > autoMultilineThresholds.1
  else count > autoMultilineThresholds.2

/-- The text assembly at the end of `NixList.rebuild` for a non-empty list, given the multiline
    decision and the rendered items (no trivia). -/
def listText (multiline : Bool) (items : List Text) (indent : Nat) (inline : Bool) : Text :=
  if multiline then
    let itemsStr := joinWith ['\n'] items
    let indentor := if inline then [] else spaces indent
    let closingSep := if endsNl itemsStr then [] else ['\n']
    indentor ++ ('[' :: '\n' :: itemsStr) ++ closingSep ++ spaces indent ++ [']']
  else
    let itemsStr := joinWith [' '] items
    let indentor := if inline then [] else spaces indent
    indentor ++ ('[' :: ' ' :: itemsStr) ++ [' ', ']']

/-- `list._is_negative_number_literal(coerce_expression(item))`: an `IntegerPrimitive` with
    `value < 0`, a `FloatExpression` whose `value` (the literal) starts with `-`. -/
def isNegLiteral : Elem → Bool
  | .int i => i < 0
  | .float r => (floatLiteral r).head? == some '-'
  | _ => false

/-- `Parenthesis(value=bare).rebuild(indent, inline)` for a constructed parenthesis (empty gaps, no
    trivia), given `inner = bare.rebuild(indent, inline=True)`: `add_trivia(f"({inner})", …)`. -/
def parenText (inner : Text) (indent : Nat) (inline : Bool) : Text :=
  addTrivia ('(' :: (inner ++ [')'])) indent inline

mutual
/-- `coerce_expression(item).rebuild(indent, inline)` for a scalar or list. -/
def renderElem : Elem → Nat → Bool → Text
  | .none, i, inl => addTrivia litNull i inl
  | .bool b, i, inl => addTrivia (if b then litTrue else litFalse) i inl
  | .int n, i, inl => addTrivia (pyIntStr n) i inl
  | .float r, i, inl => addTrivia (floatLiteral r) i inl
  | .str s, i, inl =>
    addTrivia (stringQuotes.1 ++ escapeNix stringEscapesInterpolation s ++ stringQuotes.2) i inl
  | .list xs, i, inl =>
    let multiline := autoMultiline xs.length (anyItemNl xs) i inl
    let indented := if multiline then i + 2 else i
    if xs.isEmpty then
      let indentor := if inl then [] else spaces i
      indentor ++ "[ ]".toList
    else
      -- `render_item`: `expr.rebuild(indent=indented, inline=not multiline)`
      listText multiline (renderItems xs indented (!multiline)) i inl
/-- `[render_item(item) for item in self.value]` with `render_item(item) =
    _coerce_list_item(item).rebuild(indent, inline)`: a negative number literal is wrapped in a
    `Parenthesis`, everything else is rendered as it is. -/
def renderItems : List Elem → Nat → Bool → List Text
  | [], _, _ => []
  | x :: xs, i, inl =>
    (if isNegLiteral x then parenText (renderElem x i true) i inl else renderElem x i inl)
      :: renderItems xs i inl
/-- `any(self._item_requires_multiline(coerce_expression(item)) for item in self.value)`:
    the item (not parenthesised here) is rendered at `indent=0, inline=True` and searched for a newline. -/
def anyItemNl : List Elem → Bool
  | [] => false
  | x :: xs => hasNl (renderElem x 0 true) || anyItemNl xs
end

/-- `NixList.simple_inline_preview(indent=…)` for a constructed list. -/
def simpleInlinePreview (xs : List Elem) (indent : Nat) : Option Text :=
  if xs.length > 1 then none
  else
    let preview :=
      if xs.isEmpty then "[ ]".toList
      else ('[' :: ' ' :: joinWith [' '] (renderItems xs indent true)) ++ [' ', ']']
    if hasNl preview || preview.length > maxInlineListWidth then none else some preview

/-- `render_value(value_expr)` inside `Binding.rebuild` (`value_gap` is `" "`, so the value stays on
    the line of the name and `val_indent = indent`): a list first tries `simple_inline_preview`;
    `rendered` is `value_expr.rebuild(indent=val_indent, inline=True)`. -/
def bindingValueStr (v : Expr) (rendered : Text) (indent : Nat) : Text :=
  match v with
  | .raw (.list xs) =>
    match simpleInlinePreview xs indent with
    | some p => p
    | none => rendered
  | _ => rendered

/-- The rest of `Binding.rebuild`: strip trailing newlines of the value, assemble `name = value;`. -/
def bindingText (name : Text) (valueStr : Text) (indent : Nat) (inline : Bool) : Text :=
  let indentation := if inline then [] else spaces indent
  let valueStr := if endsNl valueStr then rstripNl valueStr else valueStr
  indentation ++ name ++ [' ', '='] ++ [' '] ++ valueStr ++ [';']

/-- The body of `Binding.rebuild` once the value has been rendered. -/
def bindingCore (name : Text) (v : Expr) (rendered : Text) (indent : Nat) (inline : Bool) : Text :=
  bindingText name (bindingValueStr v rendered indent) indent inline

/-- The text assembly of `AttributeSet.rebuild` for a non-empty set, given the rendered bindings
    (`rendered true` at `inline=True`, `rendered false` at `inline=False`, both at `indent + 2`). -/
def setText (multiline : Bool) (rendered : Bool → List Text) (indent : Nat) (inline : Bool) : Text :=
  if multiline then
    let bindingsStr := joinWith ['\n'] (rendered false)
    let closingSep := if endsNl bindingsStr then [] else ['\n']
    let indentation := if inline then [] else spaces indent
    indentation ++ ('{' :: '\n' :: bindingsStr) ++ closingSep ++ spaces indent ++ ['}']
  else
    let bindingsStr := joinWith [' '] (rendered true)
    addTrivia (('{' :: ' ' :: bindingsStr) ++ [' ', '}']) indent inline

mutual
/-- `value.rebuild(indent, inline)` for what a binding holds (after `coerce_expression`). -/
def renderExpr : Expr → Nat → Bool → Text
  | .raw e, i, inl => renderElem e i inl
  | .aset bs ml, i, inl =>
    if bs.isEmpty then addTrivia "{ }".toList i inl
    else setText ml (fun binl => renderBindings bs (i + 2) binl) i inl
/-- `_render_bindings(values, indent, inline)` (no attrpath entries, nothing `nested`). -/
def renderBindings : List (Text × Expr) → Nat → Bool → List Text
  | [], _, _ => []
  | (k, v) :: rest, i, inl =>
    bindingCore k v (renderExpr v i true) i inl :: renderBindings rest i inl
end

/-- `Binding(name, value).rebuild(indent, inline)` -/
def renderBinding (name : Text) (v : Expr) (indent : Nat) (inline : Bool) : Text :=
  bindingCore name v (renderExpr v indent true) indent inline

/-! ## The container contexts of the property -/

inductive Ctx where
  /-- `AttributeSet.from_dict(d).rebuild()` -/
  | fromDict (d : List (Text × PyVal))
  /-- `AttributeSet(values=d).rebuild()` -/
  | values (d : List (Text × PyVal))
  /-- `Binding(name=k, value=v).rebuild()` -/
  | binding (k : Text) (v : PyVal)
  /-- `NixList(value=xs).rebuild()` -/
  | list (xs : List Elem)
  /-- `s = AttributeSet.from_dict(d); s[k] = v; s.rebuild()` -/
  | setItem (d : List (Text × PyVal)) (k : Text) (v : PyVal)
  /-- `src = parse(text); src[k] = v; src.rebuild()` where `text` is the canonical one-line
      (`ml = false`) or one-binding-per-line (`ml = true`) spelling of the set `d`: `parse` sets the
      `multiline` flag from the text, item assignment keeps it. -/
  | setItemOn (d : List (Text × PyVal)) (ml : Bool) (k : Text) (v : PyVal)
deriving Repr, Inhabited

/-- What the context builds: the object whose `rebuild` is called (for a `Binding`, its value). -/
def ctxExpr : Ctx → Expr
  | .fromDict d => fromDict d
  | .values d => valuesCtor d
  | .binding _ v => bindValue v
  | .list xs => .raw (.list xs)
  | .setItem d k v => setItem (fromDict d) k v
  | .setItemOn d ml k v => setItem (.aset (bindAll d) ml) k v

/-- The text of `.rebuild()` (`rebuild(indent=0, inline=False)`) when no value is refused. -/
def renderCtxText : Ctx → Text
  | .binding k v => renderBinding k (bindValue v) 0 false
  | c => renderExpr (ctxExpr c) 0 false

/-- `.rebuild()`: `ValueError` when the object holds an int `coerce_expression` refuses, else the text. -/
def renderCtx (c : Ctx) : Except Err Text :=
  if exprRefused (ctxExpr c) then .error .value else .ok (renderCtxText c)

end Nima
