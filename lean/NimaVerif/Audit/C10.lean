import NimaVerif.Props.C10
open Nima.C10
#print axioms placeholder
