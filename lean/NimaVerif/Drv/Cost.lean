import NimaVerif.Model.Cost
import NimaVerif.Model.SExp
import NimaVerif.Gen.Multiplicity
/-! Driver requests for the cost model (C20):
`(cost <parsed|full|today> <skel>)` with `<skel> = (Class (field <skel>) …)`
→ `(ok <calls> <size> <ddepth>)`. -/
namespace Nima.Drv.Cost
open Nima Nima.Cost

partial def decSkel : SExp → Option Skel
  | .list (.atom k :: kids) => do
    let cs ← kids.mapM fun
      | .list [.atom f, c] => do let c' ← decSkel c; pure (f, c')
      | _ => none
    pure (.node k cs)
  | _ => none

def tableOf (sel : String) : Option Table :=
  if sel == "parsed" then Gen.multiplicityParsed
  else if sel == "full" then Gen.multiplicity
  else if sel == "today" then some todayTable
  else none

def handle (req : SExp) : Option SExp :=
  match req with
  | .list [.atom "cost", .atom sel, sk] =>
    some <| match tableOf sel, decSkel sk with
    | some t, some e =>
      let m := mult t
      .list [.atom "ok", sNat (calls m e), sNat (size e), sNat (ddepth m e)]
    | none, _ => .list [.atom "err", .atom "no-table"]
    | _, none => .list [.atom "bad-arg"]
  | _ => none

end Nima.Drv.Cost
