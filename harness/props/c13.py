"""C13 — values built programmatically render to Nix that denotes the same value.

Tie: translator (escape chain, MAX_INLINE_LIST_WIDTH, the `_auto_multiline` thresholds, the
single-binding rule of `from_dict`/`__post_init__`, literal spellings, type-dispatch order) +
correspondence of the real `rebuild()` of constructed objects with the Lean `renderExpr/renderElem/
renderBinding`, in every container context and at several (indent, inline) pairs.
Oracle (implementation only): the text is read back into Python data by an independent tree-sitter
reader (`cstread.read_data`) and compared, typed, with the original value; output error-free; two
renders equal; `parse(text).rebuild() == text`. A value holding an integer Nix cannot write
(magnitude above 2**63 - 1) is outside the domain BECAUSE the API refuses it: for such a value the
oracle demands the ValueError (clause `refuses`), every time.
The Lean SPEC reader (`readData`) is validated on every sample against the tree-sitter reader.
"""
from __future__ import annotations

import itertools
import json
import math
import time

from .. import framework as fw
from ..framework import hx, unhx
from ..oracle import cstread
from .c12 import ALPHABET

GEN_TABLES = ("escape", "max_inline_width", "auto_multiline", "single_binding", "literals", "coerce_order",
              "list_item_paren", "float_literal", "int_literal_max")

NIX_INT_MAX = 2**63 - 1
INTS = [0, 1, -1, 42, -7, 10, 2**31, -(2**31) - 1, NIX_INT_MAX, -NIX_INT_MAX, 2**63, -(2**63), 10**30]
FLOATS = [0.0, -0.0, 1.5, -1.5, 0.1, 100.0, 1e15, 1e16, 1.5e16, -2.5e20, 1e-4, 1e-5, 1.5e-7, 1e-7, 5e-324,
          1.7976931348623157e308, 123456.789, 1e22, -1e16]
KEYS = ["a", "b", "c", "foo", "_x", "a-b", "a'", "x1", "null", "true", "Z9"]
EXTRA_STRINGS = ["", "hello world", "$$", "a$", "$\\", "$\"", "''", "'' ''", "日本", "\x7f", "\x01", " ", "\x0b",
                 "#c", "/* x */", "a" * 120, "\\n", "\\\\", "{}", "$ {", "\U0001F600", "x" * 95, "x" * 96, "x" * 97]
SAFE_SCALARS = [None, True, False, 1, 42, 1.5, 100.0, "a", "x y", "q\"\\\n"]
AT_VARIANTS = [(0, True), (2, False), (2, True), (4, True)]

SPEC_CORPUS = [
    "[ -1 ]", "[ 1e+16 ]", "[ 1e-07 ]", "{ a = 1e+16; }", "{ a = 1e-07; }", "{ a = -1; }", "{ a = - 1; }", "-5", "- 2.5",
    "[ 1.5.2 ]", "[ 1.5 .2 ]", "[ .5 1.e5 0.5 00.5 ]", "[ .5 1.e5 0.5 ]", "[ 1.5e ]", "[ 1a ]", "[ 1/2 ]", "{ a = 1; a = 2; }",
    "{ a.b = 1; }", "{ \"a\" = 1; }", "[ true false null ]", "[ truee ]", "{ true = 1; null = 2; }", "{ if = 1; }",
    "[ \"a${b}\" ]", "[ \"a\\${b}\" ]", "[ \"$\" \"$$\" \"a$\" \"$\\\\\" \"$\\\"\" ]", "[ \"a\"\"b\" ]", "[ \"a\" \"b\" ]",
    "[[1][2]]", "[ [ ] { } ]", "{ a = [ 1 2 ]; b = { c = \"x\"; }; }", "[ 9223372036854775807 ]", "[ 9223372036854775808 ]",
    "{ a = -9223372036854775808; }", "[ 1 # c\n ]", "[ 1 /* c */ ]", "rec { a = 1; }", "{ inherit a; }", "[ a ]", "[ 1 ] 2",
    "", "[", "[ 1", "{ a = 1 }", "{ a = ; }", "[ \"a ]", "[ 01 ]", "[ 1e5 ]", "[ 1E5 ]", "[ 1.5E+3 1.5e-3 1.5e3 ]", "[ 0.0 -0.0 ]",
    "{ a = -0.0; }", "[ 1\t2\r\n3 ]", "{ a-b = 1; a' = 2; _x = 3; }", "[ (1) ]", "[ (-1) ]", "{ a = (1); }", "[ ''x'' ]",
    "[ (1)(2) ]", "[ (1 2) ]", "[ () ]", "(1)(2)", "[ (1) ((2.5)) ]", "{ a = (-1); }", "( -1 )", "[ \"a\rb\" ]", "[ \"a\\rb\" ]",
    "[ ./a ]", "[ <a> ]", "[ a.b ]", "[ 1 . 2 ]", "[ 1. ]", "[ 1.;", "{ a = 1.; }", "[ -a ]", "{ a = -a; }", "{ a = --1; }",
]


# ------------------------------------------------------------------ values
def is_elem(v) -> bool:
    return not isinstance(v, dict)


def enc(v):
    """Python value -> driver S-expression."""
    if v is None:
        return "n"
    if isinstance(v, bool):
        return ["b", "t" if v else "f"]
    if isinstance(v, int):
        return ["i", str(v)]
    if isinstance(v, float):
        return ["f", hx(repr(v))]
    if isinstance(v, str):
        return ["s", hx(v)]
    if isinstance(v, list):
        return ["l"] + [enc(x) for x in v]
    if isinstance(v, dict):
        return ["d"] + [[hx(k), enc(x)] for k, x in v.items()]
    raise TypeError(type(v))


def dec_data(e):
    """driver data S-expression -> Python value (floats through Python's float())."""
    if e == "null":
        return None
    tag = e[0]
    if tag == "b":
        return e[1] == "t"
    if tag == "i":
        return int(e[1])
    if tag == "f":
        x = float(unhx(e[2]))
        return -x if e[1] == "t" else x
    if tag == "s":
        return unhx(e[1])
    if tag == "l":
        return [dec_data(x) for x in e[1:]]
    if tag == "a":
        return {unhx(kv[0]): dec_data(kv[1]) for kv in e[1:]}
    raise ValueError(e)


def strings_stream(ctx, full_len, n_random, max_rand_len=8):
    seen = set()

    def ok(s):
        return "${" not in s and "\x00" not in s and s not in seen

    for L in range(0, full_len + 1):
        for tup in itertools.product(ALPHABET, repeat=L):
            s = "".join(tup)
            if ok(s):
                seen.add(s)
                yield s
    for s in EXTRA_STRINGS:
        if ok(s):
            seen.add(s)
            yield s
    for _ in range(n_random):
        L = ctx.rng.randint(full_len + 1, max_rand_len)
        s = "".join(ctx.rng.choice(ALPHABET) for _ in range(L))
        if ok(s):
            seen.add(s)
            yield s


def list_shapes(d, leaf):
    """every list nesting shape of depth <= d with 0..3 elements per level (3 only when all alike)"""
    yield leaf
    if d > 0:
        subs = list(list_shapes(d - 1, leaf))
        yield []
        for n in (1, 2, 3):
            for t in itertools.product(subs, repeat=n):
                if n == 3 and len(set(map(repr, t))) > 1:
                    continue
                yield list(t)


def value_shapes(d, leaf):
    yield from list_shapes(d, leaf)
    if d > 0:
        subs = list(value_shapes(d - 1, leaf))
        yield {}
        for s in subs:
            yield {"a": s}
        for s in subs:
            yield {"a": s, "b": leaf}
            yield {"a": leaf, "b": s}
        for s in subs[: 12]:
            yield {"a": leaf, "b": s, "c": leaf}


def random_scalar(ctx, pools):
    r = ctx.rng.random()
    if r < 0.12:
        return ctx.rng.choice([None, True, False])
    if r < 0.37:
        return ctx.rng.choice(INTS) if ctx.rng.random() < 0.5 else ctx.rng.randint(-10**6, 10**6)
    if r < 0.6:
        if ctx.rng.random() < 0.6:
            return ctx.rng.choice(FLOATS)
        x = ctx.rng.choice([1, -1]) * ctx.rng.random() * 10 ** ctx.rng.randint(-12, 25)
        return x
    return ctx.rng.choice(pools["strings"])


def random_elem(ctx, depth, pools):
    if depth == 0 or ctx.rng.random() < 0.45:
        return random_scalar(ctx, pools)
    n = ctx.rng.choice([0, 1, 1, 2, 2, 3, 4])
    return [random_elem(ctx, depth - 1, pools) for _ in range(n)]


def random_value(ctx, depth, pools):
    if depth == 0 or ctx.rng.random() < 0.5:
        return random_elem(ctx, depth, pools)
    n = ctx.rng.choice([0, 1, 1, 2, 2, 3, 4])
    keys = ctx.rng.sample(KEYS, n)
    return {k: random_value(ctx, depth - 1, pools) for k in keys}


def random_dict(ctx, depth, pools):
    n = ctx.rng.choice([0, 1, 1, 2, 2, 3, 4])
    keys = ctx.rng.sample(KEYS, n)
    return {k: random_value(ctx, depth - 1, pools) for k in keys}


# ------------------------------------------------------------------ cases
def mk(context, indent=0, inline=False, **args):
    return {"context": context, "indent": indent, "inline": inline, **args}


def contexts_for(v, rich=True):
    """Every container context a value can be handed to the construction API in."""
    if isinstance(v, dict):
        yield mk("fromdict", d=v)
        yield mk("values", d=v)
    elif isinstance(v, list):
        yield mk("list", xs=v)
    yield mk("binding", k="k", v=v)
    yield mk("fromdict", d={"k": v})
    yield mk("fromdict", d={"a": 1, "k": v})
    yield mk("values", d={"k": v})
    if is_elem(v):
        yield mk("list", xs=[v])
        yield mk("list", xs=[1, v])
        yield mk("list", xs=[[v]])
        yield mk("fromdict", d={"k": [v, v]})
    yield mk("setitem", d={}, k="k", v=v)
    yield mk("setitem", d={"a": 1}, k="k", v=v)
    yield mk("setitem", d={"k": 0, "z": 1}, k="k", v=v)
    yield mk("setitem", d={"a": 1, "k": {"x": 0}, "z": 2}, k="k", v=v)
    yield mk("parsed", d={"a": 1}, ml=False, k="k", v=v)
    yield mk("parsed", d={"a": 1}, ml=True, k="k", v=v)
    # replacing an existing parsed literal of every kind (the new value must not inherit anything from it)
    yield mk("parsed", d={"a": 1, "k": "old"}, ml=True, k="k", v=v)
    yield mk("parsed", d={"k": "old", "z": "s"}, ml=False, k="k", v=v)
    yield mk("parsed", d={"k": True}, ml=False, k="k", v=v)
    yield mk("parsed", d={"k": [1, 2], "a": None}, ml=True, k="k", v=v)
    if rich:
        yield mk("fromdict", d={"p": {"k": v}})
        yield mk("fromdict", d={"p": {"a": 1, "k": v}, "q": 2})
        yield mk("setitem", d={"a": 1, "b": 2}, k="k", v=v)
        yield mk("parsed", d={}, ml=False, k="k", v=v)
        yield mk("parsed", d={}, ml=True, k="k", v=v)
        yield mk("parsed", d={"a": 1, "k": 2}, ml=False, k="k", v=v)
        yield mk("parsed", d={"b": 7, "k": 2, "a": 1}, ml=True, k="k", v=v)
        for ind, inl in AT_VARIANTS:
            yield mk("binding", ind, inl, k="k", v=v)
            if isinstance(v, list):
                yield mk("list", ind, inl, xs=v)
            if isinstance(v, dict):
                yield mk("fromdict", ind, inl, d=v)


def case_request(c):
    ctx = c["context"]
    if ctx in ("fromdict", "values"):
        body = [ctx, enc(c["d"])]
    elif ctx == "binding":
        body = ["binding", hx(c["k"]), enc(c["v"])]
    elif ctx == "list":
        body = ["list", enc(c["xs"])]
    elif ctx == "parsed":
        body = ["setitemon", enc(c["d"]), "t" if c["ml"] else "f", hx(c["k"]), enc(c["v"])]
    else:
        body = ["setitem", enc(c["d"]), hx(c["k"]), enc(c["v"])]
    return ["value", str(c["indent"]), "t" if c["inline"] else "f", body]


def base_text(d: dict, ml: bool) -> str:
    """Canonical spelling of a set of integer bindings: on one line, or one binding per line."""
    def lit(v):
        if v is True or v is False:
            return "true" if v else "false"
        if v is None:
            return "null"
        if isinstance(v, int) and v >= 0:
            return str(v)
        if isinstance(v, str) and v.isalnum():
            return '"' + v + '"'
        if isinstance(v, list) and v and all(isinstance(x, int) and not isinstance(x, bool) and x >= 0 for x in v):
            return "[ " + " ".join(str(x) for x in v) + " ]"
        raise AssertionError(v)

    if ml:
        return "{\n" + "".join(f"  {k} = {lit(v)};\n" for k, v in d.items()) + "}"
    return "{ " + "".join(f"{k} = {lit(v)}; " for k, v in d.items()) + "}"



def build(c):
    """Hand the value to the construction API (fresh objects every time)."""
    from nix_manipulator.expressions.binding import Binding
    from nix_manipulator.expressions.list import NixList
    from nix_manipulator.expressions.set import AttributeSet

    ctx = c["context"]
    if ctx == "fromdict":
        return AttributeSet.from_dict(c["d"])
    if ctx == "values":
        return AttributeSet(values=c["d"])
    if ctx == "binding":
        return Binding(name=c["k"], value=c["v"])
    if ctx == "list":
        return NixList(value=c["xs"])
    if ctx == "parsed":
        from nix_manipulator import parse

        src = parse(base_text(c["d"], c["ml"]))
        src[c["k"]] = c["v"]
        return src
    s = AttributeSet.from_dict(c["d"])
    s[c["k"]] = c["v"]
    return s


def expected(c):
    ctx = c["context"]
    if ctx in ("fromdict", "values"):
        return c["d"]
    if ctx == "binding":
        return {c["k"]: c["v"]}
    if ctx == "list":
        return c["xs"]
    out = dict(c["d"])
    out[c["k"]] = c["v"]
    return out


def render_real(c):
    obj = build(c)
    if c["context"] == "parsed" or (c["indent"] == 0 and not c["inline"]):
        return obj, obj.rebuild()
    return obj, obj.rebuild(indent=c["indent"], inline=c["inline"])


def exc_class(exc: BaseException) -> str:
    if isinstance(exc, ValueError):
        return "value"
    if isinstance(exc, KeyError):
        return "key"
    if isinstance(exc, TypeError):
        return "type"
    return "internal:" + type(exc).__name__


# ------------------------------------------------------------------ domain
def out_of_range(v) -> bool:
    """The value holds an integer Nix has no literal for (the API must refuse it)."""
    if isinstance(v, bool) or v is None or isinstance(v, (str, float)):
        return False
    if isinstance(v, int):
        return abs(v) > NIX_INT_MAX
    if isinstance(v, list):
        return any(out_of_range(x) for x in v)
    return any(out_of_range(x) for x in v.values())


def inputs_out_of_range(c) -> bool:
    """Some value handed in (also one that a later assignment replaces) is out of range: the Lean
    domain predicate `ctxInDomain` speaks about the inputs."""
    return any(out_of_range(c[f]) for f in ("d", "v", "xs") if f in c)


def wrap(c, text):
    return "{ " + text + " }" if c["context"] == "binding" else text


def inline_multiline_shape(text: str) -> str:
    """Classify an unstable text: the first container that is opened inline (first content on the
    bracket's line) yet spans several lines."""
    root = cstread.ts_parse(text)
    stack = [root]
    while stack:
        n = stack.pop(0)
        if n.type in ("attrset_expression", "list_expression") and n.start_point[0] != n.end_point[0]:
            kids = [k for k in n.named_children]
            if n.type == "attrset_expression":
                kids = [b for k in kids if k.type == "binding_set" for b in k.named_children]
            if kids and kids[0].start_point[0] == n.start_point[0]:
                return "inline-attrset-multiline-child" if n.type == "attrset_expression" else "inline-list-multiline-child"
        stack[0:0] = list(n.named_children)
    return "other"


def check_clauses(c, with_stable=True):
    """Evaluate the property's clauses on the implementation. Returns (clause, what, extra) or None."""
    from nix_manipulator import parse

    if out_of_range(expected(c)):
        # outside the domain, provided the API says so loudly — on every attempt
        for attempt in ("first", "second"):
            try:
                _, text = render_real(c)
            except ValueError:
                continue
            except Exception as exc:  # noqa: BLE001
                return "refuses", f"an out-of-range integer made the rebuild raise {type(exc).__name__} (not ValueError): {exc}", {}
            return "refuses", (f"{attempt} rebuild wrote an integer outside Nix's signed 64-bit range instead of raising "
                               f"ValueError: {text!r}"), {"output": text}
        return None
    try:
        obj, text = render_real(c)
    except Exception as exc:  # noqa: BLE001
        return "raises", f"construction/rebuild raised {type(exc).__name__}: {exc}", {}
    doc = wrap(c, text)
    if not cstread.error_free(doc):
        return "parses", f"rendered text has a syntax error: {doc!r}", {"output": text}
    try:
        got = cstread.read_data(doc)
    except cstread.NotData as exc:
        return "reads-back", f"rendered text is not the data handed in ({exc}): {doc!r}", {"output": text}
    want = expected(c)
    if not cstread.same_data(got, want):
        return "reads-back", f"Nix reads {got!r}, the value handed in was {want!r}", {"output": text}
    try:
        again = obj.rebuild() if c["context"] == "parsed" else obj.rebuild(indent=c["indent"], inline=c["inline"])
        fresh = render_real(c)[1]
    except Exception as exc:  # noqa: BLE001
        return "deterministic", f"second render raised {type(exc).__name__}: {exc}", {"output": text}
    if again != text or fresh != text:
        return "deterministic", f"two renders differ: {text!r} / {again!r} / {fresh!r}", {"output": text}
    if with_stable and c["context"] != "binding" and c["indent"] == 0 and not c["inline"]:
        try:
            re = parse(text).rebuild()
        except Exception as exc:  # noqa: BLE001
            return "stable", f"re-parsing the rendered text raised {type(exc).__name__}: {exc}", {"output": text}
        if re != text:
            return "stable", f"parse(text).rebuild() differs: {text!r} -> {re!r}", {"output": text, "reparsed": re}
    return None


def classify(c, res):
    clause, what, extra = res
    if clause == "stable":
        kind = inline_multiline_shape(extra.get("output", ""))
        return {"clause": "stable", "kind": kind, "context": c["context"]}
    kind = "int-out-of-range" if clause == "refuses" else "none"
    return {"clause": clause, "kind": kind, "context": c["context"]}


def observe_case(ctx: fw.Ctx, c) -> bool:
    res = check_clauses(c)
    if res is None:
        return True
    key = classify(c, res)
    ctx.count("fail:" + key["clause"] + ":" + key["kind"])
    ctx.fail(key, c, res[1], **res[2])
    return False


def nontrivial(c) -> bool:
    v = c.get("v", c.get("xs", c.get("d")))
    return isinstance(v, (list, dict)) and len(v) > 0 or (isinstance(v, str) and any(ch in v for ch in '"\\\n\r\t$'))


# ------------------------------------------------------------------ the run
def gen_cases(ctx: fw.Ctx):
    quick = ctx.quick
    pools = {"strings": list(strings_stream(ctx, 1, 0)) + EXTRA_STRINGS}
    seen = set()

    def emit(c):
        k = json.dumps(c, sort_keys=True, default=repr)
        if k in seen:
            return None
        seen.add(k)
        return c

    # 0. the witnesses of the Lean counterexample theorems and the inputs of the known findings, replayed
    witnesses = [mk("list", xs=[-1]), mk("list", xs=[1e16]), mk("binding", k="a", v=1e-07),
                 mk("binding", k="a", v=2**63), mk("fromdict", d={"k": [1, 2]}),
                 mk("binding", 2, True, k="k", v=[[1, 2]]), mk("fromdict", d={"a": 1, "k": [[1, 2]]})]
    for ent in sum(fw.load_known("C13"), []):  # open findings, and repaired ones as regression inputs
        inp = ent.get("input", {})
        if "context" in inp:
            witnesses.append({"indent": 0, "inline": False, **inp})
    for c in witnesses:
        if emit(c):
            ctx.count("witnesses_replayed")
            yield c
    # 1. every scalar representative in every context
    scalars = [None, True, False] + INTS + FLOATS
    for v in scalars:
        for c in contexts_for(v):
            if emit(c):
                yield c
    # 2. strings over the escape alphabet
    strs = list(strings_stream(ctx, 3 if quick else 4, 1500 if quick else 30000))
    for i, s in enumerate(strs):
        rich = len(s) <= 1 or i % 7 == 0
        for c in (contexts_for(s, rich=True) if rich else (mk("list", xs=[s]), mk("binding", k="k", v=s),
                                                             mk("fromdict", d={"a": 1, "k": s}))):
            if emit(c):
                yield c
    # 3. every container shape
    depth = 2 if quick else 3
    leaves = [1] if quick else [1, "s"]
    for leaf in leaves:
        for v in value_shapes(depth, leaf):
            for c in contexts_for(v, rich=(depth == 2)):
                if emit(c):
                    yield c
    # shapes with each kind of scalar at the leaves (one level less)
    for leaf in (-1, 1e16, 1.5, "a\nb", None, True, -2.5, 2**63):
        for v in value_shapes(depth - 1, leaf):
            for c in contexts_for(v, rich=False):
                if emit(c):
                    yield c
    # 4. width rule of simple_inline_preview (single-element list as a binding value)
    for n in range(90, 104):
        for v in (["x" * n], [["x" * n]], [int("1" * n)]):
            for c in (mk("binding", k="k", v=v), mk("fromdict", d={"k": v}), mk("fromdict", d={"a": 1, "k": v}),
                      mk("binding", 4, True, k="k", v=v)):
                if emit(c):
                    yield c
    # 5. keys
    for k in KEYS:
        for c in (mk("fromdict", d={k: 1}), mk("fromdict", d={k: {k: [1, 2]}, "zz": 1}), mk("binding", k=k, v=1),
                  mk("setitem", d={"a": 1}, k=k, v={"b": 2})):
            if emit(c):
                yield c
    # 6. random values
    n_random = 12000 if quick else 100000
    max_depth = 2 if quick else 4
    for _ in range(n_random):
        d = ctx.rng.randint(1, max_depth)
        r = ctx.rng.random()
        if r < 0.35:
            c = mk("fromdict" if ctx.rng.random() < 0.7 else "values", d=random_dict(ctx, d, pools))
        elif r < 0.55:
            v = random_elem(ctx, d, pools)
            c = mk("list", xs=v if isinstance(v, list) else [v])
        elif r < 0.75:
            c = mk("binding", k=ctx.rng.choice(KEYS), v=random_value(ctx, d, pools))
        else:
            c = mk("setitem", d=random_dict(ctx, max(1, d - 1), pools), k=ctx.rng.choice(KEYS), v=random_value(ctx, d, pools))
        if c["context"] == "setitem" and ctx.rng.random() < 0.3:
            base = {k: ctx.rng.randint(0, 99) for k in ctx.rng.sample(KEYS, ctx.rng.randint(0, 3))}
            c = mk("parsed", d=base, ml=ctx.rng.random() < 0.5, k=c["k"], v=c["v"])
        elif ctx.rng.random() < 0.2:
            c["indent"], c["inline"] = ctx.rng.choice(AT_VARIANTS)
        if emit(c):
            yield c


def run(ctx: fw.Ctx):
    ctx.extra["rule"] = (
        "values: every scalar representative (13 ints incl. the 64-bit bounds and three beyond them, which must be "
        "refused; 19 floats incl. exponent forms, "
        "bools, None, every string up to a length bound over a 17-letter escape alphabet) in every container "
        "context (from_dict, AttributeSet(values=), Binding, NixList, item assignment on built and on parsed sets; top level, binding value, "
        "list element, nested) and at several (indent, inline); every list/dict nesting shape up to a depth "
        "bound; random nested values; non-trivial = a non-empty container or a string with a character that "
        "needs escaping"
    )
    ctx.trusted_base = [
        "Lean 4 kernel; axioms propext, Classical.choice, Quot.sound only",
        "translator harness/translate (gen_tables: escape chain; gen_value: width, thresholds, literals, dispatch order)",
        "correspondence harness (this file) and the driver's hex line protocol",
        "tree-sitter-nix as the independent reader of the rendered text (harness/oracle/cstread.read_data)",
        "SPEC definitions Tok/lexData/pValue/readData/readBinding (Model/DataReader.lean), decodeBody (Model/Escape.lean)",
    ]
    ctx.assumptions = [
        "Nix reads integers/floats/strings per the lexer rules mirrored in Model/DataReader.lean; integer literals must fit 64 bits",
        "an integer of magnitude above 2**63 - 1 is outside the domain because (and as long as) the API refuses it with ValueError",
        "Nix and Python round the real number a decimal float literal denotes to the same double (repr round-trips in Python); "
        "`1.0e+16` and `1e+16` denote the same number (Lean: decValue)",
        "`-` in front of a numeric literal denotes the negated number (Nix: 0 - x; -0.0 compares equal to 0.0)",
        "strings are valid Unicode without NUL (Nix strings cannot hold NUL); dict keys are distinct identifiers, not keywords",
        "finite floats only; a dict inside a list is outside the domain (the code raises ValueError)",
    ]
    t0 = time.time()
    state = {"bad": 0, "spec_bad": 0, "flag_bad": 0, "first": True}
    batch = []
    for c in gen_cases(ctx):
        batch.append(c)
        if len(batch) >= BATCH:
            run_batch(ctx, batch, state)
            batch = []
    if batch or state["first"]:
        run_batch(ctx, batch, state)
    ctx.count("correspondence_disagreements", state["bad"])
    ctx.count("spec_corpus", len(SPEC_CORPUS))
    ctx.count("spec_disagreements", state["spec_bad"])
    ctx.count("side_condition_disagreements", state["flag_bad"])
    ctx.count("gen_seconds", int(time.time() - t0))
    render_edit_render(ctx)


def render_edit_render(ctx: fw.Ctx):
    """Item assignment AFTER a first rendering: the next rendering denotes the new value (a rendering
    must not be remembered past a later assignment, at any depth)."""
    from nix_manipulator import parse
    from nix_manipulator.expressions.set import AttributeSet

    values = [5, "s", 'q"r', True, None, [1, 2], {"z": 1}, -3, 1.5]
    shapes = [
        ({"a": {"x": 1}, "b": 2}, ["a"], "x"), ({"a": {"x": 1}, "b": 2}, ["a"], "y"), ({"a": {"x": 1}, "b": 2}, [], "b"),
        ({"p": {"q": {"r": 1}}}, ["p", "q"], "r"), ({"p": {"q": {"r": 1}}}, ["p"], "k"), ({"a": {"x": 1}}, [], "a"),
    ]
    for how in ("fromdict", "parsed"):
        for d, keys, k in shapes:
            for v in values:
                def build():
                    if how == "fromdict":
                        return AttributeSet.from_dict(d)
                    return parse(AttributeSet.from_dict(d).rebuild())
                for op in ("set", "del"):
                    if op == "del" and (keys, k) not in ((["a"], "x"), ([], "b"), (["p", "q"], "r")):
                        continue
                    c = {"context": "render-edit-render", "how": how, "d": d, "keys": keys, "k": k, "v": v, "op": op}
                    ctx.case(c, True)
                    try:
                        obj = build()
                        obj.rebuild()
                        m = obj
                        for kk in keys:
                            m = m[kk]
                        if op == "set":
                            m[k] = v
                        else:
                            del m[k]
                        text = obj.rebuild()
                        got = cstread.read_data(text)
                    except Exception as exc:  # noqa: BLE001
                        ctx.fail({"clause": "render-edit-render", "outcome": type(exc).__name__, "how": how}, c,
                                 f"render, {op} at {keys + [k]!r}, render again raised {type(exc).__name__}: {exc}")
                        continue
                    want = json.loads(json.dumps(d))
                    w = want
                    for kk in keys:
                        w = w[kk]
                    if op == "set":
                        w[k] = v
                    else:
                        del w[k]
                    if not cstread.same_data(got, want):
                        ctx.fail({"clause": "render-edit-render", "outcome": "stale", "how": how}, {**c, "output": text},
                                 f"after a first rendering, {op} at {keys + [k]!r} = {v!r}: the next rendering reads {got!r}, "
                                 f"expected {want!r} ({text!r})")


BATCH = 40000


def run_batch(ctx: fw.Ctx, cases, state):
    """Correspondence + observation for one batch of cases (bounded memory)."""
    ctx.count("cases", len(cases))
    # ---------------- correspondence: real rebuild vs Lean model, and SPEC reader vs tree-sitter reader
    reqs = [case_request(c) for c in cases]
    impl = []
    for c in cases:
        try:
            impl.append(["ok", render_real(c)[1]])
        except Exception as exc:  # noqa: BLE001
            impl.append(["err", exc_class(exc)])
    corpus = SPEC_CORPUS if state["first"] else []
    state["first"] = False
    replies = ctx.driver.ask_many(reqs + [["readdata", hx(t)] for t in corpus])
    ctx.corr_checked += len(reqs)
    for c, rq, im, got in zip(cases, reqs, impl, replies):
        if got and got[0] == "ok":
            model, flag_atoms = ["ok", unhx(got[1])], got[3:6]
        elif got and got[0] == "err":
            model, flag_atoms = ["err", got[1]], got[2:5]
        else:
            model, flag_atoms = None, []
        if model != im:
            state["bad"] += 1
            if state["bad"] <= 5:
                ctx.tie_break("correspondence", f"rebuild of {c['context']} disagrees with the model on {c!r}",
                              request=rq, implementation=im, model=model)
            continue
        # the Lean predicates are the harness's: in the domain = readable = no out-of-range integer among the
        # inputs; must be refused = the data expected back holds one
        flags = [x == "t" for x in flag_atoms]
        in_dom = not inputs_out_of_range(c)
        if flags != [in_dom, in_dom, out_of_range(expected(c))]:
            state["flag_bad"] += 1
            if state["flag_bad"] <= 3:
                ctx.tie_break("spec", f"Lean (inDomain, readable, mustRefuse) = {flags} but the harness computes "
                              f"{[in_dom, in_dom, out_of_range(expected(c))]} for {c!r}")
        if model[0] == "err":
            ctx.count("refused")
            continue
        # SPEC validation: whatever the Lean reader reads, the tree-sitter reader reads too
        if got[2] != "none":
            lean_val = dec_data(got[2][1])
            try:
                ts_val = cstread.read_data(wrap(c, im[1]))
                agree = cstread.same_data(lean_val, ts_val)
            except cstread.NotData:
                agree = False
            if not agree:
                state["spec_bad"] += 1
                if state["spec_bad"] <= 3:
                    ctx.tie_break("spec", f"Lean readData and the tree-sitter reader disagree on {im[1]!r}",
                                  lean=got[2], text=im[1])
            ctx.count("spec_reads_some")
        else:
            ctx.count("spec_reads_none")
    for t, got in zip(corpus, replies[len(reqs):]):
        if got != "none":
            try:
                agree = cstread.same_data(dec_data(got[1]), cstread.read_data(t))
            except cstread.NotData:
                agree = False
            if not agree:
                state["spec_bad"] += 1
                ctx.tie_break("spec", f"Lean readData accepts {t!r} but the tree-sitter reader does not read the same data",
                              lean=got)
        else:
            ctx.count("spec_corpus_rejected")
    ctx.count("correspondence_requests", len(reqs))

    # ---------------- observation on the implementation; Lean's verdict must match where it says `some`
    for c, got in zip(cases, replies):
        ctx.case({k: c[k] for k in c if k not in ("indent", "inline") or c[k]}, nontrivial(c))
        ctx.count("ctx:" + c["context"])
        ok = observe_case(ctx, c)
        if ok and got and got[0] == "ok" and got[2] == "none":
            # implementation passes, but the SPEC reader rejects the model's text: SPEC too strict
            ctx.tie_break("spec", f"oracle accepts the output for {c!r} but Lean readData gives none", text=unhx(got[1]))


def search(ctx: fw.Ctx):
    """Broken tie: explore a wider random stream with the oracle only (time-boxed)."""
    pools = {"strings": list(strings_stream(ctx, 2, 200))}
    budget = 30 if ctx.quick else 300
    t0 = time.time()
    n = 0
    while time.time() - t0 < budget and n < 400000:
        n += 1
        d = ctx.rng.randint(1, 4)
        r = ctx.rng.random()
        if r < 0.4:
            c = mk("fromdict", d=random_dict(ctx, d, pools))
        elif r < 0.6:
            v = random_elem(ctx, d, pools)
            c = mk("list", xs=v if isinstance(v, list) else [v])
        elif r < 0.8:
            c = mk("binding", k=ctx.rng.choice(KEYS), v=random_value(ctx, d, pools))
        else:
            c = mk("setitem", d=random_dict(ctx, 2, pools), k=ctx.rng.choice(KEYS), v=random_value(ctx, d, pools))
        if not observe_case(ctx, c) and len([f for f in ctx.failures if f["key"]["kind"] in ("none", "other")]) >= 3:
            break
    ctx.count("search_cases", n)


def replay(payload: dict) -> int:
    c = payload.get("input", {})
    print("replaying", c)
    if "context" not in c:
        print("tie-level replay:", json.dumps(payload.get("no_longer_checks", payload), indent=1)[:2000])
        return 1
    c.setdefault("indent", 0)
    c.setdefault("inline", False)
    try:
        _, text = render_real(c)
        print("rendered:", repr(text))
    except Exception as exc:  # noqa: BLE001
        print("raised", type(exc).__name__, exc)
    res = check_clauses(c)
    if res is None:
        print("all clauses hold")
        return 0
    print("fails clause", res[0], ":", res[1])
    return 1
