"""Worker for C20: parse + rebuild of texts in a separate interpreter, so that a crash of the
interpreter itself (SIGSEGV) is an observation and not the end of the check.

stdin: one JSON list of texts. stdout: one JSON object per line; `{"i": k, "start": true}` before
text k is processed and `{"i": k, "exc": class-or-null, "kind": …, "site": …}` after it."""
from __future__ import annotations

import json
import sys
import traceback


def main() -> int:
    texts = json.loads(sys.stdin.read())
    from nix_manipulator import parse
    from nix_manipulator.exceptions import NixSyntaxError

    out = sys.stdout
    for i, text in enumerate(texts):
        out.write(json.dumps({"i": i, "start": True}) + "\n")
        out.flush()
        rec = {"i": i, "exc": None, "kind": None, "site": None, "msg": None}
        try:
            parse(text).rebuild()
        except Exception as exc:  # noqa: BLE001
            rec["exc"] = type(exc).__name__
            rec["kind"] = ("NixSyntaxError" if isinstance(exc, NixSyntaxError)
                           else "documented" if isinstance(exc, ValueError) else "internal")
            rec["msg"] = str(exc)[:120]
            site = "?"
            for fs in traceback.extract_tb(exc.__traceback__):
                if "nix_manipulator" in fs.filename:
                    site = f"{fs.filename.split('nix_manipulator/')[-1]}:{fs.name}"
            rec["site"] = site
        out.write(json.dumps(rec) + "\n")
        out.flush()
    return 0


if __name__ == "__main__":
    sys.exit(main())
