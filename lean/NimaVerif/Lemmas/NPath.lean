import NimaVerif.Lemmas.Escape
/-! Lemmas about the NPath tokenizer. -/
namespace Nima

theorem npRun_append (a : Bool) (st : NPState) (x y : Text) :
    npRun a st (x ++ y) = (npRun a st x).bind (fun st' => npRun a st' y) := by
  induction x generalizing st with
  | nil => rfl
  | cons c cs ih =>
    simp only [List.cons_append, npRun]
    cases h : npStep a st c with
    | error e => rfl
    | ok st' => simp [ih]

/-- Outside quotes, characters other than `.` and `"` are appended to the buffer. -/
theorem npRun_bare (a : Bool) (st : NPState) (w : Text) (hq : st.inQuotes = false)
    (hs : st.quotedSeg = false) (hw : ∀ c ∈ w, c ≠ '.' ∧ c ≠ '"') :
    npRun a st w = .ok { st with buf := st.buf ++ w } := by
  induction w generalizing st with
  | nil => simp [npRun]
  | cons c cs ih =>
    have hc := hw c (by simp)
    have hstep : npStep a st c = .ok { st with buf := st.buf ++ [c] } := by
      simp [npStep, hq, hs, hc.1, hc.2]
    simp only [npRun, hstep]
    rw [ih { st with buf := st.buf ++ [c] } hq hs (fun d hd => hw d (by simp [hd]))]
    simp [List.append_assoc]

/-- Inside quotes, the canonical escaping of `n` appends exactly `n`. -/
theorem npRun_inQuotes (a : Bool) (st : NPState) (n : Text) (hq : st.inQuotes = true)
    (he : st.escape = false) :
    npRun a st (escQuoteBackslash n) = .ok { st with buf := st.buf ++ n } := by
  induction n generalizing st with
  | nil => simp [npRun, escQuoteBackslash]
  | cons c cs ih =>
    by_cases hc : c = '"' ∨ c = '\\'
    · simp only [escQuoteBackslash, hc, if_true, npRun]
      have s1 : npStep a st '\\' = .ok { st with escape := true } := by
        simp [npStep, hq, he]
      have s2 : npStep a { st with escape := true } c =
          .ok { st with buf := st.buf ++ [c] } := by
        rcases hc with h | h <;> subst h <;> simp [npStep, hq, he]
      simp only [s1, s2]
      rw [ih { st with buf := st.buf ++ [c] } hq he]
      simp [List.append_assoc]
    · have hc1 : c ≠ '"' := fun h => hc (Or.inl h)
      have hc2 : c ≠ '\\' := fun h => hc (Or.inr h)
      simp only [escQuoteBackslash, hc, if_false, npRun]
      have s1 : npStep a st c = .ok { st with buf := st.buf ++ [c] } := by
        simp [npStep, hq, he, hc1, hc2]
      simp only [s1]
      rw [ih { st with buf := st.buf ++ [c] } hq he]
      simp [List.append_assoc]

theorem identStart_ne (c : Char) (h : identStart c = true) : c ≠ '.' ∧ c ≠ '"' := by
  constructor <;> (intro hc; subst hc; revert h; decide)

theorem identRest_ne (c : Char) (h : identRest c = true) : c ≠ '.' ∧ c ≠ '"' := by
  constructor <;> (intro hc; subst hc; revert h; decide)

theorem isIdent_chars (n : Text) (h : isIdent n = true) : ∀ c ∈ n, c ≠ '.' ∧ c ≠ '"' := by
  match n with
  | [] => simp [isIdent] at h
  | d :: ds =>
    simp only [isIdent, Bool.and_eq_true, List.all_eq_true] at h
    intro c hc
    rcases List.mem_cons.mp hc with rfl | hm
    · exact identStart_ne _ h.1
    · exact identRest_ne _ (h.2 c hm)

theorem isIdent_ne_nil (n : Text) (h : isIdent n = true) : n ≠ [] := by
  intro hn; subst hn; simp [isIdent] at h

/-- What one rendered segment does to a tokenizer state that is at a segment boundary. -/
theorem npRun_renderSeg (a : Bool) (st : NPState) (n : Text) (hq : st.inQuotes = false)
    (he : st.escape = false) (hb : st.buf = []) (hs : st.quotedSeg = false) :
    npRun a st (renderSeg n) =
      .ok { st with buf := n, quotedSeg := (st.quotedSeg || !isIdent n) } := by
  by_cases hi : isIdent n = true
  · simp only [renderSeg, hi, if_true]
    rw [npRun_bare a st n hq hs (isIdent_chars n hi)]
    simp [hb]
  · have hi' : isIdent n = false := by simpa using hi
    simp only [renderSeg, hi', Bool.false_eq_true, if_false, List.cons_append]
    simp only [npRun]
    have s1 : npStep a st '"' = .ok { st with inQuotes := true } := by
      simp [npStep, hq, hb, hs]
    simp only [s1]
    rw [npRun_append, npRun_inQuotes a { st with inQuotes := true } n rfl he]
    simp [Except.bind, npRun, npStep, he, hb, hq]

/-- the state reached after the tokenizer has consumed the rendering of `names` -/
def segOf (n : Text) : Seg := ⟨n, !isIdent n⟩

theorem npFinalize_segOf (a : Bool) (acc : List Seg) (n : Text) :
    npFinalize a { segs := acc, buf := n, inQuotes := false, quotedSeg := !isIdent n, escape := false } =
      .ok { segs := acc ++ [segOf n], buf := [], inQuotes := false, quotedSeg := false, escape := false } := by
  by_cases hi : isIdent n = true
  · have hne : n ≠ [] := isIdent_ne_nil n hi
    have : n.isEmpty = false := by cases n <;> simp_all
    simp [npFinalize, hi, this, reMatchIdent, segOf]
  · have hi' : isIdent n = false := by simpa using hi
    simp [npFinalize, hi', segOf]

/-- tokenizer state after consuming the rendering of `n :: ns` from a boundary state -/
def endState (acc : List Seg) : Text → List Text → NPState
  | n, [] => { segs := acc, buf := n, inQuotes := false, quotedSeg := !isIdent n, escape := false }
  | n, m :: ms => endState (acc ++ [segOf n]) m ms

theorem npRun_path (a : Bool) (acc : List Seg) (n : Text) (ns : List Text) :
    npRun a { segs := acc, buf := [], inQuotes := false, quotedSeg := false, escape := false }
        (joinWith ['.'] ((n :: ns).map renderSeg)) = .ok (endState acc n ns) := by
  induction ns generalizing acc n with
  | nil =>
    simp only [List.map, joinWith, endState]
    rw [npRun_renderSeg a _ n rfl rfl rfl rfl]
    simp
  | cons m ms ih =>
    simp only [List.map, joinWith, endState]
    rw [npRun_append, npRun_append, npRun_renderSeg a _ n rfl rfl rfl rfl]
    simp only [Except.bind, Bool.false_or, npRun]
    have hdot : npStep a { segs := acc, buf := n, inQuotes := false, quotedSeg := !isIdent n, escape := false } '.' =
        .ok { segs := acc ++ [segOf n], buf := [], inQuotes := false, quotedSeg := false, escape := false } := by
      simp only [npStep]
      simpa using npFinalize_segOf a acc n
    simp only [hdot]
    have := ih (acc ++ [segOf n]) m
    simp only [List.map] at this
    exact this

theorem endState_finalize (a : Bool) (acc : List Seg) (n : Text) (ns : List Text) :
    (endState acc n ns).escape = false ∧ (endState acc n ns).inQuotes = false ∧
    ∃ st', npFinalize a (endState acc n ns) = .ok st' ∧ st'.segs = acc ++ (n :: ns).map segOf := by
  induction ns generalizing acc n with
  | nil =>
    refine ⟨rfl, rfl, _, npFinalize_segOf a acc n, by simp⟩
  | cons m ms ih =>
    simp only [endState]
    obtain ⟨h1, h2, st', h3, h4⟩ := ih (acc ++ [segOf n]) m
    exact ⟨h1, h2, st', h3, by simp [h4, List.append_assoc]⟩

theorem joinWith_renderSeg_ne_nil (n : Text) (ns : List Text) :
    (joinWith ['.'] ((n :: ns).map renderSeg)).isEmpty = false := by
  have h : ∀ x, (renderSeg x).isEmpty = false := by
    intro x
    by_cases hi : isIdent x = true
    · have := isIdent_ne_nil x hi
      simp only [renderSeg, hi, if_true]
      cases x <;> simp_all
    · have hi' : isIdent x = false := by simpa using hi
      simp [renderSeg, hi']
  cases ns with
  | nil => simpa [joinWith] using h n
  | cons m ms =>
    simp only [List.map, joinWith]
    have := h n
    cases hr : renderSeg n <;> simp_all

end Nima

namespace Nima

def SegsOK (segs : List Seg) : Prop := ∀ s ∈ segs, s.quoted = false → isIdent s.name = true

theorem reMatchIdent_false (s : Text) : reMatchIdent false s = isIdent s := by
  simp [reMatchIdent]

theorem npFinalize_ok (st st' : NPState) (h : npFinalize false st = .ok st') (hs : SegsOK st.segs) :
    SegsOK st'.segs := by
  unfold npFinalize at h
  split at h
  · cases h
  · split at h
    · cases h
    · rename_i h1 h2
      injection h with h
      subst h
      intro s hs'
      simp only [List.mem_append, List.mem_singleton] at hs'
      rcases hs' with hm | rfl
      · exact hs s hm
      · intro hq
        simp only at hq
        simp only [hq, Bool.not_false, Bool.true_and, Bool.and_eq_true, Bool.not_eq_eq_eq_not,
          Bool.not_true, not_and, Bool.not_eq_false, reMatchIdent_false] at h1 h2
        by_cases he : st.buf.isEmpty = true
        · exact absurd he (by simpa using h1)
        · have : st.buf.isEmpty = false := by simpa using he
          simpa [this] using h2

theorem npStep_ok (st st' : NPState) (c : Char) (h : npStep false st c = .ok st')
    (hs : SegsOK st.segs) : SegsOK st'.segs := by
  unfold npStep at h
  split at h
  · split at h
    · injection h with h; subst h; exact hs
    · split at h
      · injection h with h; subst h; exact hs
      · split at h <;> (injection h with h; subst h; exact hs)
  · split at h
    · exact npFinalize_ok st st' h hs
    · split at h
      · cases h
      · split at h
        · split at h
          · cases h
          · injection h with h; subst h; exact hs
        · injection h with h; subst h; exact hs

theorem npRun_ok (st st' : NPState) (p : Text) (h : npRun false st p = .ok st')
    (hs : SegsOK st.segs) : SegsOK st'.segs := by
  induction p generalizing st with
  | nil => simp [npRun] at h; subst h; exact hs
  | cons c cs ih =>
    simp only [npRun] at h
    cases hstep : npStep false st c with
    | error e => simp [hstep] at h
    | ok st1 =>
      simp only [hstep] at h
      exact ih st1 h (npStep_ok st st1 c hstep hs)

end Nima
