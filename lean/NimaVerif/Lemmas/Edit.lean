import NimaVerif.Model.Edit
/-! Helper lemmas about the edit model. -/
namespace Nima
-- name tokens are compared by spelling in this file (see `NameCmp` in Model/Edit.lean)
attribute [local instance] NameCmp.spelled

theorem splitScopeNpath_error (p : Text) (e : Err) (h : splitScopeNpath p = .error e) : e = .value := by
  unfold splitScopeNpath at h
  dsimp only at h
  split at h
  · cases h
  · split at h
    · injection h with h; exact h.symm
    · cases h

end Nima
