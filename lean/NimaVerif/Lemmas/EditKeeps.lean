import NimaVerif.Lemmas.EditFail
/-!
Helper lemmas for C08 histories: every operation of the edit model leaves `noTarget`, the kind of
the target node and the absence of a scratch set alone, so well-formedness (`WF`) is an invariant
of histories.
-/
namespace Nima.EditFail
-- name tokens are compared by spelling in this file (see `NameCmp` in Model/Edit.lean)
attribute [local instance] NameCmp.spelled

open Nima.Node Nima.EditM

/-! ### what no write of the edit code touches -/

/-- `d'` has the same edit target kind as `d`, and no scratch set if `d` had none -/
def Keeps (d d' : Doc) : Prop :=
  d'.noTarget = d.noTarget ∧ d'.target.isSet = d.target.isSet ∧ (d.scratch = none → d'.scratch = none)

theorem Keeps.refl (d : Doc) : Keeps d d := ⟨rfl, rfl, id⟩
theorem Keeps.trans {a b c : Doc} (h1 : Keeps a b) (h2 : Keeps b c) : Keeps a c :=
  ⟨h2.1.trans h1.1, h2.2.1.trans h1.2.1, fun h => h2.2.2 (h1.2.2 h)⟩

theorem updSet_isSet (sid : Nat) (f : Node → Node) (hf : ∀ n, (f n).isSet = n.isSet) :
      ∀ n : Node, (Node.updSet sid f n).isSet = n.isSet
    | .atom _ => rfl
    | .ident _ => rfl
    | .set s vs o m r => by
        unfold Node.updSet
        split
        · exact hf _
        · rfl
    | .bind .. => rfl
    | .inherit .. => rfl
    | .entry .. => rfl

theorem updBind_isSet (id : Nat) (v : Node) (n : Node) : (Node.updBind id v n).isSet = n.isSet := by
  cases n <;> try (simp [Node.updBind, isSet]; done)
  unfold Node.updBind
  split <;> rfl

theorem Keeps.updSet (d : Doc) (sid : Nat) (f : Node → Node) (hf : ∀ n, (f n).isSet = n.isSet) :
    Keeps d (d.updSet sid f) :=
  ⟨rfl, updSet_isSet sid f hf _, fun h => by simp [Doc.updSet, h]⟩

theorem Keeps.updBind (d : Doc) (id : Nat) (v : Node) : Keeps d (d.updBind id v) :=
  ⟨rfl, updBind_isSet id v _, fun h => by simp [Doc.updBind, h]⟩

/-- every state the computation can end in (failed or not) `Keeps` the start state -/
def Pres {α : Type} (m : EditM α) : Prop := ∀ d r d', m d = (r, d') → Keeps d d'

theorem Pres.pure {α : Type} (a : α) : Pres (pure a : EditM α) := by
  intro d r d' h; cases h; exact Keeps.refl _
theorem Pres.throw {α : Type} (e : Err) : Pres (EditM.throw e : EditM α) := by
  intro d r d' h; cases h; exact Keeps.refl _
theorem Pres.get : Pres EditM.get := by
  intro d r d' h; cases h; exact Keeps.refl _
theorem Pres.modify (f : Doc → Doc) (hf : ∀ d, Keeps d (f d)) : Pres (EditM.modify f) := by
  intro d r d' h; cases h; exact hf _
theorem Pres.fresh : Pres fresh := by
  intro d r d' h; cases h; exact ⟨rfl, rfl, id⟩

theorem Pres.bind {α β : Type} {m : EditM α} {f : α → EditM β} (hm : Pres m) (hf : ∀ a, Pres (f a)) :
    Pres (m >>= f) := by
  intro d r d' h
  simp only [bind_apply] at h
  rcases hw : m d with ⟨r1, d1⟩
  rw [hw] at h
  have k1 := hm _ _ _ hw
  cases r1 with
  | error e => cases h; exact k1
  | ok a => exact k1.trans (hf a _ _ _ h)

theorem Pres.ite {α : Type} {c : Prop} [Decidable c] {m n : EditM α} (hm : Pres m) (hn : Pres n) :
    Pres (if c then m else n) := by
  split <;> assumption

theorem Pres.assign (bid : Nat) (v : Node) : Pres (assign bid v) :=
  Pres.modify _ fun d => Keeps.updBind d bid v

theorem Pres.appendValue (sid : Nat) (b : Node) : Pres (appendValue sid b) :=
  Pres.modify _ fun d => Keeps.updSet d sid _ fun n => by cases n <;> rfl

theorem Pres.appendOrderIfNonEmpty (sid : Nat) (b : Node) : Pres (appendOrderIfNonEmpty sid b) :=
  Pres.modify _ fun d => Keeps.updSet d sid _ fun n => by
    cases n <;> try rfl
    dsimp only; split <;> rfl

theorem Pres.removeValueById (sid bid : Nat) : Pres (removeValueById sid bid) :=
  Pres.modify _ fun d => Keeps.updSet d sid _ fun n => by cases n <;> rfl

theorem Pres.setSetItem (s : Node) (key : Text) (v : Node) : Pres (setSetItem s key v) := by
  unfold Nima.setSetItem
  split
  · split
    · exact Pres.assign _ _
    · exact Pres.pure _
  · refine Pres.bind Pres.fresh fun _ => ?_
    exact Pres.bind (Pres.appendValue _ _) fun _ => Pres.appendOrderIfNonEmpty _ _
  · exact Pres.throw _

theorem Pres.setDelItem (s : Node) (key : Text) : Pres (setDelItem s key) := by
  unfold Nima.setDelItem
  split
  · split
    · exact Pres.modify _ fun d => Keeps.updSet d _ _ fun n => by cases n <;> rfl
    · exact Pres.pure _
  · exact Pres.throw _

theorem Pres.scopeSetItem (key : Text) (v : Node) : Pres (scopeSetItem key v) := by
  intro d r d' h
  unfold Nima.scopeSetItem at h
  split at h
  · split at h
    · exact Pres.assign _ _ _ _ _ h
    · cases h; exact Keeps.refl _
  · cases h; exact ⟨rfl, rfl, id⟩

theorem Pres.scopeDelItem (key : Text) : Pres (scopeDelItem key) := by
  intro d r d' h
  unfold Nima.scopeDelItem at h
  split at h
  · cases h; exact Keeps.refl _
  · split at h
    · cases h; exact Keeps.refl _
    · cases h; exact ⟨rfl, rfl, id⟩

theorem Pres.setAttrpathWalk (segs : List Text) : ∀ cur, Pres (setAttrpathWalk cur segs) := by
  induction segs with
  | nil => intro cur; exact Pres.pure _
  | cons seg more ih =>
    intro cur
    rw [Nima.setAttrpathWalk.eq_2]
    split
    · split
      · exact ih _
      · exact Pres.throw _
    · refine Pres.ite (Pres.throw _) ?_
      split
      · exact Pres.throw _
      · refine Pres.bind Pres.fresh fun _ => ?_
        refine Pres.bind Pres.fresh fun _ => ?_
        exact Pres.bind (Pres.appendValue _ _) fun _ => ih _

theorem Pres.setAttrpathValue (tsSid : Nat) (root : Node) (segs : List Text) (v : Node) :
    Pres (setAttrpathValue tsSid root segs v) := by
  unfold Nima.setAttrpathValue
  split
  · refine Pres.bind (Pres.setAttrpathWalk _ _) fun c => ?_
    split
    · exact Pres.throw _
    · refine Pres.ite (Pres.throw _) ?_
      split
      · split
        · exact Pres.assign _ _
        · exact Pres.pure _
      · split
        · exact Pres.throw _
        · refine Pres.bind Pres.fresh fun _ => ?_
          exact Pres.bind (Pres.appendValue _ _) fun _ => Pres.appendOrderIfNonEmpty _ _
  · exact Pres.throw _

theorem Pres.pruneParents (st : List (Node × Node)) : Pres (pruneParents st) := by
  induction st with
  | nil => exact Pres.pure _
  | cons pb rest ih =>
    obtain ⟨parent, b⟩ := pb
    rw [Nima.pruneParents.eq_2]
    refine Pres.bind Pres.get fun d => ?_
    split
    · dsimp only
      refine Pres.ite ?_ (Pres.pure _)
      exact Pres.bind (Pres.removeValueById _ _) fun _ => ih
    · exact Pres.pure _

theorem Pres.removeAttrpathValue (ts : Node) (segs : List Text) : Pres (removeAttrpathValue ts segs) := by
  unfold Nima.removeAttrpathValue
  split
  · exact Pres.throw _
  · exact Pres.throw _
  · split
    · split
      · refine Pres.bind (Pres.removeValueById _ _) fun _ => ?_
        refine Pres.bind (Pres.modify _ fun d => Keeps.updSet d _ _ fun n => by cases n <;> rfl) fun _ => ?_
        exact Pres.pruneParents _
      · exact Pres.throw _
    · exact Pres.throw _

theorem Pres.resolveParentWalk (cm : Bool) (segs : List Text) :
    ∀ cur, Pres (resolveParentWalk cm cur segs) := by
  induction segs with
  | nil => intro cur; exact Pres.pure _
  | cons key more ih =>
    intro cur
    rw [Nima.resolveParentWalk.eq_2]
    split
    · exact ih _
    · exact Pres.throw _
    · refine Pres.ite (Pres.throw _) ?_
      split
      · exact Pres.throw _
      · refine Pres.bind Pres.fresh fun _ => ?_
        exact Pres.bind (Pres.setSetItem _ _ _) fun _ => ih _

theorem Pres.assignThrough (ts : Node) (wl : Bool) (name : Text) (v : Node) :
    Pres (assignThrough ts wl name v) := by
  unfold Nima.assignThrough
  refine Pres.bind Pres.get fun d => ?_
  refine Pres.ite (Pres.pure _) ?_
  split
  · exact Pres.bind (Pres.assign _ _) fun _ => Pres.pure _
  · exact Pres.pure _

theorem Pres.assignExisting (ts parent : Node) (wl : Bool) (b v : Node) :
    Pres (assignExisting ts parent wl b v) := by
  unfold Nima.assignExisting
  split
  · refine Pres.bind (Pres.assignThrough _ _ _ _) fun r => ?_
    refine Pres.ite (Pres.pure _) ?_
    refine Pres.bind Pres.get fun d => ?_
    dsimp only
    split
    · split
      · exact Pres.assign _ _
      · exact Pres.pure _
    · split
      · split
        · exact Pres.assign _ _
        · exact Pres.pure _
      · exact Pres.assign _ _
  · exact Pres.assign _ _
  · exact Pres.pure _

theorem Pres.setValueInAttrset (ts : Node) (wl : Bool) (npath : Text) (v : Node) :
    Pres (setValueInAttrset ts wl npath v) := by
  unfold Nima.setValueInAttrset
  split
  · exact Pres.throw _
  · exact Pres.throw _
  · exact Pres.throw _
  · split
    · split
      · exact Pres.assign _ _
      · exact Pres.pure _
    · dsimp only
      split
      · split
        · exact Pres.throw _
        · split
          · exact Pres.assignExisting _ _ _ _ _
          · exact Pres.setSetItem _ _ _
      · split
        · exact Pres.setAttrpathValue _ _ _ _
        · refine Pres.bind (Pres.resolveParentWalk _ _ _) fun c => ?_
          split
          · exact Pres.throw _
          · split
            · exact Pres.assignExisting _ _ _ _ _
            · exact Pres.setSetItem _ _ _

theorem Pres.removeValueInAttrset (ts : Node) (npath : Text) : Pres (removeValueInAttrset ts npath) := by
  unfold Nima.removeValueInAttrset
  split
  · exact Pres.throw _
  · exact Pres.throw _
  · split
    · exact Pres.removeAttrpathValue _ _
    · dsimp only
      split
      · split
        · exact Pres.throw _
        · split
          · exact Pres.throw _
          · exact Pres.setDelItem _ _
      · split
        · exact Pres.removeAttrpathValue _ _
        · refine Pres.bind (Pres.resolveParentWalk _ _ _) fun c => ?_
          split
          · exact Pres.throw _
          · exact Pres.setDelItem _ _

theorem Keeps.setLayerScope (d : Doc) (idx : Nat) (sc : List Node) : Keeps d (d.setLayerScope idx sc) := by
  unfold Doc.setLayerScope
  split
  · exact ⟨rfl, rfl, id⟩
  · split <;> exact ⟨rfl, rfl, id⟩

theorem Keeps.writeScopeLayers (layers : List Layer) (r : Option Layer) (d : Doc) :
    Keeps d (writeScopeLayers layers r d) := by
  unfold Nima.writeScopeLayers
  split
  · dsimp only
    split <;> exact ⟨rfl, rfl, id⟩
  · exact ⟨rfl, rfl, id⟩

theorem onLayer_keeps (layers : List Layer) (fd : Bool) (idx : Nat) (op : Node → EditM Unit)
    (hop : ∀ s, Pres (op s)) : Pres (onLayer layers fd idx op) := by
  intro d r d' h
  unfold onLayer at h
  split at h
  · cases h; exact Keeps.refl _
  · rename_i l hl
    dsimp only at h
    rcases hr : op (layerAsSet d.next l) { d with next := d.next + 1, scratch := some (layerAsSet d.next l) } with ⟨r1, d1⟩
    rw [hr] at h
    have k1 := hop _ _ _ _ hr
    have k2 : Keeps d { d1 with scratch := none } := ⟨k1.1, k1.2.1, fun _ => rfl⟩
    cases r1 with
    | ok u => cases h; exact k2
    | error e1 =>
      dsimp only at h
      split at h
      · cases h; exact k2.trans (Keeps.setLayerScope _ _ _)
      · cases h; exact k2

theorem Keeps.same {d d' : Doc} (h : d.same d') : Keeps d d' := by
  unfold Doc.same at h
  cases d; cases d'
  simp only [Doc.mk.injEq] at h
  obtain ⟨h1, h2, h3, h4, h5, h6, h7, h8, h9, h10, h11, h12, h13, h14, h15, h16⟩ := h
  exact ⟨h1, by simp [h2], fun hs => by simp_all⟩

theorem setValue_keeps (p : Text) (v : ValueArg) : Pres (setValue p v) := by
  intro d r d' h
  unfold setValue at h
  split at h
  · cases h; exact Keeps.refl _
  · cases h; exact Keeps.refl _
  · split at h
    · cases h; exact Keeps.refl _
    · cases h; exact Keeps.refl _
    · split at h
      · cases h; exact Keeps.refl _
      · split at h
        · cases h; exact Keeps.refl _
        · dsimp only at h
          split at h
          · cases h; exact Keeps.refl _
          · exact Pres.setValueInAttrset _ _ _ _ _ _ _ h
          · rename_i layers fromDoc d0 hstep
            have k0 : Keeps d d0 := by
              split at hstep
              · split at hstep
                · cases hstep
                · split at hstep
                  · cases hstep
                  · cases hstep; exact ⟨rfl, rfl, id⟩
              · cases hstep; exact Keeps.refl _
            split at h
            · cases h; exact k0
            · split at h
              · rename_i ho
                cases h
                exact k0.trans ((onLayer_keeps _ _ _ _ (fun s => Pres.setValueInAttrset s _ _ _) _ _ _ ho).trans
                  (Keeps.writeScopeLayers _ _ _))
              · rename_i ho
                cases h
                exact k0.trans (onLayer_keeps _ _ _ _ (fun s => Pres.setValueInAttrset s _ _ _) _ _ _ ho)
      · split at h
        · cases h; exact Keeps.refl _
        · exact Pres.setValueInAttrset _ _ _ _ _ _ _ h

theorem Keeps.trailing {d d' : Doc} (h : Keeps d d') (t : Payload) : Keeps d { d' with trailing := t } := h
theorem Keeps.rstripped {d d' : Doc} (h : Keeps d d') (b : Bool) : Keeps d { d' with rstripped := b } := h

theorem Keeps.ite {c : Prop} [Decidable c] {d x y : Doc} (hx : Keeps d x) (hy : Keeps d y) :
    Keeps d (if c then x else y) := by
  split <;> assumption

theorem removeValue_keeps (p : Text) : Pres (removeValue p) := by
  intro d r d' h
  unfold removeValue at h
  split at h
  · cases h; exact Keeps.refl _
  · cases h; exact Keeps.refl _
  · split at h
    · cases h; exact Keeps.refl _
    · split at h
      · cases h; exact Keeps.refl _
      · extract_lets layers at h
        split at h
        · cases h; exact Keeps.refl _
        · split at h
          · rename_i ho
            cases h
            exact onLayer_keeps _ _ _ _ (fun s => Pres.removeValueInAttrset s _) _ _ _ ho
          · rename_i layers' d1 ho
            have k1 := onLayer_keeps _ _ _ _ (fun s => Pres.removeValueInAttrset s _) _ _ _ ho
            extract_lets removed layers'' e1 e2 e3 e4 rs at h
            cases h
            have k2 : Keeps d e1 := k1.trans (Keeps.writeScopeLayers _ _ _)
            have k3 : Keeps d e2 := Keeps.ite (k2.trailing _) k2
            clear_value e2 e1 layers'' rs
            have k4 : Keeps d e3 := by
              clear_value removed
              cases removed with
              | none => exact k3
              | some r => exact Keeps.ite (Keeps.ite (k3.trailing _) (k3.trailing _)) k3
            have k5 : Keeps d e4 := Keeps.ite (k4.trailing _) k4
            exact k5.rstripped _
    · split at h
      · cases h; exact Keeps.refl _
      · rename_i ts hr
        have key : removeValueInAttrset ts p d = (r, d') := by
          rw [← h]
          unfold removeValueInAttrset
          cases hf : formatNPath currentAnchor p with
          | error e => rfl
          | ok segs =>
            cases segs with
            | nil => rfl
            | cons seg0 segRest =>
              dsimp only
              split
              · rfl
              · split
                · split
                  · rfl
                  · split <;> rfl
                · split <;> rfl
        exact Pres.removeValueInAttrset _ _ _ _ _ key

theorem WF.scratch {d : Doc} (h : WF d) : d.scratch = none := Option.isNone_iff_eq_none.mp h.1

theorem WF.of_keeps {d d' : Doc} (h : WF d) (k : Keeps d d') : WF d' :=
  ⟨Option.isNone_iff_eq_none.mpr (k.2.2 (WF.scratch h)), k.2.1.trans h.2⟩

theorem Op.run_keeps (op : Op) : Pres op.run := by
  cases op with
  | set p v => exact setValue_keeps p v
  | rm p => exact removeValue_keeps p

theorem Op.run_error {op : Op} {d d' : Doc} {e : Err} (hscr : d.scratch = none)
    (h : op.run d = (.error e, d')) : Rejected d e d' := by
  cases op with
  | set p v => exact setValue_error hscr h
  | rm p => exact removeValue_error hscr h

/-- a path that does not start with `@` has no scope selector -/
theorem splitScopeNpath_plain {p : Text} (h : p.head? ≠ some '@') : splitScopeNpath p = .ok none := by
  unfold splitScopeNpath
  have : p.takeWhile (· == '@') = [] := by
    cases p with
    | nil => rfl
    | cons c cs =>
      have hc : c ≠ '@' := by simpa using h
      have hb : (c == '@') = false := by simpa using hc
      simp only [List.takeWhile, hb]
  simp [this]

/-- without a scope selector a rejected `set` returns exactly the state it started in -/
theorem setValue_error_exact {p : Text} {v : ValueArg} {d d' : Doc} {e : Err}
    (hp : splitScopeNpath p = .ok none) (h : setValue p v d = (.error e, d')) : d' = d := by
  unfold setValue at h
  split at h
  · cases h; rfl
  · cases h; rfl
  · split at h
    · cases h; rfl
    · cases h; rfl
    · rw [hp] at h
      dsimp only at h
      split at h
      · cases h; rfl
      · exact (setValueInAttrset_clean _ _ _ _ _ _ _ h).1

theorem removeValue_error_exact {p : Text} {d d' : Doc} {e : Err}
    (hp : splitScopeNpath p = .ok none) (h : removeValue p d = (.error e, d')) : d' = d := by
  unfold removeValue at h
  split at h
  · cases h; rfl
  · cases h; rfl
  · rw [hp] at h
    dsimp only at h
    split at h
    · cases h; rfl
    · rename_i ts hr
      have key : removeValueInAttrset ts p d = (.error e, d') := by
        rw [← h]
        unfold removeValueInAttrset
        cases hf : formatNPath currentAnchor p with
        | error e => rfl
        | ok segs =>
          cases segs with
          | nil => rfl
          | cons seg0 segRest =>
            dsimp only
            split
            · rfl
            · split
              · split
                · rfl
                · split <;> rfl
              · split <;> rfl
      exact (removeValueInAttrset_clean _ _ _ _ _ key).1

/-! ### histories -/

theorem finalDoc_nil (d : Doc) : finalDoc d [] = d := rfl

theorem finalDoc_cons (d : Doc) (r : Except Err Unit × Doc) (tr : List (Except Err Unit × Doc)) :
    finalDoc d (r :: tr) = finalDoc r.2 tr := by
  cases tr with
  | nil => rfl
  | cons x xs =>
    have h : (x :: xs).getLast? = some ((x :: xs).getLast (by simp)) := List.getLast?_eq_some_getLast _
    simp [finalDoc, List.getLast?_cons_cons, h]

theorem runOps_cons (op : Op) (ops : List Op) (d : Doc) :
    runOps (op :: ops) d = op.run d :: runOps ops (op.run d).2 := rfl

/-- well-formedness is an invariant of histories, and `noTarget` never changes -/
theorem runOps_wf (ops : List Op) : ∀ (d : Doc), WF d →
    ∀ r ∈ runOps ops d, WF r.2 ∧ r.2.noTarget = d.noTarget := by
  induction ops with
  | nil => intro d _ r hr; cases hr
  | cons op ops ih =>
    intro d hd r hr
    have k := Op.run_keeps op d (op.run d).1 (op.run d).2 rfl
    rw [runOps_cons] at hr
    rcases List.mem_cons.mp hr with rfl | hm
    · exact ⟨WF.of_keeps hd k, k.1⟩
    · obtain ⟨h1, h2⟩ := ih _ (WF.of_keeps hd k) r hm
      exact ⟨h1, h2.trans k.1⟩

theorem runOps_failed_step (ops : List Op) : ∀ (d : Doc) (i : Nat) (e : Err) (d' : Doc), WF d →
    (runOps ops d)[i]? = some (.error e, d') →
    Rejected (finalDoc d ((runOps ops d).take i)) e d' ∧
      (finalDoc d ((runOps ops d).take i)).noTarget = d.noTarget ∧
      WF (finalDoc d ((runOps ops d).take i)) := by
  induction ops with
  | nil => intro d i e d' _ h; simp [runOps] at h
  | cons op ops ih =>
    intro d i e d' hd h
    rw [runOps_cons] at h ⊢
    cases i with
    | zero =>
      simp only [List.getElem?_cons_zero, Option.some.injEq] at h
      simp only [List.take_zero, finalDoc_nil]
      exact ⟨Op.run_error (WF.scratch hd) h, trivial, hd⟩
    | succ k =>
      simp only [List.getElem?_cons_succ] at h
      simp only [List.take_succ_cons, finalDoc_cons]
      have kp := Op.run_keeps op d (op.run d).1 (op.run d).2 rfl
      obtain ⟨h1, h2, h3⟩ := ih _ k e d' (WF.of_keeps hd kp) h
      exact ⟨h1, h2.trans kp.1, h3⟩

theorem runOps_lastGood (ops : List Op) : ∀ (d0 d : Doc), d0.same d → WF d →
    (lastGood d0 (runOps ops d)).same (finalDoc d (runOps ops d)) := by
  induction ops with
  | nil => intro d0 d h _; exact h
  | cons op ops ih =>
    intro d0 d h hd
    rw [runOps_cons, finalDoc_cons]
    have kp := Op.run_keeps op d (op.run d).1 (op.run d).2 rfl
    rcases hr : op.run d with ⟨r, d1⟩
    rw [hr] at kp
    cases r with
    | ok u => exact ih d1 d1 (Doc.same_refl _) (WF.of_keeps hd kp)
    | error e =>
      have hs := (Op.run_error (WF.scratch hd) hr).1
      exact ih d0 d1 (Doc.same_trans h hs) (WF.of_keeps hd kp)

theorem Op.run_error_exact {op : Op} {d d' : Doc} {e : Err} (hp : op.plain)
    (h : op.run d = (.error e, d')) : d' = d := by
  cases op with
  | set p v => exact setValue_error_exact (splitScopeNpath_plain hp) h
  | rm p => exact removeValue_error_exact (splitScopeNpath_plain hp) h

theorem runOps_goodOps (ops : List Op) : ∀ (d : Doc), (∀ op ∈ ops, op.plain) →
    runOps (goodOps ops d) d = (runOps ops d).filter isOk := by
  induction ops with
  | nil => intro d _; rfl
  | cons op ops ih =>
    intro d hp
    have hp' : ∀ o ∈ ops, o.plain := fun o ho => hp o (List.mem_cons_of_mem _ ho)
    rw [runOps_cons]
    rcases hr : op.run d with ⟨r, d1⟩
    cases r with
    | ok u =>
      simp only [goodOps, hr, runOps_cons, List.filter, isOk]
      rw [ih d1 hp']
    | error e =>
      have := Op.run_error_exact (hp op (List.mem_cons_self ..)) hr
      subst this
      simp only [goodOps, hr, List.filter, isOk]
      exact ih _ hp'

end Nima.EditFail
