import NimaVerif.Model.NPath
/-!
L1 (c): the file-side attrpath splitter (`expressions/binding.py:_split_attrpath`).
-/
namespace Nima

structure SplitSt where
  segs : List Text := []
  buf : Text := []
  inQuotes : Bool := false
  escape : Bool := false
  depth : Nat := 0
  iq : Bool := false   -- interp_in_quotes
  ie : Bool := false   -- interp_escape
deriving DecidableEq, Repr

/-- flush on an unquoted `.` (or at the end): `"".join(buffer).strip()`, non-empty. -/
def splitFlush (st : SplitSt) : Except Err SplitSt :=
  let seg := strip st.buf
  if seg.isEmpty then .error .value else .ok { st with segs := st.segs ++ [seg], buf := [] }

/-- loop body while inside `${ … }` -/
def splitInterpStep (st : SplitSt) (ch : Char) : SplitSt :=
  let st := { st with buf := st.buf ++ [ch] }
  if st.iq then
    if st.ie then { st with ie := false }
    else if ch = '\\' then { st with ie := true }
    else if ch = '"' then { st with iq := false }
    else st
  else
    if ch = '"' then { st with iq := true }
    else if ch = '{' then { st with depth := st.depth + 1 }
    else if ch = '}' then { st with depth := st.depth - 1 }
    else st

/-- loop body inside quotes (no interpolation start) -/
def splitQuoteStep (st : SplitSt) (ch : Char) : SplitSt :=
  let st := { st with buf := st.buf ++ [ch] }
  if st.escape then { st with escape := false }
  else if ch = '\\' then { st with escape := true }
  else if ch = '"' then { st with inQuotes := false }
  else st

/-- The `while index < len(text)` loop. -/
def splitGo (st : SplitSt) : Text → Except Err SplitSt
  | [] => .ok st
  | ch :: rest =>
    if st.depth > 0 then splitGo (splitInterpStep st ch) rest
    else if st.inQuotes then
      if !st.escape && ch = '$' && rest.head? = some '{' then
        splitGo { st with buf := st.buf ++ ['$', '{'], depth := 1 } rest.tail
      else splitGo (splitQuoteStep st ch) rest
    else if ch = '"' then splitGo { st with inQuotes := true, buf := st.buf ++ [ch] } rest
    else if ch = '$' && rest.head? = some '{' then
      splitGo { st with buf := st.buf ++ ['$', '{'], depth := 1 } rest.tail
    else if ch = '.' then
      match splitFlush st with
      | .ok st' => splitGo st' rest
      | .error e => .error e
    else splitGo { st with buf := st.buf ++ [ch] } rest
termination_by t => t.length
decreasing_by all_goals (simp only [List.length_cons, List.length_tail]; omega)

/-- `_split_attrpath(text)` -/
def splitAttrpath (t : Text) : Except Err (List Text) :=
  match splitGo {} t with
  | .error e => .error e
  | .ok st =>
    if st.depth > 0 then .error .value
    else if st.inQuotes then .error .value
    else match splitFlush st with
      | .ok st' => .ok st'.segs
      | .error e => .error e

end Nima
