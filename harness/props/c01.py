"""C01 — layout property decided on the shared G-prog stream (see harness/layoutprops.py, harness/layout.py)."""
from __future__ import annotations

from .. import framework as fw
from .. import layout
from .. import layoutprops as lp

GEN_TABLES = ("trivia",)
PID = "C01"


def run(ctx: fw.Ctx):
    lp.common(ctx, PID)
    lp.trivia_correspondence(ctx)
    lp.fragment_correspondence(ctx)
    lp.sweep(ctx, PID)
    extra(ctx)


def extra(ctx: fw.Ctx):
    pass


def search(ctx: fw.Ctx):
    ctx.quick = False
    lp.sweep(ctx, PID)


def replay(payload: dict) -> int:
    t = payload["input"]["text"]
    res = layout.evaluate(t)
    fs = lp.failures_of(res, lp.CLAUSES[PID])
    print("input :", repr(t))
    print("output:", repr(res["output"]))
    print("fails :", fs)
    return 1 if fs else 0
