"""G-scope: scope programs for C10 (and C11).

A program is a tree of tuples mirroring `Nima.Scope.Expr` (lean/NimaVerif/Model/Scope.lean):

  ("lit", id) ("ref", id, name) ("set", id, rec, items) ("let", items, body) ("with", id, env, body)
  ("paren", id, e) ("app", id, fn, arg) ("lam1", id, name, body) ("lamP", id, formals, body)
  items:   ("bind", id, name, val) ("inh", id, names) ("inhf", id, names, src)
  formals: ("req", name) ("opt", name, dflt)

Node ids are assigned in creation order by a `Builder`; a literal with id n is rendered as the
integer 1000+n, so every literal of a program is textually unique.
`render` writes Nix text, `sexp` the driver form, `index_objects` walks the parsed Python tree in
parallel with the program and maps `id(python object)` to node ids (so that a resolved value can
be named without looking at text or positions).
"""
from __future__ import annotations

from ..framework import hx


class Builder:
    def __init__(self):
        self.n = 0

    def nid(self):
        self.n += 1
        return self.n

    def lit(self):
        return ("lit", self.nid())

    def ref(self, name):
        return ("ref", self.nid(), name)

    def set(self, items, rec=False):
        return ("set", self.nid(), bool(rec), list(items))

    def let(self, items, body):
        assert items
        return ("let", list(items), body)

    def with_(self, env, body):
        return ("with", self.nid(), env, body)

    def paren(self, e):
        return ("paren", self.nid(), e)

    def app(self, fn, arg):
        return ("app", self.nid(), fn, arg)

    def lam1(self, name, body):
        return ("lam1", self.nid(), name, body)

    def lamP(self, formals, body):
        return ("lamP", self.nid(), list(formals), body)

    def bind(self, name, val):
        return ("bind", self.nid(), name, val)

    def inh(self, names):
        return ("inh", self.nid(), list(names))

    def inhf(self, names, src):
        return ("inhf", self.nid(), list(names), src)


# ------------------------------------------------------------------ rendering
def render_item(it) -> str:
    if it[0] == "bind":
        return f"{it[2]} = {render(it[3])};"
    if it[0] == "inh":
        return "inherit " + " ".join(it[2]) + ";"
    return "inherit (" + render(it[3]) + ") " + " ".join(it[2]) + ";"


def render(e) -> str:
    k = e[0]
    if k == "lit":
        return str(1000 + e[1])
    if k == "ref":
        return e[2]
    if k == "set":
        body = " ".join(render_item(i) for i in e[3])
        return ("rec " if e[2] else "") + "{ " + body + (" " if body else "") + "}"
    if k == "let":
        return "let " + " ".join(render_item(i) for i in e[1]) + " in " + render(e[2])
    if k == "with":
        return "with " + render(e[2]) + "; " + render(e[3])
    if k == "paren":
        return "(" + render(e[2]) + ")"
    if k == "app":
        return render(e[2]) + " " + render(e[3])
    if k == "lam1":
        return e[2] + ": " + render(e[3])
    if k == "lamP":
        fs = ", ".join(f[1] if f[0] == "req" else f"{f[1]} ? {render(f[2])}" for f in e[2])
        return "{ " + fs + (" " if fs else "") + "}: " + render(e[3])
    raise ValueError(k)


def sexp_item(it):
    if it[0] == "bind":
        return ["bind", it[1], hx(it[2]), sexp(it[3])]
    if it[0] == "inh":
        return ["inh", it[1], [hx(n) for n in it[2]]]
    return ["inhf", it[1], [hx(n) for n in it[2]], sexp(it[3])]


def sexp(e):
    k = e[0]
    if k == "lit":
        return ["lit", e[1]]
    if k == "ref":
        return ["ref", e[1], hx(e[2])]
    if k == "set":
        return ["set", e[1], "t" if e[2] else "f", [sexp_item(i) for i in e[3]]]
    if k == "let":
        return ["let", [sexp_item(i) for i in e[1]], sexp(e[2])]
    if k == "with":
        return ["with", e[1], sexp(e[2]), sexp(e[3])]
    if k == "paren":
        return ["paren", e[1], sexp(e[2])]
    if k == "app":
        return ["app", e[1], sexp(e[2]), sexp(e[3])]
    if k == "lam1":
        return ["lam1", e[1], hx(e[2]), sexp(e[3])]
    if k == "lamP":
        fs = [["req", hx(f[1])] if f[0] == "req" else ["opt", hx(f[1]), sexp(f[2])] for f in e[2]]
        return ["lamP", e[1], fs, sexp(e[3])]
    raise ValueError(k)


def sexp_path(path):
    return ["d" if s is None else ["k", hx(s)] for s in path]


# ------------------------------------------------------------------ parallel walk
class WalkMismatch(Exception):
    pass


def peel(e):
    layers = []
    while e[0] == "let":
        layers.append(e[1])
        e = e[2]
    return layers, e


_CLS = {"lit": ("Primitive", "IntegerPrimitive"), "ref": ("Identifier",), "set": ("AttributeSet",),
        "with": ("WithStatement",), "paren": ("Parenthesis",), "app": ("FunctionCall",),
        "lam1": ("FunctionDefinition",), "lamP": ("FunctionDefinition",)}


def index_objects(e, obj, out: dict, labels: dict | None = None):
    """Map id(obj) -> node id for every expression node of `e` found in the parsed tree `obj`.
    `labels` (optional) receives node id -> the Python object (keeps it alive / for debugging)."""
    layers, core = peel(e)
    if type(obj).__name__ not in _CLS[core[0]]:
        raise WalkMismatch(f"{core[0]} vs {type(obj).__name__}")
    out[id(obj)] = core[1]
    if labels is not None:
        labels[core[1]] = obj
    if layers:
        py_layers = []
        if obj.scope:
            py_layers.append(list(obj.scope))
        st = obj.scope_state
        for layer in (st.stack if st is not None else []):
            if layer.get("scope"):
                py_layers.append(list(layer["scope"]))
        if len(py_layers) != len(layers):
            raise WalkMismatch(f"layers {len(layers)} vs {len(py_layers)}")
        for items, py_items in zip(layers, py_layers):
            _index_items(items, py_items, out, labels)
    elif obj.scope:
        raise WalkMismatch("unexpected scope")
    k = core[0]
    if k == "set":
        _index_items(core[3], list(obj.values), out, labels)
    elif k == "with":
        index_objects(core[2], obj.environment, out, labels)
        index_objects(core[3], obj.body, out, labels)
    elif k == "paren":
        index_objects(core[2], obj.value, out, labels)
    elif k == "app":
        index_objects(core[2], obj.name, out, labels)
        index_objects(core[3], obj.argument, out, labels)
    elif k == "lam1":
        if type(obj.argument_set).__name__ != "Identifier" or obj.argument_set.name != core[2]:
            raise WalkMismatch("lam1 parameter")
        index_objects(core[3], obj.output, out, labels)
    elif k == "lamP":
        formals = [f for f in obj.argument_set if type(f).__name__ == "Identifier"]
        if len(formals) != len(core[2]):
            raise WalkMismatch("formals")
        for f, pf in zip(core[2], formals):
            if pf.name != f[1]:
                raise WalkMismatch("formal name")
            if f[0] == "opt":
                index_objects(f[2], pf.default_value, out, labels)
        index_objects(core[3], obj.output, out, labels)


def _index_items(items, py_items, out, labels):
    if len(items) != len(py_items):
        raise WalkMismatch(f"items {len(items)} vs {len(py_items)}")
    for it, p in zip(items, py_items):
        if it[0] == "bind":
            if type(p).__name__ != "Binding" or p.name != it[2]:
                raise WalkMismatch(f"binding {it[2]} vs {p!r}")
            index_objects(it[3], p.value, out, labels)
        else:
            if type(p).__name__ != "Inherit":
                raise WalkMismatch("inherit")
            if it[0] == "inhf":
                index_objects(it[3], p.from_expression, out, labels)


# ------------------------------------------------------------------ paths that exist in a program
def reachable_paths(e, max_paths=64):
    """Key/deref paths that end on an identifier, found syntactically (deref steps are followed
    only as far as a syntactic walk can: they are added as final steps; mid-path derefs are
    produced by `paths_with_deref`)."""
    out = []

    def target(e):
        _, c = peel(e)
        k = c[0]
        if k == "set":
            return c
        if k in ("with",):
            return target(c[3])
        if k == "paren":
            return target(c[2])
        if k in ("lam1", "lamP"):
            _, b = peel(c[3])
            if b[0] == "app":
                a = b[3]
                while peel(a)[1][0] == "paren":
                    a = peel(a)[1][2]
                if peel(a)[1][0] == "set":
                    return peel(a)[1]
            return target(c[3])
        if k == "app":
            a = c[3]
            while peel(a)[1][0] == "paren":
                a = peel(a)[1][2]
            if peel(a)[1][0] == "set":
                return peel(a)[1]
        return None

    def visit(e, path):
        if len(out) >= max_paths:
            return
        _, c = peel(e)
        if c[0] == "ref":
            out.append(tuple(path))
        elif c[0] == "set":
            for it in c[3]:
                if it[0] == "bind":
                    visit(it[3], path + [it[2]])
                else:
                    for n in it[2]:
                        out.append(tuple(path + [n]))
        elif c[0] == "with":
            visit(c[3], path)

    t = target(e)
    if t is not None:
        for it in t[3]:
            if it[0] == "bind":
                visit(it[3], [it[2]])
            else:
                for n in it[2]:
                    out.append((n,))
    return out[:max_paths]


# ------------------------------------------------------------------ exhaustive binder sequences
LIT = "lit"


def _atom(B, e):
    """An expression usable as a call argument (select-level)."""
    return e if peel(e)[1][0] in ("set", "ref", "lit", "paren") and e[0] != "let" else B.paren(e)


# general wrappers: (name, fn(B, inner) -> (expr, keys_prefix))
def _w_let_a(B, h): return B.let([B.bind("a", B.lit())], h), []
def _w_let_b(B, h): return B.let([B.bind("b", B.lit())], h), []
def _w_let_inh(B, h): return B.let([B.inh(["a"])], h), []
def _w_let_chain(B, h): return B.let([B.bind("a", B.ref("b"))], h), []
def _w_rec_a(B, h): return B.set([B.bind("a", B.lit()), B.bind("k", h)], rec=True), ["k"]
def _w_rec_b(B, h): return B.set([B.bind("b", B.lit()), B.bind("k", h)], rec=True), ["k"]
def _w_rec_inh(B, h): return B.set([B.inh(["a"]), B.bind("k", h)], rec=True), ["k"]
def _w_rec_inhf(B, h):
    return B.set([B.inhf(["a"], B.ref("s")), B.bind("s", B.set([B.bind("a", B.lit())])), B.bind("k", h)], rec=True), ["k"]
def _w_set_a(B, h): return B.set([B.bind("a", B.lit()), B.bind("k", h)]), ["k"]
def _w_set_inh(B, h): return B.set([B.inh(["a"]), B.bind("k", h)]), ["k"]
def _w_with_a(B, h): return B.with_(B.set([B.bind("a", B.lit())]), h), []
def _w_with_b(B, h): return B.with_(B.set([B.bind("b", B.lit())]), h), []
def _w_with_chain(B, h): return B.with_(B.set([B.bind("a", B.ref("b")), B.bind("b", B.lit())]), h), []
def _w_with_ident(B, h):
    return B.let([B.bind("e", B.set([B.bind("a", B.lit())]))], B.with_(B.ref("e"), h)), []


WRAPPERS = [
    ("let_a", _w_let_a), ("let_b", _w_let_b), ("let_inh", _w_let_inh), ("let_chain", _w_let_chain),
    ("rec_a", _w_rec_a), ("rec_b", _w_rec_b), ("rec_inh", _w_rec_inh), ("rec_inhf", _w_rec_inhf),
    ("set_a", _w_set_a), ("set_inh", _w_set_inh),
    ("with_a", _w_with_a), ("with_b", _w_with_b), ("with_chain", _w_with_chain), ("with_ident", _w_with_ident),
]


# wrappers that only make sense at the top of the document (the route of `_resolve_target_set`)
def _t_app_dflt(B, h):
    return B.app(B.paren(B.lamP([("opt", "a", B.lit())], B.ref("a"))), _atom(B, h)), []
def _t_app_simple(B, h): return B.app(B.paren(B.lam1("a", B.ref("a"))), _atom(B, h)), []
def _t_call(B, h): return B.app(B.ref("f"), _atom(B, h)), []
def _t_lam_dflt(B, h): return B.lamP([("opt", "a", B.lit())], h), []
def _t_lam_req(B, h): return B.lamP([("req", "a")], h), []
def _t_lam1(B, h): return B.lam1("a", h), []
def _t_paren(B, h): return B.paren(h), []


TOP_WRAPPERS = [
    ("app_dflt", _t_app_dflt), ("app_simple", _t_app_simple), ("call", _t_call),
    ("lam_dflt", _t_lam_dflt), ("lam_req", _t_lam_req), ("lam1", _t_lam1), ("paren", _t_paren),
]


def _f_plain(B): return B.set([B.bind("x", B.ref("a"))]), ["x"]
def _f_identlet(B): return B.set([B.bind("x", B.let([B.bind("a", B.lit())], B.ref("a")))]), ["x"]
def _f_inherit(B): return B.set([B.inh(["a"])]), ["a"]
def _f_chain(B): return B.set([B.bind("x", B.ref("b"))], rec=False), ["x"]
def _f_rec_self(B): return B.set([B.bind("x", B.ref("a")), B.bind("a", B.ref("x"))], rec=True), ["x"]


FINALS = [("x=a", _f_plain), ("x=let-a", _f_identlet), ("inherit-a", _f_inherit), ("x=b", _f_chain), ("rec-cycle", _f_rec_self)]


def build_sequence(names, final):
    """names: wrapper names outermost first (a top wrapper may only be first)."""
    B = Builder()
    table = dict(WRAPPERS)
    top = dict(TOP_WRAPPERS)
    e, path = dict(FINALS)[final](B)
    for n in reversed(names):
        fn = table.get(n) or top[n]
        e, pre = fn(B, e)
        path = pre + path
    return e, tuple(path)


def sequences(max_len, top_max_len):
    import itertools
    gen = [n for n, _ in WRAPPERS]
    for L in range(0, max_len + 1):
        for seq in itertools.product(gen, repeat=L):
            for f, _ in FINALS:
                yield list(seq), f
    for t, _ in TOP_WRAPPERS:
        for L in range(0, top_max_len + 1):
            for seq in itertools.product(gen, repeat=L):
                for f, _ in FINALS:
                    yield [t] + list(seq), f


# ------------------------------------------------------------------ random programs
NAMES = ["a", "b", "c"]
KEYS = ["a", "b", "c", "x", "y"]


class RandomGen:
    def __init__(self, rng, max_depth=4):
        self.rng = rng
        self.max_depth = max_depth

    def program(self):
        self.B = Builder()
        return self.expr(0, top=True)

    def pick(self, pairs):
        tot = sum(w for _, w in pairs)
        r = self.rng.random() * tot
        for v, w in pairs:
            r -= w
            if r <= 0:
                return v
        return pairs[-1][0]

    def items(self, d, lo=1, hi=3, keys=KEYS):
        n = self.rng.randint(lo, hi)
        used = set()
        out = []
        for _ in range(n):
            kind = self.pick([("bind", 6), ("inh", 1.2), ("inhf", 1.0)])
            if kind == "bind":
                name = self.rng.choice(keys)
                if name in used:
                    continue
                used.add(name)
                if self.rng.random() < 0.03:
                    name = '"' + name + '"'
                out.append(self.B.bind(name, self.expr(d + 1)))
            else:
                name = self.rng.choice(NAMES)
                if name in used:
                    continue
                used.add(name)
                if kind == "inh":
                    out.append(self.B.inh([name]))
                else:
                    src = self.pick([("ref", 3), ("set", 2), ("any", 1)])
                    if src == "ref":
                        s = self.B.ref(self.rng.choice(NAMES))
                    elif src == "set":
                        s = self.B.set(self.items(d + 2, 0, 2), rec=self.rng.random() < 0.3)
                    else:
                        s = self.expr(d + 2)
                    out.append(self.B.inhf([name], s))
        if not out and lo > 0:
            out.append(self.B.bind(self.rng.choice(keys), self.B.lit()))
        return out

    def expr(self, d, top=False):
        B, rng = self.B, self.rng
        if d >= self.max_depth:
            kind = self.pick([("lit", 2), ("ref", 3)])
        elif top:
            kind = self.pick([("set", 4), ("let", 5), ("with", 3), ("app", 2.5), ("lam", 1.5), ("paren", 0.7), ("ref", 0.3)])
        else:
            kind = self.pick([("lit", 2.5), ("ref", 4), ("set", 4), ("let", 2), ("with", 1.5), ("app", 0.5),
                              ("lam", 0.3), ("paren", 0.5)])
        if kind == "lit":
            return B.lit()
        if kind == "ref":
            return B.ref(rng.choice(NAMES))
        if kind == "set":
            return B.set(self.items(d, 0 if rng.random() < 0.1 else 1, 3), rec=rng.random() < 0.4)
        if kind == "let":
            items = self.items(d, 1, 2, keys=NAMES)
            return B.let(items, self.expr(d + 1, top=top and rng.random() < 0.8))
        if kind == "with":
            env = self.pick([("set", 3), ("ref", 2), ("any", 0.5)])
            if env == "set":
                e = B.set(self.items(d + 1, 1, 2, keys=NAMES), rec=rng.random() < 0.25)
            elif env == "ref":
                e = B.ref(rng.choice(NAMES))
            else:
                e = self.expr(d + 2)
            return B.with_(e, self.expr(d + 1, top=top and rng.random() < 0.8))
        if kind == "paren":
            return B.paren(self.expr(d + 1, top=top))
        if kind == "lam":
            body = self.expr(d + 1, top=top)
            if rng.random() < 0.4:
                return B.lam1(rng.choice(NAMES), body)
            fs = []
            for n in rng.sample(NAMES + ["z"], rng.randint(0, 3)):
                fs.append(("opt", n, self.expr(d + 2)) if rng.random() < 0.5 else ("req", n))
            return B.lamP(fs, body)
        if kind == "app":
            if rng.random() < 0.75:
                body = self.expr(d + 2)
                if rng.random() < 0.3:
                    fn = B.paren(B.lam1(rng.choice(NAMES + ["z"]), body))
                else:
                    fs = []
                    for n in rng.sample(NAMES + ["x", "z"], rng.randint(1, 3)):
                        fs.append(("opt", n, self.expr(d + 2)) if rng.random() < 0.6 else ("req", n))
                    fn = B.paren(B.lamP(fs, body))
            else:
                fn = B.ref("f")
            a = self.pick([("set", 5), ("ref", 2), ("paren", 1)])
            if a == "set":
                arg = B.set(self.items(d + 1, 1, 3), rec=rng.random() < 0.3)
            elif a == "ref":
                arg = B.ref(rng.choice(NAMES))
            else:
                arg = B.paren(self.expr(d + 1, top=True))
            return B.app(fn, arg)
        raise AssertionError(kind)


def all_names(e, acc=None):
    """binding / inherit names occurring anywhere (keys worth trying after a deref)."""
    acc = set() if acc is None else acc

    def it(i):
        if i[0] == "bind":
            acc.add(i[2].strip('"'))
            ex(i[3])
        else:
            acc.update(i[2])
            if i[0] == "inhf":
                ex(i[3])

    def ex(e):
        k = e[0]
        if k == "set":
            for i in e[3]:
                it(i)
        elif k == "let":
            for i in e[1]:
                it(i)
            ex(e[2])
        elif k == "with":
            ex(e[2]); ex(e[3])
        elif k == "paren":
            ex(e[2])
        elif k == "app":
            ex(e[2]); ex(e[3])
        elif k == "lam1":
            ex(e[3])
        elif k == "lamP":
            for f in e[2]:
                if f[0] == "opt":
                    ex(f[2])
            ex(e[3])

    ex(e)
    return acc
