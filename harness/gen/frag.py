"""G-frag: random programs of the container fragment (lean/NimaVerif/Model/Cst.lean): nested sets,
`rec` sets, lists, parenthesised expressions, function applications (curried, with comments between
function and argument) and `with E; B` / `assert E; B` over leaf values, depth <= 4, with random
whitespace in every gap and line / single-line block comments between items, at ends of lines and
(with probability `p_inner`) between the tokens of a binding. A `with` / `assert` node has
whitespace-only gaps before its head, its `;` and its body, except with probability `p_kw` per node,
where these three gaps may hold comments too. `with` / `assert` stand bare only where the grammar
reads them as one expression (top level, binding value, inside parentheses, body of another `with` /
`assert`, rarely as the head of one); elsewhere they are parenthesised. Wherever a leaf may stand
(and as the function of an application) there may be a select `BASE.a.b` (no `or` default) instead:
BASE an identifier, a string, a parenthesis, a list or a (`rec`) set — never a number or a path, which
lex differently in front of a `.` (`1.a` is `1.` applied to `a`, `./p.nix.a` one path), never another
select (`a.b .c` is ONE select with whitespace inside its attrpath) —, one to three segments
(identifiers, now and then a "string") with nothing between segments and dots, a whitespace gap in
front of the first `.` (mostly empty, sometimes a line break and indentation; with probability
`p_sel_cmt` per select it holds comments too) and, one time in ten, whitespace between that `.` and
the attrpath. A select binds tighter than application, so it is never parenthesised.
With probability `p_lam` an expression position of depth > 0 holds a lambda `NAME g1 : g2 BODY`, NAME one
of a few identifiers (no keyword). Like `with` / `assert` it reaches as far right as it can, so it is
bare at top level, as a binding value, inside parentheses and as the body of `with` / `assert` / a lambda
(`x: y: …` comes about that way) and parenthesised elsewhere (list element, function / argument of an
application, base of a select, head of `with` / `assert`). g1 is mostly empty, now and then a blank or a
line break with indentation, and holds comments with probability `p_lam_cmt` per lambda; g2 is mostly one
blank, sometimes line breaks (1–3) with indentation, sometimes empty — but only in front of `(` `[` `{`
`"`: `x:y`, `x:1`, `x:./p`, `x:/*c*/` … are ONE uri token — and holds comments only with probability
`p_lam_body_cmt` (0 by default: the model does not cover those).
With probability `p_bin` an expression position of depth > 0 holds a chain of one to three binary operators
`E OP E [OP E [OP E]]` (`//` `++` `+` `==` `&&` `||` mostly, now and then `-` `*` `/` `!=` `<` `<=` `>` `>=`
`->`; at most one of `==` `!=` and one of `<` `<=` `>` `>=` per chain, which Nix itself reads as
non-associative). The operands are application-level expressions (leaf / select, parenthesis, application,
list, set; a unary `!a` / `-a` bare only as the left-most operand); the chain is bare where a bare
application is (top level, binding value, parenthesis, head / body of `with` / `assert`, body of a lambda)
and parenthesised elsewhere. Both gaps of an operator hold at least one whitespace character (`a-b`, `a/b`,
`a//b`, `<a>`, `a->b`, `/*` … are other tokens): mostly one blank, a line break with indentation in front of
the operator (15%) and / or behind it (15%), and with probability `p_bin_cmt` per operator comments in one
of the two gaps (the model does not cover those).
With probability `p_if` an expression position of depth > 0 holds `if C then A else B`: like `with` / a lambda it
reaches as far right as it can (bare at top level, as a binding value, inside parentheses, as a body; parenthesised
elsewhere); C and A are expressions in head position (followed by a keyword), B one in body position. The five
inner gaps hold whitespace (mostly one blank, now and then a line break with indentation or a blank line) — with
probability `p_if_cmt` per node they may hold comments too (outside the theorems' fragment, inside the model).
With probability `p_has` an expression position of depth > 0 (or an operand of a binary operator) holds
`E g1 ? g2 a.b`: E an application-level expression, the attrpath as for a select; bare where a bare application is.
Never starts with whitespace.
Small by construction (py-tree-sitter 0.26 crashes beyond ~250 lines)."""
from __future__ import annotations

import random
import re

GAPS = ["", " ", "  ", "\t", "\n", "\n\n", "\n\n\n", "\n   "]
SEPS = [" ", "  ", "\t", "\n", "\n\n", "\n\n\n", "\n   "]
LEAVES = ["a", "foo", "true", "false", "null", "0", "1", "42", "3.14", ".5", '"s"', '"a b"', '""', '"é✓"',
          '"x${y}z"', "./p.nix", "../q/r.nix", "<nixpkgs>", "~/h", "x'", "b-c", "_u"]
NAMES = ["a", "b", "foo", '"q r"', "x'", "c-d", '"é"']
FUNCS = ["f", "foo", "x'", "b-c", "_u", "import"]
SEL_BASES = ["a", "foo", "pkgs", "lib", "x'", "b-c", "_u", "self", '"s"', '"x${y}z"']
SEL_SEGS = ["a", "b", "foo", "lib", "x'", "c-d", "_u", "a", "b", "foo", "lib", '"q r"', '"é"']   # no keyword, no `or`
SEL_GAPS = [""] * 9 + [" ", "\n", "\n  ", "\n    "]
LAM_NAMES = ["x", "x", "y", "self", "super", "args", "final", "prev", "_"]   # no keyword
LAM_G1 = [""] * 14 + [" ", " ", " ", " ", "  ", "\n  "]
LAM_G2 = [" "] * 12 + ["", "", "", "  ", "\n", "\n  ", "\n  ", "\n    ", "\n\n  ", "\n\n\n  "]
BIN_OPS = (["//"] * 5 + ["++"] * 5 + ["+"] * 5 + ["=="] * 4 + ["&&"] * 4 + ["||"] * 4
           + ["-", "*", "/", "!=", "<", "<=", ">", ">=", "->", "->"])
BIN_NONASSOC = [("==", "!="), ("<", "<=", ">", ">=")]
BIN_NL = ["\n  ", "\n  ", "\n    ", "\n", "\n      "]
WS = (" ", "\t", "\n")
# tree-sitter-nix quirk: in the trivia run that follows a `./…` / `../…` / `~/…` path, two block comments
# with nothing between them (`*//*`) are a syntax error; such documents are not generated
PATH_QUIRK = re.compile(r"(?:nix|~/h)(?:\s|#[^\n]*\n|/\*.*?\*/)*?/\*.*?\*//\*")


class FragGen:
    def __init__(self, rng: random.Random, p_cmt: float, p_inner: float, p_kw: float = 0.25, p_kw_cmt: float = 0.4,
                 p_sel: float = 0.22, p_sel_cmt: float = 0.15, p_lam: float = 0.13, p_lam_cmt: float = 0.1,
                 p_lam_body_cmt: float = 0.0, p_bin: float = 0.17, p_bin_cmt: float = 0.08,
                 p_if: float = 0.1, p_if_cmt: float = 0.2, p_has: float = 0.06, p_has_cmt: float = 0.15):
        """`p_kw`: probability that a `with` / `assert` node may have comments in its three inner gaps;
        `p_kw_cmt`: comment density (as for `gap`) in the inner gaps of such a node;
        `p_sel`: probability that a leaf position (or the function of an application) holds a select;
        `p_sel_cmt`: probability that a select has comments between its base and the `.`.
        `p_lam`: probability that an expression position of depth > 0 holds a lambda;
        `p_lam_cmt`: probability that a lambda has comments between its name and the `:`;
        `p_lam_body_cmt`: probability that a lambda has comments between the `:` and its body.
        `p_bin`: probability that an expression position of depth > 0 holds a chain of binary operators;
        `p_bin_cmt`: probability that a binary operator has comments in one of its two gaps.
        `self.sels` counts the selects written (what the CST of the text must hold as `D` / `O` nodes),
        `self.lams` the lambdas (`F1` nodes), `self.bins` the binary operators (`B` nodes)"""
        self.rng, self.p_cmt, self.p_inner, self.n = rng, p_cmt, p_inner, 0
        self.p_kw, self.p_kw_cmt = p_kw, p_kw_cmt
        self.p_sel, self.p_sel_cmt, self.sels = p_sel, p_sel_cmt, 0
        self.p_lam, self.p_lam_cmt, self.p_lam_body_cmt, self.lams = p_lam, p_lam_cmt, p_lam_body_cmt, 0
        self.p_bin, self.p_bin_cmt, self.bins = p_bin, p_bin_cmt, 0
        self.p_if, self.p_if_cmt, self.ifs = p_if, p_if_cmt, 0
        self.p_has, self.p_has_cmt, self.hass = p_has, p_has_cmt, 0

    def comment(self):
        self.n += 1
        r = self.rng.random()
        if r < 0.55:
            return self.rng.choice([f"# c{self.n}", f"#c{self.n}", f"#  c{self.n}", "#"]), True
        return self.rng.choice([f"/* c{self.n} */", f"/*c{self.n}*/", f"/** d{self.n} */", f"/*  c{self.n}  */"]), False

    def gap(self, p: float, sep_before: bool = False) -> str:
        """whitespace and comments between two tokens; `sep_before`: the tokens would glue without it"""
        out = self.rng.choice(SEPS if sep_before else GAPS)
        while self.rng.random() < p:
            c, line = self.comment()
            out += c
            out += ("\n" + self.rng.choice(["", " ", "  ", "\n", "\n  ", "\n\n"])) if line else self.rng.choice(GAPS)
        return out

    def _after(self, s: str, v: str, g: str) -> str:
        """`g` after the value `v`: a path leaf would swallow a closing token / comment start"""
        if v.endswith(("nix", "h", ">")) and not g.startswith(WS):
            return " " + g
        return g

    def paren(self, depth: int) -> str:
        s = "(" + self.gap(self.p_cmt)
        v = self.expr(depth - 1, "paren")
        if v[0] == "/" or (s.endswith("/") and v[0] == "*"):
            s += " "
        s += v
        return s + self._after(s, v, self.gap(self.p_cmt)) + ")"

    def app(self, depth: int) -> str:
        """function application; the function is an identifier, a parenthesis or (curried) another
        application; the argument anything but a bare application"""
        r = self.rng.random()
        if depth > 1 and r < 0.3:
            f = self.app(depth - 1)
        elif depth > 0 and r < 0.45:
            f = self.paren(depth - 1)
        elif self.rng.random() < self.p_sel:
            f = self.select(depth - 1)   # `a.b c` is `(a.b) c`
        else:
            f = self.rng.choice(FUNCS)
        a = self.expr(depth - 1, "arg")
        g = self.gap(max(self.p_cmt, self.p_inner))
        if not g.endswith(WS) and not (g == "" and a[0] in "[{(") and not g.endswith("*/"):
            g += " "
        if g.endswith("/") and a[0] in "/*":
            g += " "
        if g == "" and a[0] not in "[{(":
            g = " "
        if a[0] in "./~<" and not g.endswith(WS):
            g += " "
        return f + self._after(f, f, g) + a   # curried: the function may end in a path

    def kw(self, depth: int) -> str:
        """`with` g1 environment g2 `;` g3 body  /  `assert` g1 condition g2 `;` g3 body; the head is any
        expression (a `with` / `assert` there is mostly parenthesised), the body extends to the right as far
        as it can, so it may be a bare application or another `with` / `assert`"""
        p = self.p_kw_cmt if self.rng.random() < self.p_kw else 0.0
        s = self.rng.choice(["with", "with", "assert"])
        h = self.expr(depth - 1, "head")
        g = self.gap(p)
        if not g.endswith(WS) and not (g == "" and h[0] in "[{(") and not (g.endswith("*/") and h[0] not in "./~<"):
            g += " "   # `witha`, `with./p.nix`, `with/*c*/./p.nix` … would be other tokens
        s += g + h
        s += self._after(s, h, self.gap(p)) + ";"
        g = self.gap(p)
        b = self.expr(depth - 1, "body")
        if g.endswith("*/") and b[0] in "./~<":
            g += " "
        return s + g + b

    def _cmt_run(self, first_gaps, p_more: float = 0.3) -> str:
        """a gap that holds at least one comment; ends in whitespace or `*/`"""
        s = self.rng.choice(first_gaps)
        while True:
            c, line = self.comment()
            s += c + (("\n" + self.rng.choice(["", " ", "  ", "\n", "\n  "])) if line else self.rng.choice(GAPS))
            if self.rng.random() >= p_more:
                return s

    def lam(self, depth: int) -> str:
        """NAME g1 `:` g2 BODY; the body extends to the right as far as it can, so it may be a bare
        application, `with` / `assert` or another lambda"""
        self.lams += 1
        s = self.rng.choice(LAM_NAMES)
        s += self._cmt_run(GAPS) if self.rng.random() < self.p_lam_cmt else self.rng.choice(LAM_G1)
        s += ":"
        b = self.expr(depth - 1, "body")
        if self.rng.random() < self.p_lam_body_cmt:
            g = self._cmt_run(SEPS)   # `x:/*c*/` and `x:#` … : whitespace first
            if g.endswith("*/") and b[0] in "./~<":
                g += " "
        else:
            g = self.rng.choice(LAM_G2)
            if g == "" and b[0] not in '([{"':
                g = " "   # `x:y`, `x:1`, `x:./p.nix`, `x:rec{}` … would be one uri token
        return s + g + b

    def _kw_then(self, s: str, prev: str, word: str, p: float) -> str:
        """`s` GAP `word`: the gap between an expression and the keyword `then` / `else`"""
        g = self.gap(p) if p > 0 else self.rng.choice([" "] * 10 + ["  ", "\n", "\n  ", "\n  ", "\n\n  ", ""])
        if g == "" and prev[-1] not in ")]}":
            g = " "   # `athen`, `1else` … would be other tokens
        if g.endswith("*/") and prev.endswith(("nix", "h", ">")):
            g += " "   # tree-sitter-nix quirk: `./p.nix /*c*/then` (block comment touching the keyword in the trivia
            #            run after a path) is a syntax error
        return s + self._after(s, prev, g) + word

    def _kw_head(self, s: str, nxt: str, p: float) -> str:
        """`s` (ends in a keyword) GAP `nxt`"""
        g = self.gap(p) if p > 0 else self.rng.choice([" "] * 10 + ["  ", "\n", "\n  ", "\n    ", "\n\n  ", ""])
        if not g.endswith(WS) and not (g == "" and nxt[0] in "[{(") and not (g.endswith("*/") and nxt[0] not in "./~<"):
            g += " "   # `ifa`, `then./p.nix`, `else/*c*/./p.nix` … would be other tokens
        return s + g + nxt

    def ite(self, depth: int) -> str:
        """`if` g1 C g2 `then` g3 A g4 `else` g5 B"""
        self.ifs += 1
        p = self.p_kw_cmt if self.rng.random() < self.p_if_cmt else 0.0
        c = self.expr(depth - 1, "head")
        a = self.expr(depth - 1, "head")
        b = self.expr(depth - 1, "body")
        s = self._kw_head("if", c, p)
        s = self._kw_then(s, c, "then", p)
        s = self._kw_head(s, a, p)
        s = self._kw_then(s, a, "else", p)
        return self._kw_head(s, b, p)

    def has_attr(self, depth: int) -> str:
        """E g1 `?` g2 a₁.a₂.….aₙ; E an application-level expression"""
        self.hass += 1
        r = self.rng.random()
        if depth <= 0 or r < 0.55:
            e = self.leaf(depth)
        elif r < 0.7:
            e = self.paren(depth)
        elif r < 0.85:
            e = self.app(depth)
        elif r < 0.93:
            e = self.attrset(depth)
        else:
            e = self.lst(depth)
        cmt = self.rng.random() < self.p_has_cmt
        g1 = self._cmt_run(SEPS) if cmt and self.rng.random() < 0.5 else self.rng.choice([" "] * 8 + ["  ", "\n  ", "\n", ""])
        if g1 == "" and e[-1] not in ")]}":
            g1 = " "
        g2 = self._cmt_run(GAPS) if cmt and self.rng.random() < 0.5 else self.rng.choice([" "] * 8 + ["", "", "  ", "\n  ", "\n\n    "])
        ap = ".".join(self.rng.choice(SEL_SEGS) for _ in range(self.rng.choice([1, 1, 1, 2, 2, 3])))
        return e + self._after(e, e, g1) + "?" + g2 + ap

    def unary(self, depth: int) -> str:
        """`!` / `-` GAP OPERAND; the operand an application-level expression"""
        op = self.rng.choice(["!", "!", "-"])
        r = self.rng.random()
        if r < 0.08:
            g = self._cmt_run(GAPS)
        else:
            g = self.rng.choice(["", "", "", "", " ", " ", "\n  "])
        if depth <= 0 or self.rng.random() < 0.5:
            b = self.leaf(depth)
        elif self.rng.random() < 0.5:
            b = self.paren(depth)
        else:
            b = self.app(depth)
        if op == "-" and (b[0].isdigit() or b[0] in "-.>") and g == "":
            g = " "   # `-1`, `--x`, `->`: keep the operator a token of its own
        if g.endswith("*/") and b[0] in "./~<":
            g += " "
        return op + g + b

    def operand(self, depth: int, first: bool) -> str:
        """operand of a binary operator: an application-level expression"""
        r = self.rng.random()
        if depth <= 0 or r < 0.5:
            return self.leaf(depth)
        if r < 0.62:
            return self.paren(depth)
        if r < 0.78:
            return self.app(depth)
        if r < 0.86:
            return self.lst(depth)
        if r < 0.92:
            return self.attrset(depth)
        if r < 0.95:
            return self.has_attr(depth - 1)   # `?` binds tighter than every binary operator
        # `a + -b`, `a && !b` … : precedence surprises; bare only in front
        return self.unary(depth - 1) if first else "(" + self.unary(depth - 1) + ")"

    def bin_gap(self, p_nl: float, cmt: bool) -> str:
        """gap on one side of a binary operator: starts and ends with whitespace"""
        if cmt:
            g = self._cmt_run(SEPS)
            return g if g.endswith(WS) else g + " "
        return self.rng.choice(BIN_NL) if self.rng.random() < p_nl else self.rng.choice([" "] * 9 + ["  "])

    def binary(self, depth: int) -> str:
        """E OP E [OP E [OP E]]; tree-sitter decides how the operators nest"""
        s = self.operand(depth - 1, True)
        used = set()
        for _ in range(self.rng.choice([1, 1, 1, 1, 2, 2, 3])):
            while True:
                op = self.rng.choice(BIN_OPS)
                cls = next((c for c in BIN_NONASSOC if op in c), None)
                if cls is None or cls not in used:
                    break
            if cls is not None:
                used.add(cls)
            self.bins += 1
            side = self.rng.choice([1, 2]) if self.rng.random() < self.p_bin_cmt else 0
            s += self.bin_gap(0.15, side == 1) + op + self.bin_gap(0.15, side == 2)
            s += self.operand(depth - 1, False)
        return s

    def select(self, depth: int) -> str:
        """BASE g1 `.` gd a₁.a₂.….aₙ; BASE a single token, or (depth > 0) a parenthesis / list / set"""
        self.sels += 1
        r = self.rng.random()
        if depth <= 0 or r < 0.65:
            s = self.rng.choice(SEL_BASES)
        elif r < 0.85:
            s = self.paren(depth)   # `(x: x).a`: a lambda as the base only inside parentheses
        elif r < 0.92:
            s = self.lst(depth)
        else:
            s = self.attrset(depth)
        if self.rng.random() < self.p_sel_cmt:
            s += self.rng.choice(GAPS)
            while True:
                c, line = self.comment()
                s += c + (("\n" + self.rng.choice(["", " ", "  ", "\n", "\n  "])) if line else self.rng.choice(GAPS))
                if self.rng.random() >= 0.3:
                    break
        else:
            s += self.rng.choice(SEL_GAPS)
        s += "."
        if self.rng.random() < 0.1:
            s += self.rng.choice([" ", "  ", "\n", "\n  "])
        s += ".".join(self.rng.choice(SEL_SEGS) for _ in range(self.rng.choice([1, 1, 1, 2, 2, 3])))
        if self.rng.random() < 0.25:
            # `or` default: a select-level expression (token, parenthesis, list, set, another select)
            if self.rng.random() < 0.15:
                s += self.rng.choice(GAPS)
                c, line = self.comment()
                s += c + (("\n" + self.rng.choice(["", " ", "  "])) if line else self.rng.choice([" ", "  ", "\n  "]))
            else:
                s += self.rng.choice([" ", " ", " ", "  ", "\n", "\n  ", "\n\n    "])
            s += "or" + self.rng.choice([" ", " ", " ", "  ", "\n  "])
            r2 = self.rng.random()
            if depth <= 0 or r2 < 0.5:
                s += self.rng.choice(SEL_BASES)
            elif r2 < 0.7:
                s += self.paren(depth - 1)
            elif r2 < 0.8:
                s += self.lst(depth - 1)
            elif r2 < 0.9:
                s += self.attrset(depth - 1)
            else:
                s += self.select(depth - 1)
        return s

    def leaf(self, depth: int) -> str:
        if self.rng.random() < self.p_sel:
            return self.select(depth)
        return self.rng.choice(LEAVES)

    def expr(self, depth: int, ctx: str = "top") -> str:
        if depth > 0 and self.rng.random() < self.p_lam:
            # a lambda reaches as far right as it can, like `with` / `assert`: bare only where nothing may
            # follow it but a closing token
            return self.lam(depth) if ctx in ("top", "value", "paren", "body") else "(" + self.lam(depth) + ")"
        if depth > 0 and self.rng.random() < self.p_if:
            # `if` reaches as far right as it can
            return self.ite(depth) if ctx in ("top", "value", "paren", "body") else "(" + self.ite(depth) + ")"
        if depth > 0 and self.rng.random() < self.p_has:
            return self.has_attr(depth - 1) if ctx in ("top", "value", "paren", "head", "body") else "(" + self.has_attr(depth - 1) + ")"
        if depth > 0 and self.rng.random() < 0.07:
            # a unary operator binds looser than application and select
            return self.unary(depth - 1) if ctx in ("top", "value", "paren", "head", "body") else "(" + self.unary(depth - 1) + ")"
        if depth > 0 and self.rng.random() < self.p_bin:
            # binary operators bind looser than application and select: bare where a bare application is
            return self.binary(depth) if ctx in ("top", "value", "paren", "head", "body") else "(" + self.binary(depth) + ")"
        r = self.rng.random()
        if depth <= 0 or r < 0.2:
            return self.leaf(depth)
        if r < 0.3:
            return self.paren(depth)
        if r < 0.4:
            # a bare application only where the grammar reads it as one expression
            return self.app(depth) if ctx in ("top", "value", "paren", "head", "body") else "(" + self.app(depth) + ")"
        if r < 0.6:
            # `with` / `assert` reach as far right as they can: bare only where nothing may follow them
            # but a closing token (`with with a; b; c` reads as `with (with a; b); c`)
            bare = ctx in ("top", "value", "paren", "body") or (ctx == "head" and self.rng.random() < 0.25)
            return self.kw(depth) if bare else "(" + self.kw(depth) + ")"
        if r < 0.8:
            return self.lst(depth)
        return self.attrset(depth)

    def lst(self, depth: int) -> str:
        n = self.rng.choice([0, 0, 1, 1, 2, 3])
        s = "["
        for _ in range(n):
            s += self.gap(self.p_cmt)
            if not s.endswith(WS) and not s.endswith(("[", "/")):
                s += " "
            if s.endswith("/"):
                s += " "
            s += self.expr(depth - 1, "elem")
            if not s.endswith(("]", "}", ")")) or self.rng.random() < 0.7:
                s += self.rng.choice(SEPS)
        s += self.gap(self.p_cmt)
        return s + "]"

    def attrset(self, depth: int) -> str:
        s = ("rec" + self.rng.choice(GAPS) if self.rng.random() < 0.2 else "") + "{"
        for _ in range(self.rng.choice([0, 1, 1, 2, 3])):
            s += self.gap(self.p_cmt)
            s += self.rng.choice(NAMES)
            s += self.gap(self.p_inner) + "=" + self.gap(self.p_inner)
            v = self.expr(depth - 1, "value")
            if v[0] == "/" or (s.endswith("/") and v[0] == "*"):
                s += " "
            s += v
            g = self.gap(self.p_inner)
            if v.endswith(("nix", "h", ">")) and not g.startswith(WS):
                g = " " + g   # `;` would otherwise be lexed into the path
            s += g + ";"
        s += self.gap(self.p_cmt)
        return s + "}"

    def file(self, depth: int) -> str:
        s = ""
        while self.rng.random() < self.p_cmt * 0.7:
            c, line = self.comment()
            s += c + ("\n" if line else self.rng.choice(["\n", " ", ""])) + self.rng.choice(["", "\n", "  "])
        # `with …; …` around the whole file is the most common use: a few more of these
        v = self.kw(depth) if depth > 0 and self.rng.random() < 0.12 else self.expr(depth)
        s += v
        s += self._after(s, v, self.gap(self.p_cmt, sep_before=False))
        if self.rng.random() < 0.6 and not s.endswith("\n"):
            s += "\n"
        return s


def programs(rng: random.Random, n: int):
    """yields n fragment programs (text); mixture of comment densities; about a third with comments
    between the tokens of bindings; a quarter of the `with` / `assert` nodes (none / a quarter / half,
    by document) may have comments in their inner gaps; selects may have comments in front of their `.`
    with probability 0 / 0.15 / 0.3 (by document)"""
    for t, _, _ in programs_tallied(rng, n):
        yield t


def programs_counted(rng: random.Random, n: int):
    """as `programs`, yielding (text, number of selects written)"""
    for t, sels, _ in programs_tallied(rng, n):
        yield t, sels


def programs_tallied(rng: random.Random, n: int):
    """as `programs`, yielding (text, number of selects written, number of lambdas written); lambdas
    may have comments in front of their `:` with probability 0 / 0.1 / 0.2 (by document)"""
    for t, sels, lams, _ in programs_tallied4(rng, n):
        yield t, sels, lams


def programs_tallied4(rng: random.Random, n: int):
    """as `programs_tallied`, yielding (text, selects, lambdas, binary operators written); binary operators
    may have comments in one of their gaps with probability 0 / 0.08 / 0.16 (by document)"""
    made = 0
    while made < n:
        g = FragGen(rng, rng.choice([0.0, 0.2, 0.5]), rng.choice([0.0, 0.0, 0.3]), rng.choice([0.0, 0.25, 0.5]),
                    p_sel_cmt=rng.choice([0.0, 0.15, 0.3]), p_lam_cmt=rng.choice([0.0, 0.1, 0.2]),
                    p_bin_cmt=rng.choice([0.0, 0.08, 0.16]))
        t = g.file(rng.randint(0, 4))
        if t.count("\n") > 150 or t[:1] in WS or PATH_QUIRK.search(t):
            continue
        made += 1
        yield t, g.sels, g.lams, g.bins
