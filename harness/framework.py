"""Common plumbing: context, Lean build + audit, driver, verdict logic, evidence, known findings.

Verdict logic (DESIGN.md section 6):
  1. regenerate Gen/*.lean from /repo  2. lake build Props.Cxx + Audit.Cxx, audit axioms
  3. correspondence (model vs implementation)  4. observation (property oracle on implementation)
  A failing input not covered by known_findings.json -> VIOLATION with that input as replay.
  A broken tie (1,2,3) -> search; found -> VIOLATION with input; else VIOLATION ... no-failing-input-found.
"""
from __future__ import annotations

import hashlib
import json
import os
import random
import re
import subprocess
import sys
import time
from pathlib import Path

VERIF = Path(__file__).resolve().parent.parent
LEAN = VERIF / "lean"
REPO = Path(os.environ.get("NIMA_REPO", "/repo"))
EVIDENCE = VERIF / "evidence"
REPLAYS = VERIF / "replays"
KNOWN = VERIF / "known_findings.json"
DRIVER_EXE = LEAN / ".lake" / "build" / "bin" / "nima_driver"
ALLOWED_AXIOMS = {"propext", "Classical.choice", "Quot.sound"}
FORBIDDEN = re.compile(
    r"\b(sorry|admit|native_decide|bv_decide|implemented_by|unsafe)\b|^\s*axiom\s|maxHeartbeats\s+0\b",
    re.M,
)


class Infra(Exception):
    """Infrastructure failure: exit 2, never a violation."""


def hx(s: str) -> str:
    return "x" + s.encode("utf-8", "surrogatepass").hex()


def unhx(a: str) -> str:
    assert a.startswith("x"), a
    return bytes.fromhex(a[1:]).decode("utf-8", "surrogatepass")


# ---------------------------------------------------------------- S-expressions
def sexp_dump(e) -> str:
    if isinstance(e, (list, tuple)):
        return "(" + " ".join(sexp_dump(x) for x in e) + ")"
    if isinstance(e, bool):
        return "t" if e else "f"
    return str(e)


def sexp_parse(s: str):
    toks = s.replace("(", " ( ").replace(")", " ) ").split()
    pos = 0

    def rd():
        nonlocal pos
        t = toks[pos]
        pos += 1
        if t == "(":
            out = []
            while toks[pos] != ")":
                out.append(rd())
            pos += 1
            return out
        return t

    r = rd()
    assert pos == len(toks), s
    return r


class Driver:
    """The Lean model behind a one-line-in, one-line-out protocol (native exe).

    Each batch runs one process via communicate() (no pipe deadlock; start-up is milliseconds)."""

    def __init__(self):
        if not DRIVER_EXE.exists():
            raise Infra(f"driver executable missing: {DRIVER_EXE} (run setup.sh)")

    def ask_many(self, reqs: list) -> list:
        if not reqs:
            return []
        data = "".join(sexp_dump(r) + "\n" for r in reqs)
        try:
            r = subprocess.run([str(DRIVER_EXE)], input=data, capture_output=True, text=True, timeout=1800)
        except subprocess.TimeoutExpired:
            raise Infra("driver timeout")
        lines = r.stdout.splitlines()
        if r.returncode != 0 or len(lines) != len(reqs):
            raise Infra(f"driver failed: rc={r.returncode} replies={len(lines)}/{len(reqs)} {r.stderr[-500:]}")
        return [sexp_parse(line) for line in lines]

    def ask(self, req):
        return self.ask_many([req])[0]

    def close(self):
        pass


# ---------------------------------------------------------------- Lean build and audit
def run_cmd(cmd, cwd=None, timeout=3600, env=None):
    t0 = time.time()
    try:
        r = subprocess.run(cmd, cwd=cwd, capture_output=True, text=True, timeout=timeout, env=env)
    except subprocess.TimeoutExpired:
        raise Infra(f"timeout: {' '.join(map(str, cmd))}")
    return r.returncode, r.stdout + r.stderr, time.time() - t0


def lake_build(targets: list[str]) -> tuple[bool, str]:
    rc, out, _ = run_cmd(["lake", "build", *targets], cwd=LEAN, timeout=3000)
    return rc == 0, out


def strip_lean_comments(src: str) -> str:
    """Remove block comments (nested) and line comments; string literals are kept."""
    out = []
    i, depth, n = 0, 0, len(src)
    while i < n:
        if src.startswith("/-", i):
            depth += 1
            i += 2
        elif depth and src.startswith("-/", i):
            depth -= 1
            i += 2
        elif depth:
            if src[i] == "\n":
                out.append("\n")
            i += 1
        elif src.startswith("--", i):
            while i < n and src[i] != "\n":
                i += 1
        else:
            out.append(src[i])
            i += 1
    return "".join(out)


def audit_sources() -> list[str]:
    """Forbidden constructs anywhere in lean/ (outside comments)."""
    bad = []
    for p in sorted(LEAN.rglob("*.lean")):
        if ".lake" in p.parts:
            continue
        code = strip_lean_comments(p.read_text())
        for m in FORBIDDEN.finditer(code):
            line = code.count("\n", 0, m.start()) + 1
            bad.append(f"{p.relative_to(LEAN)}:{line}: {m.group(0).strip()}")
    return bad


def prop_theorems(pid: str) -> list[str]:
    """Names of the theorems declared in Props/<pid>.lean (namespace-qualified as written)."""
    src = strip_lean_comments((LEAN / "NimaVerif" / "Props" / f"{pid}.lean").read_text())
    ns = []
    names = []
    for line in src.splitlines():
        m = re.match(r"\s*namespace\s+(\S+)", line)
        if m:
            ns.append(m.group(1))
            continue
        m = re.match(r"\s*end\s+(\S+)", line)
        if m and ns and ns[-1] == m.group(1):
            ns.pop()
            continue
        m = re.match(r"\s*(?:@\[[^\]]*\]\s*)?(?:private\s+|protected\s+)?theorem\s+(\S+)", line)
        if m:
            names.append(".".join(ns + [m.group(1)]))
    return names


def audit_axioms(pid: str, build_log: str) -> tuple[dict, list[str]]:
    """Parse `#print axioms` output of Audit/<pid>.lean from the build log.

    Returns ({theorem: [axioms]}, problems). Every theorem of Props/<pid>.lean must be audited."""
    axioms: dict[str, list[str]] = {}
    for m in re.finditer(r"'([^']+)' depends on axioms: \[([^\]]*)\]", build_log, re.S):
        axioms[m.group(1)] = [a.strip() for a in m.group(2).replace("\n", " ").split(",") if a.strip()]
    for m in re.finditer(r"'([^']+)' does not depend on any axioms", build_log):
        axioms[m.group(1)] = []
    problems = []
    for thm in prop_theorems(pid):
        if thm not in axioms:
            problems.append(f"theorem {thm} not audited (no #print axioms output)")
        else:
            extra = set(axioms[thm]) - ALLOWED_AXIOMS
            if extra:
                problems.append(f"theorem {thm} depends on disallowed axioms {sorted(extra)}")
    return axioms, problems


# ---------------------------------------------------------------- known findings
def load_known(pid: str) -> tuple[list[dict], list[dict]]:
    ents = []
    files = ([KNOWN] if KNOWN.exists() else []) + sorted((VERIF / "known_findings.d").glob("*.json"))
    for f in files:
        data = json.loads(f.read_text())
        ents += [e for e in data.get("findings", []) if e.get("property") == pid]
    return [e for e in ents if e.get("status") == "open"], [e for e in ents if e.get("status") == "fixed"]


def load_known_cases(pid: str) -> dict:
    """known_cases/<pid>.json: finding id -> list of case ids (the enumerated inputs that fail on the
    unchanged tree because of that finding). Written by tools/record_cases.py, reviewed and committed;
    never written by a check."""
    f = VERIF / "known_cases" / f"{pid}.json"
    if not f.exists():
        return {}
    return {k: set(v) for k, v in json.loads(f.read_text()).items()}


def known_hit(open_known: list[dict], cases: dict, failure: dict):
    """The open finding a failure belongs to: its key pattern matches and, when the failure comes
    from a deterministic enumeration (it carries a case id) and the finding has recorded cases, the
    case is one of them. A new failing case of a known call site is therefore still a violation."""
    for k in open_known:
        if not key_matches(k["key"], failure["key"]):
            continue
        rec = cases.get(k["id"])
        if rec is not None and failure.get("case") is not None and failure["case"] not in rec:
            continue
        return k
    return None


def key_matches(pattern: dict | str, key: dict | str) -> bool:
    """A known-finding key matches when every field of the pattern equals the failure's field
    ('*' leaves a field open)."""
    if isinstance(pattern, str) or isinstance(key, str):
        return pattern == key
    for k, v in pattern.items():
        if v == "*":
            continue
        if key.get(k) != v:
            return False
    return True


# ---------------------------------------------------------------- context
class Ctx:
    def __init__(self, pid: str, tier: str, seed: int):
        self.pid, self.tier, self.seed = pid, tier, seed
        self.rng = random.Random(seed)
        self.t0 = time.time()
        self.failures: list[dict] = []  # property failures on the implementation
        self.tie_breaks: list[dict] = []  # broken tie: translator / theorem / correspondence
        self.evaluations = 0
        self.nontrivial: set[str] = set()
        self.samples: list = []
        self.dist: dict[str, int] = {}
        self.extra: dict = {}
        self.obligations: list[str] = []
        self.discharged: list[str] = []
        self.assumptions: list[str] = []
        self.trusted_base: list[str] = []
        self.corr_checked = 0
        self._driver: Driver | None = None
        self.quick = tier == "quick"

    # -- bookkeeping
    def count(self, name: str, n: int = 1):
        self.dist[name] = self.dist.get(name, 0) + n

    def case(self, rep, nontrivial: bool = True):
        """Register one explored case (for evidence)."""
        self.evaluations += 1
        if nontrivial:
            h = hashlib.sha1(repr(rep).encode("utf-8", "surrogatepass")).hexdigest()[:16]
            self.nontrivial.add(h)
        if len(self.samples) < 12 and (self.evaluations % 37 == 1):
            self.samples.append(rep)

    def fail(self, key, input_, what: str, **more):
        """A violation of the property observed on the implementation."""
        if "case" not in more and isinstance(input_, dict) and input_.get("stream") in ("enum", "special", "fixed") \
                and "doc" in input_:
            # inputs of a deterministic enumeration are identified by document + history + step
            blob = json.dumps([input_.get("doc"), input_.get("ops"), input_.get("at"), key.get("clause") if isinstance(key, dict) else None],
                              sort_keys=True, default=str)
            more["case"] = hashlib.sha1(blob.encode("utf-8")).hexdigest()[:14]
        self.failures.append({"key": key, "input": input_, "what": what, **more})

    def tie_break(self, kind: str, what: str, **more):
        """The model<->code tie is broken (translator, theorem, correspondence)."""
        self.tie_breaks.append({"kind": kind, "what": what, **more})

    @property
    def driver(self) -> Driver:
        if self._driver is None:
            self._driver = Driver()
        return self._driver

    def elapsed(self) -> float:
        return time.time() - self.t0


def write_replay(pid: str, payload: dict) -> Path:
    REPLAYS.mkdir(exist_ok=True)
    blob = json.dumps(payload, sort_keys=True, ensure_ascii=True, default=str)
    h = hashlib.sha1(blob.encode()).hexdigest()[:12]
    p = REPLAYS / f"{pid}-{h}.json"
    p.write_text(json.dumps(payload, indent=1, ensure_ascii=True, default=str))
    return p


def write_evidence(ctx: Ctx, violations: int, known_reproduced: list, checker_cmd: str):
    EVIDENCE.mkdir(exist_ok=True)
    samples = ctx.samples or ["(no cases)"]
    cov = {
        "obligations": max(1, len(ctx.obligations)),
        "discharged": len(ctx.discharged),
        "checker_cmd": checker_cmd,
        "trusted_base": ctx.trusted_base,
        "evaluations": max(1, ctx.evaluations),
        "distinct_nontrivial": len(ctx.nontrivial),
        "rule": ctx.extra.pop("rule", ""),
        "samples": samples,
        "disagreements_checked": ctx.corr_checked,
        "theorems": ctx.obligations,
        "distribution": dict(sorted(ctx.dist.items())),
        "known_findings_reproduced": known_reproduced,
        "tie_breaks": ctx.tie_breaks[:20],
        **ctx.extra,
    }
    if cov["discharged"] < 1:
        # nothing was proved on this run (broken build): the proof-level keys would be invalid;
        # the exploration-style keys remain and `undischarged` says why
        cov["undischarged"] = cov.pop("obligations")
        cov.pop("discharged")
    ev = {
        "property_id": ctx.pid,
        "tier": ctx.tier,
        "seed": ctx.seed,
        "level": "proof",
        "coverage": cov,
        "assumptions": ctx.assumptions,
        "wall_s": round(ctx.elapsed(), 2),
        "violations": violations,
    }
    (EVIDENCE / f"{ctx.pid}.json").write_text(json.dumps(ev, indent=1, ensure_ascii=True, default=str))
