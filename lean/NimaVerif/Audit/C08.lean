import NimaVerif.Props.C08
open Nima.C08
#print axioms invalid_value_rejected_unchanged
