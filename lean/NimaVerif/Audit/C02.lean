import NimaVerif.Props.C02
open Nima.C02
#print axioms separator_inline
