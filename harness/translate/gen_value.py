"""Gen/Value.lean: constants and dispatch orders of the value-construction / rendering code (C13).

Each table is found by role inside the function that uses it; if the source no longer has the shape
the extractor understands, a `none` sentinel is emitted and the `tie_*` theorem of Props/C13.lean fails.
"""
from __future__ import annotations

import ast

from .translate import ExtractError, Result, const_str, find_function, lean_text, parse_file, run_table


def _find_class(mod: ast.Module, name: str) -> ast.ClassDef:
    for node in ast.walk(mod):
        if isinstance(node, ast.ClassDef) and node.name == name:
            return node
    raise ExtractError(f"class {name} not found")


def _method(cls: ast.ClassDef, name: str) -> ast.FunctionDef:
    for node in cls.body:
        if isinstance(node, (ast.FunctionDef, ast.AsyncFunctionDef)) and node.name == name:
            return node
    raise ExtractError(f"method {cls.name}.{name} not found")


def _int_const(node) -> int | None:
    if isinstance(node, ast.Constant) and isinstance(node.value, int) and not isinstance(node.value, bool):
        return node.value
    return None


def extract_max_inline_width() -> int:
    """The default of `max_width` in `NixList.simple_inline_preview` (a module constant or a literal)."""
    mod = parse_file("expressions/list.py")
    fn = _method(_find_class(mod, "NixList"), "simple_inline_preview")
    args = fn.args
    default = None
    for a, d in zip(args.kwonlyargs, args.kw_defaults):
        if a.arg == "max_width":
            default = d
    pos = args.posonlyargs + args.args
    for a, d in zip(pos[len(pos) - len(args.defaults):], args.defaults):
        if a.arg == "max_width":
            default = d
    if default is None:
        raise ExtractError("simple_inline_preview has no max_width default")
    v = _int_const(default)
    if v is not None:
        return v
    if isinstance(default, ast.Name):
        for node in mod.body:
            if isinstance(node, ast.Assign) and any(isinstance(t, ast.Name) and t.id == default.id for t in node.targets):
                v = _int_const(node.value)
                if v is not None:
                    return v
    raise ExtractError("cannot evaluate the max_width default")


def _gt_const(node, var: str) -> int | None:
    """`<var> > N` -> N"""
    if (
        isinstance(node, ast.Compare)
        and len(node.ops) == 1
        and isinstance(node.ops[0], ast.Gt)
        and isinstance(node.left, ast.Name)
        and node.left.id == var
    ):
        return _int_const(node.comparators[0])
    return None


def extract_auto_multiline() -> tuple[int, int]:
    """Tail of `_auto_multiline`: `count = len(self.value)`, `if inline and indent == 0: return count > A`,
    `return count > B`  ->  (A, B)."""
    mod = parse_file("expressions/list.py")
    fn = _method(_find_class(mod, "NixList"), "_auto_multiline")
    body = fn.body
    if len(body) < 3:
        raise ExtractError("_auto_multiline: body too short")
    last, cond = body[-1], body[-2]
    count_var = None
    for st in body:
        if (
            isinstance(st, ast.Assign)
            and isinstance(st.value, ast.Call)
            and isinstance(st.value.func, ast.Name)
            and st.value.func.id == "len"
            and isinstance(st.targets[0], ast.Name)
        ):
            a = st.value.args[0]
            if isinstance(a, ast.Attribute) and a.attr == "value":
                count_var = st.targets[0].id
    if count_var is None:
        raise ExtractError("_auto_multiline: no `count = len(self.value)`")
    if not isinstance(last, ast.Return) or _gt_const(last.value, count_var) is None:
        raise ExtractError("_auto_multiline: last statement is not `return count > N`")
    if not (isinstance(cond, ast.If) and not cond.orelse and len(cond.body) == 1 and isinstance(cond.body[0], ast.Return)):
        raise ExtractError("_auto_multiline: no `if inline and indent == 0: return …` before the last return")
    a = _gt_const(cond.body[0].value, count_var)
    if a is None:
        raise ExtractError("_auto_multiline: guarded return is not `count > N`")
    t = cond.test
    ok = (
        isinstance(t, ast.BoolOp)
        and isinstance(t.op, ast.And)
        and len(t.values) == 2
        and isinstance(t.values[0], ast.Name)
        and t.values[0].id == "inline"
        and isinstance(t.values[1], ast.Compare)
        and isinstance(t.values[1].left, ast.Name)
        and t.values[1].left.id == "indent"
        and isinstance(t.values[1].ops[0], ast.Eq)
        and _int_const(t.values[1].comparators[0]) == 0
    )
    if not ok:
        raise ExtractError("_auto_multiline: guard is not `inline and indent == 0`")
    return a, _gt_const(last.value, count_var)


def _len_cmp_const(node, op) -> int | None:
    """`len(<x>) <op> N` -> N"""
    if (
        isinstance(node, ast.Compare)
        and len(node.ops) == 1
        and isinstance(node.ops[0], op)
        and isinstance(node.left, ast.Call)
        and isinstance(node.left.func, ast.Name)
        and node.left.func.id == "len"
    ):
        return _int_const(node.comparators[0])
    return None


def extract_single_binding() -> int:
    """`from_dict`: `multiline = len(values_list) != N`; `__post_init__`: `if self.multiline and len(items) == N`."""
    mod = parse_file("expressions/set.py")
    cls = _find_class(mod, "AttributeSet")
    fd = _method(cls, "from_dict")
    n1 = None
    for node in ast.walk(fd):
        if isinstance(node, ast.Assign) and isinstance(node.targets[0], ast.Name) and node.targets[0].id == "multiline":
            n1 = _len_cmp_const(node.value, ast.NotEq)
    pi = _method(cls, "__post_init__")
    n2 = None
    for node in ast.walk(pi):
        if isinstance(node, ast.If) and isinstance(node.test, ast.BoolOp) and isinstance(node.test.op, ast.And):
            vals = node.test.values
            if (
                len(vals) == 2
                and isinstance(vals[0], ast.Attribute)
                and vals[0].attr == "multiline"
                and _len_cmp_const(vals[1], ast.Eq) is not None
            ):
                sets_false = any(
                    isinstance(st, ast.Assign)
                    and isinstance(st.targets[0], ast.Attribute)
                    and st.targets[0].attr == "multiline"
                    and isinstance(st.value, ast.Constant)
                    and st.value.value is False
                    for st in node.body
                )
                if sets_false:
                    n2 = _len_cmp_const(vals[1], ast.Eq)
    if n1 is None:
        raise ExtractError("from_dict: no `multiline = len(…) != N`")
    if n2 is None:
        raise ExtractError("__post_init__: no `if self.multiline and len(items) == N: self.multiline = False`")
    if n1 != n2:
        raise ExtractError(f"from_dict and __post_init__ disagree on the single-binding count ({n1} vs {n2})")
    return n1


def _returned(fn: ast.FunctionDef):
    rets = [n for n in ast.walk(fn) if isinstance(n, ast.Return)]
    if len(rets) != 1:
        raise ExtractError(f"{fn.name}: expected one return")
    return rets[0].value


def extract_literals() -> dict:
    """`_render_value` of NullPrimitive / BooleanPrimitive / StringPrimitive / IntegerPrimitive."""
    mod = parse_file("expressions/primitive.py")
    null = const_str(_returned(_method(_find_class(mod, "NullPrimitive"), "_render_value")))
    b = _returned(_method(_find_class(mod, "BooleanPrimitive"), "_render_value"))
    if not (isinstance(b, ast.IfExp) and isinstance(b.test, ast.Attribute) and b.test.attr == "value"):
        raise ExtractError("BooleanPrimitive._render_value is not `A if self.value else B`")
    t, f = const_str(b.body), const_str(b.orelse)
    if null is None or t is None or f is None:
        raise ExtractError("literal spellings are not constants")
    # string: f'"{raw_value}"' with raw_value = self.value if self.raw_string else <escaper>(self.value)
    sfn = _method(_find_class(mod, "StringPrimitive"), "_render_value")
    s = _returned(sfn)
    if not (isinstance(s, ast.JoinedStr) and len(s.values) == 3 and const_str(s.values[0]) is not None
            and isinstance(s.values[1], ast.FormattedValue) and const_str(s.values[2]) is not None):
        raise ExtractError("StringPrimitive._render_value is not f'<q>{raw}<q>'")
    esc_kw = None
    for node in ast.walk(sfn):
        if isinstance(node, ast.IfExp) and isinstance(node.orelse, ast.Call) and isinstance(node.orelse.func, ast.Name):
            call = node.orelse
            escaper = find_function(mod, call.func.id)
            kw = [k for k in call.keywords if k.arg == "escape_interpolation"]
            if kw:
                if isinstance(kw[0].value, ast.Constant):
                    esc_kw = bool(kw[0].value.value)
            else:
                for a, d in zip(escaper.args.kwonlyargs, escaper.args.kw_defaults):
                    if a.arg == "escape_interpolation" and isinstance(d, ast.Constant):
                        esc_kw = bool(d.value)
    if esc_kw is None:
        raise ExtractError("StringPrimitive._render_value: cannot tell how the escaper is called")
    # integer: f"{self.value}"
    i = _returned(_method(_find_class(mod, "IntegerPrimitive"), "_render_value"))
    int_plain = (
        isinstance(i, ast.JoinedStr) and len(i.values) == 1 and isinstance(i.values[0], ast.FormattedValue)
        and i.values[0].format_spec is None and i.values[0].conversion == -1
    ) or (isinstance(i, ast.Call) and isinstance(i.func, ast.Name) and i.func.id == "str")
    if not int_plain:
        raise ExtractError("IntegerPrimitive._render_value is not the plain decimal form")
    return {"null": null, "true": t, "false": f, "open": const_str(s.values[0]), "close": const_str(s.values[2]),
            "interp": esc_kw}


def _dispatch_order(fn: ast.FunctionDef, var: str) -> list[str]:
    out = []
    for st in fn.body:
        if not isinstance(st, ast.If):
            continue
        t = st.test
        if (isinstance(t, ast.Call) and isinstance(t.func, ast.Name) and t.func.id == "isinstance"
                and isinstance(t.args[0], ast.Name) and t.args[0].id == var and isinstance(t.args[1], ast.Name)):
            out.append(t.args[1].id)
        elif (isinstance(t, ast.Compare) and isinstance(t.left, ast.Name) and t.left.id == var
              and isinstance(t.ops[0], ast.Is) and isinstance(t.comparators[0], ast.Constant)
              and t.comparators[0].value is None):
            out.append("None")
        else:
            raise ExtractError(f"{fn.name}: unrecognised dispatch test")
    return out


def extract_coerce_order() -> dict:
    """Order of the type tests in `coerce_expression` and `_primitive_cls_from_value` (bool before int)."""
    emod = parse_file("expressions/expression.py")
    ce = find_function(emod, "coerce_expression")
    order = _dispatch_order(ce, ce.args.args[0].arg)
    pmod = parse_file("expressions/primitive.py")
    pc = find_function(pmod, "_primitive_cls_from_value")
    porder = _dispatch_order(pc, pc.args.args[0].arg)
    return {"coerce": order, "primitive": porder}


def _branch_of(ce: ast.FunctionDef, typ: str) -> ast.If:
    var = ce.args.args[0].arg
    for st in ce.body:
        if isinstance(st, ast.If):
            t = st.test
            if (isinstance(t, ast.Call) and isinstance(t.func, ast.Name) and t.func.id == "isinstance"
                    and isinstance(t.args[0], ast.Name) and t.args[0].id == var
                    and isinstance(t.args[1], ast.Name) and t.args[1].id == typ):
                return st
    raise ExtractError(f"coerce_expression: no `isinstance(value, {typ})` branch")


def _strip_doc(body):
    if body and isinstance(body[0], ast.Expr) and isinstance(body[0].value, ast.Constant) \
            and isinstance(body[0].value.value, str):
        return body[1:]
    return body


def extract_float_literal() -> tuple[str, str, str]:
    """How `coerce_expression` spells a float: `FloatExpression(value=H(value))` with

        def H(value): text = repr(value)
                      if "<dot>" not in text:
                          a, b, c = text.partition("<mark>"); text = f"{a}<ins>{b}{c}"
                      return text

    -> (dot, mark, ins)."""
    emod = parse_file("expressions/expression.py")
    ce = find_function(emod, "coerce_expression")
    var = ce.args.args[0].arg
    br = _branch_of(ce, "float")
    helper = None
    for node in ast.walk(br):
        if isinstance(node, ast.Call) and isinstance(node.func, ast.Name) and node.func.id == "FloatExpression":
            for kw in node.keywords:
                if (kw.arg == "value" and isinstance(kw.value, ast.Call) and isinstance(kw.value.func, ast.Name)
                        and len(kw.value.args) == 1 and isinstance(kw.value.args[0], ast.Name)
                        and kw.value.args[0].id == var and not kw.value.keywords):
                    helper = kw.value.func.id
    if helper is None:
        raise ExtractError("coerce_expression: floats are not rendered as FloatExpression(value=<helper>(value))")
    if helper in ("repr", "str"):
        raise ExtractError("coerce_expression: floats are rendered as the bare repr (no `.` is put back)")
    fn = find_function(emod, helper)
    body = _strip_doc(fn.body)
    arg = fn.args.args[0].arg
    if len(body) != 3:
        raise ExtractError(f"{helper}: expected `text = repr(v)`, one `if`, `return text`")
    a0, cond, ret = body
    ok0 = (isinstance(a0, ast.Assign) and len(a0.targets) == 1 and isinstance(a0.targets[0], ast.Name)
           and isinstance(a0.value, ast.Call) and isinstance(a0.value.func, ast.Name)
           and a0.value.func.id in ("repr", "str") and len(a0.value.args) == 1
           and isinstance(a0.value.args[0], ast.Name) and a0.value.args[0].id == arg)
    if not ok0:
        raise ExtractError(f"{helper}: does not start with `text = repr(value)`")
    text = a0.targets[0].id
    if not (isinstance(ret, ast.Return) and isinstance(ret.value, ast.Name) and ret.value.id == text):
        raise ExtractError(f"{helper}: does not end with `return {text}`")
    t = cond.test if isinstance(cond, ast.If) else None
    if not (t is not None and not cond.orelse and isinstance(t, ast.Compare) and len(t.ops) == 1
            and isinstance(t.ops[0], ast.NotIn) and const_str(t.left) is not None and len(const_str(t.left)) == 1
            and isinstance(t.comparators[0], ast.Name) and t.comparators[0].id == text and len(cond.body) == 2):
        raise ExtractError(f"{helper}: no `if \"<c>\" not in {text}:` with a two-statement body")
    dot = const_str(t.left)
    part, build = cond.body
    pv = part.value if isinstance(part, ast.Assign) else None
    if not (pv is not None and isinstance(part.targets[0], ast.Tuple) and len(part.targets[0].elts) == 3
            and all(isinstance(e, ast.Name) for e in part.targets[0].elts)
            and isinstance(pv, ast.Call) and isinstance(pv.func, ast.Attribute) and pv.func.attr == "partition"
            and isinstance(pv.func.value, ast.Name) and pv.func.value.id == text and len(pv.args) == 1
            and const_str(pv.args[0]) is not None and len(const_str(pv.args[0])) == 1):
        raise ExtractError(f"{helper}: no `a, b, c = {text}.partition(\"<c>\")`")
    names = [e.id for e in part.targets[0].elts]
    mark = const_str(pv.args[0])
    js = build.value if isinstance(build, ast.Assign) else None
    if not (js is not None and isinstance(build.targets[0], ast.Name) and build.targets[0].id == text
            and isinstance(js, ast.JoinedStr) and len(js.values) == 4):
        raise ExtractError(f"{helper}: no `{text} = f\"{{a}}<ins>{{b}}{{c}}\"`")
    v0, v1, v2, v3 = js.values

    def fv(n, name):
        return (isinstance(n, ast.FormattedValue) and isinstance(n.value, ast.Name) and n.value.id == name
                and n.format_spec is None and n.conversion == -1)

    if not (fv(v0, names[0]) and const_str(v1) is not None and fv(v2, names[1]) and fv(v3, names[2])):
        raise ExtractError(f"{helper}: the f-string is not {{a}}<ins>{{b}}{{c}}")
    return dot, mark, const_str(v1)


def _const_int_expr(node) -> int | None:
    """Evaluate an integer expression built from literals with + - * ** (nothing else)."""
    v = _int_const(node)
    if v is not None:
        return v
    if isinstance(node, ast.UnaryOp) and isinstance(node.op, ast.USub):
        x = _const_int_expr(node.operand)
        return None if x is None else -x
    if isinstance(node, ast.BinOp):
        a, b = _const_int_expr(node.left), _const_int_expr(node.right)
        if a is None or b is None:
            return None
        if isinstance(node.op, ast.Add):
            return a + b
        if isinstance(node.op, ast.Sub):
            return a - b
        if isinstance(node.op, ast.Mult):
            return a * b
        if isinstance(node.op, ast.Pow) and 0 <= b <= 4096:
            return a ** b
    return None


def extract_int_literal_max() -> int:
    """`coerce_expression`, int branch: the first statement is `if abs(value) > N: raise ValueError(…)`
    (N a literal expression or a module constant)  ->  N."""
    emod = parse_file("expressions/expression.py")
    ce = find_function(emod, "coerce_expression")
    var = ce.args.args[0].arg
    br = _branch_of(ce, "int")
    first = br.body[0] if br.body else None
    t = first.test if isinstance(first, ast.If) else None
    if not (t is not None and not first.orelse and isinstance(t, ast.Compare) and len(t.ops) == 1
            and isinstance(t.ops[0], ast.Gt) and isinstance(t.left, ast.Call) and isinstance(t.left.func, ast.Name)
            and t.left.func.id == "abs" and len(t.left.args) == 1 and isinstance(t.left.args[0], ast.Name)
            and t.left.args[0].id == var):
        raise ExtractError("coerce_expression: the int branch does not start with `if abs(value) > N:`")
    raises = (len(first.body) == 1 and isinstance(first.body[0], ast.Raise)
              and isinstance(first.body[0].exc, ast.Call) and isinstance(first.body[0].exc.func, ast.Name)
              and first.body[0].exc.func.id == "ValueError")
    if not raises:
        raise ExtractError("coerce_expression: the range test of the int branch does not raise ValueError")
    bound = t.comparators[0]
    n = _const_int_expr(bound)
    if n is None and isinstance(bound, ast.Name):
        for node in emod.body:
            if isinstance(node, ast.Assign) and any(isinstance(x, ast.Name) and x.id == bound.id for x in node.targets):
                n = _const_int_expr(node.value)
    if n is None or n < 0:
        raise ExtractError("coerce_expression: cannot evaluate the integer bound")
    return n


def extract_list_item_rule() -> dict:
    """`NixList`: which functions coerce an item with the parenthesising helper and which with plain
    `coerce_expression`; the helper wraps `Parenthesis(value=<bare>, before=…, after=…)` when the
    predicate holds; the predicate is `IntegerPrimitive: value < 0`, `FloatExpression: value.startswith("-")`."""
    mod = parse_file("expressions/list.py")
    helper = find_function(mod, "_coerce_list_item")
    pred_name = None
    wraps = False
    for node in ast.walk(helper):
        if isinstance(node, ast.If) and isinstance(node.test, ast.Call) and isinstance(node.test.func, ast.Name):
            pred_name = node.test.func.id
            for sub in ast.walk(node):
                if isinstance(sub, ast.Return) and isinstance(sub.value, ast.Call) \
                        and isinstance(sub.value.func, ast.Name) and sub.value.func.id == "Parenthesis":
                    kws = {k.arg for k in sub.value.keywords}
                    wraps = {"value", "before", "after"} <= kws
    if pred_name is None or not wraps:
        raise ExtractError("_coerce_list_item: no `if <pred>(expr): … return Parenthesis(value=, before=, after=)`")
    first = _strip_doc(helper.body)[0]
    if not (isinstance(first, ast.Assign) and isinstance(first.value, ast.Call)
            and isinstance(first.value.func, ast.Name) and first.value.func.id == "coerce_expression"):
        raise ExtractError("_coerce_list_item: does not start with `expr = coerce_expression(item)`")
    pred = find_function(mod, pred_name)
    tests = []
    for st in _strip_doc(pred.body):
        if isinstance(st, ast.If):
            t = st.test
            if not (isinstance(t, ast.Call) and isinstance(t.func, ast.Name) and t.func.id == "isinstance"
                    and isinstance(t.args[1], ast.Name) and len(st.body) == 1 and isinstance(st.body[0], ast.Return)):
                raise ExtractError(f"{pred_name}: unrecognised test")
            r = st.body[0].value
            if (isinstance(r, ast.Compare) and len(r.ops) == 1 and isinstance(r.ops[0], ast.Lt)
                    and isinstance(r.left, ast.Attribute) and r.left.attr == "value"
                    and _int_const(r.comparators[0]) == 0):
                tests.append((t.args[1].id, "value<0"))
            elif (isinstance(r, ast.Call) and isinstance(r.func, ast.Attribute) and r.func.attr == "startswith"
                  and isinstance(r.func.value, ast.Attribute) and r.func.value.attr == "value"
                  and len(r.args) == 1 and const_str(r.args[0]) is not None):
                tests.append((t.args[1].id, "value.startswith:" + const_str(r.args[0])))
            else:
                raise ExtractError(f"{pred_name}: unrecognised result for {t.args[1].id}")
        elif isinstance(st, ast.Return):
            if not (isinstance(st.value, ast.Constant) and st.value.value is False):
                raise ExtractError(f"{pred_name}: the fall-through result is not False")
        elif not isinstance(st, (ast.Import, ast.ImportFrom)):
            raise ExtractError(f"{pred_name}: unexpected statement")
    cls = _find_class(mod, "NixList")
    users = {"_coerce_list_item": [], "coerce_expression": []}
    for m in cls.body:
        if not isinstance(m, ast.FunctionDef):
            continue
        # nested helper functions (render_item) are reported under their own name
        nested = [n for n in ast.walk(m) if isinstance(n, ast.FunctionDef) and n is not m]
        for fn in [m] + nested:
            own = [n for n in ast.walk(fn) if not any(n is not x and n in ast.walk(x) for x in nested if x is not fn)]
            for n in own:
                if isinstance(n, ast.Call) and isinstance(n.func, ast.Name) and n.func.id in users:
                    if fn.name not in users[n.func.id]:
                        users[n.func.id].append(fn.name)
    return {"tests": tests, "paren": sorted(users["_coerce_list_item"]), "plain": sorted(users["coerce_expression"])}


def emit(res: Result) -> dict[str, str]:
    out = [
        "/- GENERATED by harness/translate/translate.py from /repo on every run. Do not edit. -/",
        "namespace Nima.Gen",
        "",
    ]
    w = run_table(res, "max_inline_width", extract_max_inline_width)
    out.append(f"def maxInlineListWidth : Option Nat := {'none' if w is None else f'some {w}'}")
    am = run_table(res, "auto_multiline", extract_auto_multiline)
    out.append("def autoMultilineThresholds : Option (Nat × Nat) := "
               + ("none" if am is None else f"some ({am[0]}, {am[1]})"))
    sb = run_table(res, "single_binding", extract_single_binding)
    out.append(f"def singleBindingCount : Option Nat := {'none' if sb is None else f'some {sb}'}")
    lit = run_table(res, "literals", extract_literals)
    if lit is None:
        out += ["def litNull : Option (List Char) := none", "def litTrue : Option (List Char) := none",
                "def litFalse : Option (List Char) := none", "def stringQuotes : Option (List Char × List Char) := none",
                "def stringEscapesInterpolation : Option Bool := none"]
    else:
        out += [f"def litNull : Option (List Char) := some {lean_text(lit['null'])}",
                f"def litTrue : Option (List Char) := some {lean_text(lit['true'])}",
                f"def litFalse : Option (List Char) := some {lean_text(lit['false'])}",
                f"def stringQuotes : Option (List Char × List Char) := some ({lean_text(lit['open'])}, {lean_text(lit['close'])})",
                f"def stringEscapesInterpolation : Option Bool := some {'true' if lit['interp'] else 'false'}"]
    co = run_table(res, "coerce_order", extract_coerce_order)
    fmt = lambda xs: "[" + ", ".join('"' + x + '"' for x in xs) + "]"
    if co is None:
        out += ["def coerceOrder : Option (List String) := none", "def primitiveOrder : Option (List String) := none"]
    else:
        out += [f"def coerceOrder : Option (List String) := some {fmt(co['coerce'])}",
                f"def primitiveOrder : Option (List String) := some {fmt(co['primitive'])}"]
    fl = run_table(res, "float_literal", extract_float_literal)
    out.append("def floatLiteralRule : Option (Char × Char × List Char) := "
               + ("none" if fl is None or len(fl[0]) != 1 or len(fl[1]) != 1 else
                  f"some ({lean_text(fl[0])[1:-1]}, {lean_text(fl[1])[1:-1]}, {lean_text(fl[2])})"))
    im = run_table(res, "int_literal_max", extract_int_literal_max)
    out.append(f"def coerceIntMax : Option Nat := {'none' if im is None else f'some {im}'}")
    li = run_table(res, "list_item_paren", extract_list_item_rule)
    if li is None:
        out += ["def negLiteralTests : Option (List (String × String)) := none",
                "def listItemCoercers : Option (List String × List String) := none"]
    else:
        tests = "[" + ", ".join(f'("{a}", "{b}")' for a, b in li["tests"]) + "]"
        out += [f"def negLiteralTests : Option (List (String × String)) := some {tests}",
                f"def listItemCoercers : Option (List String × List String) := some ({fmt(li['paren'])}, {fmt(li['plain'])})"]
    out += ["", "end Nima.Gen", ""]
    return {"Value.lean": "\n".join(out)}
