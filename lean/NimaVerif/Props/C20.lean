import NimaVerif.Lemmas.Cost
import NimaVerif.Gen.Multiplicity
import NimaVerif.Gen.Raises
/-!
# C20 — parse and rebuild terminate quickly and fail only in documented ways

Property theorems only (the metatheorems about the cost recurrence live in `Lemmas/Cost.lean`).

*(b) Cost.* `calls m e` (`Model/Cost.lean`) bounds the number of `rebuild` invocations needed to render a
tree with skeleton `e`, given the multiplicity table `m`. All statements quantify over every skeleton
(unbounded size and depth). `Gen.multiplicityParsed` is regenerated from the Python AST on every run;
the check additionally compares it with run-time counts (observed ≤ table on every document,
equality on each doubled entry's depth family, `calls` of the observed skeleton = observed count on
the families).

*(a) Failure modes.* `Gen.escapingSites` lists the explicit `raise`/`assert` sites that can propagate
out of `parse` / `from_cst` / `rebuild` along the (by-name) call graph. Implicit exceptions
(`xs[-1]`, `next(it)`, attribute access on `None`) have no raise site: no static table can list them;
they are covered by the exception-class oracle of the check on generated inputs, and the evidence
says so.
-/
namespace Nima.C20
open Nima.Cost

/-! ## (b) Cost -/

/-- the multiplicity function extracted from the Python source on this run (paths feasible for
    objects built by `from_cst`) -/
def mParsed : String → String → Nat := mult (Gen.multiplicityParsed.getD [])

/-- the same over all control-flow paths (objects built through the Python API as well) -/
def mFull : String → String → Nat := mult (Gen.multiplicity.getD [])

/-! ### Translator tie -/

theorem tie_multiplicity_extracted :
    Gen.multiplicity.isSome = true ∧ Gen.multiplicityParsed.isSome = true ∧
    Gen.renderLike.isSome = true := by decide

/-- Every doubled row of the generated table is one of the rows recorded for the unchanged tree
    (`Model/Cost.lean: todayDoubled`, each an open known finding or an explained leaf entry).
    A change to the Python that makes another child render twice breaks this theorem. -/
theorem tie_doubled_known :
    (doubled (Gen.multiplicityParsed.getD [])).all
      (fun e => todayDoubled.any (fun d => d.cls == e.1 && d.field == e.2)) = true := by decide

/-- No row exceeds 2 (in particular none is the "unbounded" marker 99 of a render inside a loop). -/
theorem tie_bounded :
    (Gen.multiplicityParsed.getD []).all (fun e => decide (e.2.2 ≤ 2)) = true := by decide

/-- The parsed table is pointwise below today's recorded table … -/
theorem tie_rows_le_today :
    (Gen.multiplicityParsed.getD []).all (fun e => decide (e.2.2 ≤ mToday e.1 e.2.1)) = true := by decide

set_option maxRecDepth 100000 in
/-- … and below the all-paths table (restricting paths can only remove renders). -/
theorem tie_parsed_le_full :
    (Gen.multiplicityParsed.getD []).all (fun e => decide (e.2.2 ≤ mFull e.1 e.2.1)) = true := by decide

theorem mParsed_le_two : ∀ k f, mParsed k f ≤ 2 :=
  mult_le_of_all _ 2 (by decide) tie_bounded

theorem mParsed_le_today : ∀ k f, mParsed k f ≤ mToday k f := by
  intro k f
  unfold mParsed mult
  split
  · rename_i e he
    have hmem := List.mem_of_find?_eq_some he
    have hrow := List.all_eq_true.mp tie_rows_le_today e hmem
    have hk := List.find?_some he
    simp only [Bool.and_eq_true, beq_iff_eq] at hk
    simp only [decide_eq_true_eq] at hrow
    rw [← hk.1, ← hk.2]
    exact hrow
  · -- a row absent from the table counts 1; today's table has no row below 1
    have : ∀ k f, 1 ≤ mToday k f := by
      intro k f
      unfold mToday mult
      split
      · rename_i e he
        have hmem := List.mem_of_find?_eq_some he
        have : todayTable.all (fun e => decide (1 ≤ e.2.2)) = true := by decide
        simpa using List.all_eq_true.mp this e hmem
      · exact Nat.le_refl 1
    exact this k f

/-! ### FULL statement (false of the current code) and what holds instead -/

/-- The property's cost clause at full strength: the number of `rebuild` calls is at most the number
    of nodes, for every tree. -/
def LinearCost (m : String → String → Nat) : Prop := ∀ e : Skel, calls m e ≤ size e

/-- Metatheorem (the closing step the design expects once the findings are repaired): a table without
    doubled rows gives linear cost. -/
theorem linear_of_allOnes (m : String → String → Nat) (h : ∀ k f, m k f ≤ 1) : LinearCost m := by
  intro e
  exact calls_le_size m e (allEdges_of_forall _ (fun k f => by simpa using h k f) e)

/-- PARTIAL (explicit decidable side condition): trees that use no doubled edge render in at most
    `size` calls — with the table extracted on this run. -/
theorem cost_partial (e : Skel)
    (h : allEdges (fun k f => decide (mParsed k f ≤ 1)) e = true) : calls mParsed e ≤ size e :=
  calls_le_size mParsed e h

/-- GENERAL bound with the table extracted on this run: every doubled edge on a root-to-leaf path
    costs at most a factor 2. Polynomial (linear) cost exactly as long as the doubled depth is bounded;
    comments and other leaves under a doubled field add a constant factor only. -/
theorem cost_general (e : Skel) : calls mParsed e ≤ size e * 2 ^ ddepth mParsed e :=
  calls_le_size_pow mParsed 2 (by decide) mParsed_le_two e

/-- today's recorded table bounds the extracted one on every tree -/
theorem cost_le_today (e : Skel) : calls mParsed e ≤ calls mToday e :=
  calls_mono mParsed mToday mParsed_le_today e

/-! ### Counterexamples: the open findings. Each is a depth family: linear size, at least 2ⁿ calls.
The check replays every family on the real code (run-time call counts) and compares. -/

/-- curried lambdas `a: a: … x` — `FunctionDefinition._render_output` renders `output` for an inline
    preview and again for the result -/
theorem cex_function_output (n : Nat) :
    size (nest [("FunctionDefinition", "output")] n (leaf "Identifier")) = n + 1 ∧
    2 ^ n ≤ calls mToday (nest [("FunctionDefinition", "output")] n (leaf "Identifier")) :=
  ⟨by rw [size_nest]; simp [leaf, size, sizeL], exp_of_double _ _ _ (by decide) n⟩

/-- nested `with a; with a; … [ multi-line ]` — `WithStatement.rebuild` renders the body inline and,
    when that has a newline, again -/
theorem cex_with_body (n : Nat) :
    size (nest [("WithStatement", "body")] n (leaf "NixList")) = n + 1 ∧
    2 ^ n ≤ calls mToday (nest [("WithStatement", "body")] n (leaf "NixList")) :=
  ⟨by rw [size_nest]; simp [leaf, size, sizeL], exp_of_double _ _ _ (by decide) n⟩

/-- right-nested operator chains with a line break after the operator (`a ++⏎ b ++⏎ c`, `->`) —
    `BinaryExpression.rebuild` renders `right`, then `_resolve_right_operand` renders it again -/
theorem cex_binary_right (n : Nat) :
    size (nest [("BinaryExpression", "right")] n (leaf "Identifier")) = n + 1 ∧
    2 ^ n ≤ calls mToday (nest [("BinaryExpression", "right")] n (leaf "Identifier")) :=
  ⟨by rw [size_nest]; simp [leaf, size, sizeL], exp_of_double _ _ _ (by decide) n⟩

/-- `{ inherit ({ inherit (…) a; }) a; }` — `Inherit.rebuild` previews the source, then
    `render_inherit_source` renders it again -/
theorem cex_inherit_source (n : Nat) :
    2 ^ n ≤ calls mToday
      (nest [("Inherit", "from_expression"), ("AttributeSet", "attrpath_order")] n (leaf "Identifier")) :=
  exp_of_double _ _ _ (by decide) n

/-- `assert⏎ (assert⏎ (…); a); a` — `Assertion.rebuild` renders the condition inline and again on its
    own line -/
theorem cex_assert_condition (n : Nat) :
    2 ^ n ≤ calls mToday
      (nest [("Assertion", "expression"), ("Parenthesis", "value")] n (leaf "Identifier")) :=
  exp_of_double _ _ _ (by decide) n

/-- `{ a = [ { a = [ … ]; } ]; }` on one line, wider than 100 columns — `Binding.rebuild` asks the list
    for `simple_inline_preview` (which renders the items), gets `None`, and renders the list again -/
theorem cex_binding_list_preview (n : Nat) :
    2 ^ n ≤ calls mToday
      (nest [("Binding", "value"), ("NixList", "value"), ("AttributeSet", "attrpath_order")] n
        (leaf "Identifier")) :=
  exp_of_double _ _ _ (by decide) n

/-- the full statement fails for today's table (witness: three curried lambdas, 4 nodes, 15 calls) -/
theorem cex_linear_cost : ¬ LinearCost mToday := by
  intro h
  have := h (nest [("FunctionDefinition", "output")] 3 (leaf "Identifier"))
  revert this
  decide

/-! ## (a) Failure modes: explicit raise sites -/

theorem tie_raises_extracted :
    Gen.raiseSites.isSome = true ∧ Gen.escapingSites.isSome = true ∧
    Gen.escapingClasses.isSome = true ∧ Gen.excAncestors.isSome = true ∧
    Gen.partialSites.isSome = true := by decide

/-- SPEC: the documented failure classes: `ValueError` and its subclasses (hierarchy as generated
    from the source), and `NixSyntaxError` (which the property lists, see below). -/
def isDocumented (c : String) : Bool :=
  c == "NixSyntaxError" ||
  (match (Gen.excAncestors.getD []).lookup c with
   | some anc => anc.contains "ValueError"
   | none => c == "ValueError")

/-- Sites that the by-name call graph cannot exclude, with the reason each cannot fire on
    `parse(text).rebuild()`. None of them was ever observed by the oracle (checked on every run). -/
def excusedSites : List (String × String) := [
  -- `assert pending_comma_node is not None`: flush_pending_comma is only called under that very test
  ("AssertionError", "expressions/function/definition.py:_parse_argument_set>flush_pending_comma"),
  -- `assert isinstance(x, Comment)` for x = tree_sitter_node_to_expression(<node of type "comment">)
  ("AssertionError", "expressions/let.py:LetExpression.from_cst"),
  -- abstract stubs of the base class, reached only because `x.from_cst` / `x.rebuild` is resolved by name
  ("NotImplementedError", "expressions/expression.py:NixExpression.from_cst"),
  ("NotImplementedError", "expressions/expression.py:NixExpression.rebuild"),
  -- trivia lists built by from_cst hold only layout markers and comments
  ("NotImplementedError", "expressions/trivia.py:format_trivia"),
  -- reached only through `x.value` resolved by name (Parenthesis.value / NixList.value are fields;
  -- the property of the same name is Identifier.value, which parse/rebuild never reads)
  ("ResolutionError", "expressions/identifier.py:Identifier.value"),
  ("ResolutionError", "expressions/identifier.py:Identifier.value#set"),
  ("ResolutionError", "expressions/identifier.py:_resolve_identifier"),
  ("ResolutionError", "expressions/identifier.py:_resolve_identifier>_resolve_binding"),
  ("ResolutionError", "expressions/identifier.py:_resolve_identifier>_resolve_inherited_binding")
]

/-- Every explicit raise site that can escape parse / from_cst / rebuild raises a documented class,
    or is one of the excused sites. A new `raise TypeError(...)` in a `from_cst` breaks this. -/
theorem escaping_documented_or_excused :
    (Gen.escapingSites.getD []).all (fun s => isDocumented s.1 || excusedSites.contains s) = true := by
  decide

/-- No explicit site raises one of the classes the property names as internal errors — except the
    excused `assert`s. -/
theorem no_explicit_internal_error :
    (Gen.escapingSites.getD []).all
      (fun s => !(["IndexError", "AttributeError", "TypeError", "KeyError"].contains s.1)) = true := by
  decide

/-- The property says "ValueError, including NixSyntaxError"; in the source NixSyntaxError derives from
    SyntaxError, not from ValueError. Its only raise site (an ERROR child inside an attribute set) is
    behind the `has_error` gate of `NixSourceCode.from_cst`; the oracle checks that it never escapes. -/
theorem nixSyntaxError_is_not_a_ValueError :
    ((Gen.excAncestors.getD []).lookup "NixSyntaxError").map (fun a => a.contains "ValueError") = some false ∧
    ((Gen.excAncestors.getD []).lookup "NixSyntaxError").map (fun a => a.contains "SyntaxError") = some true := by
  decide

/-! ### Partial operations without a guard

`Gen.partialSites`: every `xs[<constant>]` and one-argument `next(it)` in a function reachable from
parse / from_cst / rebuild that is not dominated by a test of the same sequence (see
`gen_raises.partial_sites`). These are where an IndexError / StopIteration could come from without any
`raise` statement. The unchanged tree has eight; each is total for the reason given. A new unguarded
`value[0]` breaks the theorem even when no generated input reaches it. Other implicit failures
(attribute access on `None`, wrong argument types) are not inventoried: oracle only. -/

def excusedPartial : List (String × String × String) := [
  -- a `?` inside `formal` follows the formal's identifier (grammar); a MISSING identifier makes
  -- has_error true, so the tree never reaches from_cst
  ("index", "expressions/function/definition.py:_parse_argument_set", "argument_set[-1]"),
  -- guarded through `children_types` (same length): `len(children_types) < 2` / `< 3` raise ValueError first
  ("index", "expressions/function/definition.py:_parse_named_argument_set", "signature_nodes[0]"),
  ("index", "expressions/function/definition.py:_parse_named_argument_set", "signature_nodes[2]"),
  -- under `if inline_to_prev:` and inline_to_prev = (… and names)
  ("index", "expressions/inherit.py:Inherit.from_cst", "names[-1]"),
  -- render_names is only called under `if self.names:`
  ("index", "expressions/inherit.py:Inherit.rebuild>render_names", "self.names[0]"),
  -- under `if local_variables:`; the bindings were parsed from binding_set.children
  ("index", "expressions/let.py:LetExpression.from_cst", "binding_set.children[-1]"),
  ("index", "expressions/let.py:LetExpression.from_cst", "binding_set.children[0]"),
  -- a tree-sitter `Point` is a 2-tuple (row, column): both indices exist; the stub points of the unit
  -- tests are not subscriptable and raise TypeError, which the helper catches (fix 2e75052)
  ("index", "expressions/points.py:point_column", "point[1]"),
  ("index", "expressions/points.py:point_row", "point[0]"),
  -- API property, reached only because `slot.expr` is resolved by name; parse/rebuild never read it
  ("index", "expressions/source_code.py:NixSourceCode.expr", "self.expressions[0]")
]

theorem partial_sites_excused :
    (Gen.partialSites.getD []).all (fun s => excusedPartial.contains s) = true := by decide

/-! ## Non-vacuity -/

-- the side condition of `cost_partial` is met by nested if / list / parenthesis / let trees …
example : allEdges (fun k f => decide (mParsed k f ≤ 1))
    (nest [("IfExpression", "alternative"), ("Parenthesis", "value"), ("NixList", "value")] 3
      (leaf "Identifier")) = true := by decide
-- … and is violated by the finding families
example : allEdges (fun k f => decide (mParsed k f ≤ 1))
    (nest [("FunctionDefinition", "output")] 1 (leaf "Identifier")) = false := by decide
-- the recurrence on a concrete tree: `a: b: x` needs 11 calls for 6 nodes (as measured on the code)
example : calls mParsed (.node "NixSourceCode" [("expressions",
    .node "FunctionDefinition" [("argument_set", leaf "Identifier"),
      ("output", .node "FunctionDefinition" [("argument_set", leaf "Identifier"),
        ("output", leaf "Identifier")])])]) = 11 := by decide

end Nima.C20
