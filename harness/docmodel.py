"""Bridge between real nix_manipulator object graphs and the Lean `Doc` model (S-expression codec,
snapshot of the real objects, canonical renumbering of identities)."""
from __future__ import annotations

from .framework import hx


class Ids:
    def __init__(self):
        self.obj: dict[int, int] = {}
        self.keep = []  # keep objects alive so id() is not reused
        self.tok: dict[int, int] = {}
        self.n = 1
        self.t = 2

    def oid(self, o) -> int:
        k = id(o)
        if k not in self.obj:
            self.obj[k] = self.n
            self.n += 1
            self.keep.append(o)
        return self.obj[k]

    def payload(self, items) -> list:
        from nix_manipulator.expressions.layout import empty_line, linebreak

        out = []
        for it in items or []:
            if it is linebreak:
                out.append(0)
            elif it is empty_line:
                out.append(1)
            else:
                k = id(it)
                if k not in self.tok:
                    self.tok[k] = self.t
                    self.t += 1
                    self.keep.append(it)
                out.append(self.tok[k])
        return out


def value_text(v) -> str:
    try:
        return type(v).__name__ + ":" + v.rebuild(indent=0, inline=True)
    except Exception as exc:  # noqa: BLE001
        return type(v).__name__ + ":<unprintable " + type(exc).__name__ + ">"


def node_of(v, ids: Ids):
    from nix_manipulator.expressions.binding import Binding
    from nix_manipulator.expressions.expression import NixExpression
    from nix_manipulator.expressions.identifier import Identifier
    from nix_manipulator.expressions.inherit import Inherit
    from nix_manipulator.expressions.set import AttributeSet, _AttrpathEntry

    if isinstance(v, AttributeSet):
        return ["set", ids.oid(v), [node_of(x, ids) for x in v.values],
                [node_of(x, ids) for x in v.attrpath_order], bool(v.multiline), bool(v.recursive)]
    if isinstance(v, Binding):
        return ["bind", ids.oid(v), hx(v.name), bool(v.nested), node_of(v.value, ids),
                ids.payload(v.before), ids.payload(v.after)]
    if isinstance(v, Inherit):
        names = []
        for n in v.names:
            names.append(hx(n.name if isinstance(n, Identifier) else str(getattr(n, "value", n))))
        return ["inherit", ids.oid(v), names]
    if isinstance(v, _AttrpathEntry):
        return ["entry", [hx(s) for s in v.segments], node_of(v.binding, ids),
                "-" if v.before is None else ids.payload(v.before),
                "-" if v.after is None else ids.payload(v.after)]
    if type(v) is Identifier and v.default_value is None:
        return ["ident", hx(v.name)]
    if isinstance(v, NixExpression):
        return ["atom", hx(value_text(v))]
    return ["atom", hx("py:" + repr(v))]


def layer_of(layer: dict, ids: Ids):
    al = layer.get("after_let_comment")
    return ["layer", [node_of(x, ids) for x in layer.get("scope") or []],
            [node_of(x, ids) for x in layer.get("attrpath_order") or []],
            ids.payload(layer.get("body_before")), ids.payload(layer.get("body_after")),
            "-" if al is None else ids.payload([al])[0]]


def snapshot(source, ids: Ids | None = None, rstripped: bool = False):
    """The real document as a `Doc` S-expression (ids by first visit)."""
    from nix_manipulator.cli import manipulations as M

    ids = ids or Ids()
    nt = "editable"
    target = None
    if not source.expressions:
        nt = "empty"
    elif len(source.expressions) != 1:
        nt = "multi"
    else:
        try:
            target = M._resolve_target_set(source)
        except ValueError:
            nt = "raw" if source.contains_error else "shape"
        except Exception as exc:  # noqa: BLE001  (e.g. ResolutionError escaping)
            nt = "resolution" if type(exc).__name__ == "ResolutionError" else "shape"
    if target is None:
        return ["doc", nt, ["set", 0, [], [], True, False], [], [], [], [], [], [], "-", [], ids.payload(source.trailing),
                "-", 1, rstripped]
    top = source.expressions[0]
    st = target.scope_state
    al = st.after_let_comment
    top_scope = "-" if top is target else [node_of(x, ids) for x in top.scope]
    doc = ["doc", nt, node_of(target, ids), ids.payload(target.before), ids.payload(target.after),
           [node_of(x, ids) for x in target.scope], ids.payload(st.body_before), ids.payload(st.body_after),
           [node_of(x, ids) for x in st.attrpath_order], "-" if al is None else ids.payload([al])[0],
           [layer_of(l, ids) for l in st.stack], ids.payload(source.trailing), top_scope, 0, rstripped]
    doc[13] = ids.n
    return doc


def canon(doc):
    """Renumber object identities and payload tokens by first occurrence; drop `next`."""
    omap: dict[int, int] = {}
    tmap: dict[int, int] = {}

    def o(i):
        i = int(i)
        if i not in omap:
            omap[i] = len(omap) + 1
        return omap[i]

    def pay(p):
        if p == "-":
            return "-"
        out = []
        for t in p:
            t = int(t)
            if t < 2:
                out.append(t)
            else:
                if t not in tmap:
                    tmap[t] = len(tmap) + 2
                out.append(tmap[t])
        return out

    def node(n):
        k = n[0]
        if k in ("atom", "ident"):
            return [k, n[1]]
        if k == "set":
            return ["set", o(n[1]), [node(x) for x in n[2]], [node(x) for x in n[3]], tf(n[4]), tf(n[5])]
        if k == "bind":
            return ["bind", o(n[1]), n[2], tf(n[3]), node(n[4]), pay(n[5]), pay(n[6])]
        if k == "inherit":
            return ["inherit", o(n[1]), list(n[2])]
        if k == "entry":
            return ["entry", list(n[1]), node(n[2]), pay(n[3]), pay(n[4])]
        raise ValueError(n)

    def tf(b):
        return b if isinstance(b, bool) else (b == "t")

    def one(t):
        if t == "-":
            return "-"
        return pay([t])[0]

    def layer(l):
        return ["layer", [node(x) for x in l[1]], [node(x) for x in l[2]], pay(l[3]), pay(l[4]), one(l[5])]

    d = doc
    return ["doc", d[1], node(d[2]), pay(d[3]), pay(d[4]), [node(x) for x in d[5]], pay(d[6]), pay(d[7]),
            [node(x) for x in d[8]], one(d[9]), [layer(l) for l in d[10]], pay(d[11]),
            "-" if d[12] == "-" else [node(x) for x in d[12]], tf(d[14]) if len(d) > 14 else False]


_VALUE_IDS = [900000]


def value_arg(value_text_: str):
    """Classify the VALUE argument the way set_value does; model-side encoding."""
    from nix_manipulator import parse
    from nix_manipulator.expressions.raw import RawExpression

    pv = parse(value_text_)
    if not pv.expressions:
        return "empty"
    if len(pv.expressions) != 1 or isinstance(pv.expressions[0], RawExpression):
        return "invalid"
    ids = Ids()
    ids.n = _VALUE_IDS[0]  # identities of a fresh value never collide with the document's or each other
    node = node_of(pv.expressions[0], ids)
    _VALUE_IDS[0] = ids.n + 1
    return ["one", node]


def exc_class(exc: BaseException) -> str:
    from nix_manipulator.exceptions import ResolutionError

    if isinstance(exc, KeyError):
        return "key"
    if isinstance(exc, ResolutionError):
        return "resolution"
    if isinstance(exc, ValueError):
        return "value"
    if isinstance(exc, TypeError):
        return "type"
    return "internal:" + type(exc).__name__
