import NimaVerif.Props.C03
open Nima.C03
#print axioms formatTrivia_nil
