import NimaVerif.Lemmas.Trivia
/-! # C02 — placeholder (trivia-algebra theorems are being proved). -/
namespace Nima.C02
theorem separator_inline (i : Nat) : separatorFromLayout (Layout.fromGap [' ']) i = [' '] := by simp [separatorFromLayout, Layout.fromGap, containsNL]
end Nima.C02
