"""G-scope: scope programs for C10 (and C11).

A program is a tree of tuples mirroring `Nima.Scope.Expr` (lean/NimaVerif/Model/Scope.lean):

  ("lit", id) ("ref", id, name) ("set", id, rec, items) ("let", items, body) ("with", id, env, body)
  ("paren", id, e) ("app", id, fn, arg) ("lam1", id, name, body) ("lamP", id, formals, body)
  items:   ("bind", id, name, val) ("inh", id, names) ("inhf", id, names, src)
  formals: ("req", name) ("opt", name, dflt)

Node ids are assigned in creation order by a `Builder`; a literal with id n is rendered as the
integer 1000+n, so every literal of a program is textually unique.
`render` writes Nix text, `sexp` the driver form, `index_objects` walks the parsed Python tree in
parallel with the program and maps `id(python object)` to node ids (so that a resolved value can
be named without looking at text or positions).
"""
from __future__ import annotations

from ..framework import hx


class Builder:
    def __init__(self):
        self.n = 0

    def nid(self):
        self.n += 1
        return self.n

    def lit(self):
        return ("lit", self.nid())

    def ref(self, name):
        return ("ref", self.nid(), name)

    def set(self, items, rec=False):
        return ("set", self.nid(), bool(rec), list(items))

    def let(self, items, body):
        assert items
        return ("let", list(items), body)

    def with_(self, env, body):
        return ("with", self.nid(), env, body)

    def paren(self, e):
        return ("paren", self.nid(), e)

    def app(self, fn, arg):
        return ("app", self.nid(), fn, arg)

    def lam1(self, name, body):
        return ("lam1", self.nid(), name, body)

    def lamP(self, formals, body):
        return ("lamP", self.nid(), list(formals), body)

    def bind(self, name, val):
        return ("bind", self.nid(), name, val)

    def inh(self, names):
        return ("inh", self.nid(), list(names))

    def inhf(self, names, src):
        return ("inhf", self.nid(), list(names), src)


# ------------------------------------------------------------------ rendering
def render_item(it) -> str:
    if it[0] == "bind":
        return f"{it[2]} = {render(it[3])};"
    if it[0] == "inh":
        return "inherit " + " ".join(it[2]) + ";"
    return "inherit (" + render(it[3]) + ") " + " ".join(it[2]) + ";"


def render(e) -> str:
    k = e[0]
    if k == "lit":
        return str(1000 + e[1])
    if k == "ref":
        return e[2]
    if k == "set":
        body = " ".join(render_item(i) for i in e[3])
        return ("rec " if e[2] else "") + "{ " + body + (" " if body else "") + "}"
    if k == "let":
        return "let " + " ".join(render_item(i) for i in e[1]) + " in " + render(e[2])
    if k == "with":
        return "with " + render(e[2]) + "; " + render(e[3])
    if k == "paren":
        return "(" + render(e[2]) + ")"
    if k == "app":
        return render(e[2]) + " " + render(e[3])
    if k == "lam1":
        return e[2] + ": " + render(e[3])
    if k == "lamP":
        fs = ", ".join(f[1] if f[0] == "req" else f"{f[1]} ? {render(f[2])}" for f in e[2])
        return "{ " + fs + (" " if fs else "") + "}: " + render(e[3])
    raise ValueError(k)


def sexp_item(it):
    if it[0] == "bind":
        return ["bind", it[1], hx(it[2]), sexp(it[3])]
    if it[0] == "inh":
        return ["inh", it[1], [hx(n) for n in it[2]]]
    return ["inhf", it[1], [hx(n) for n in it[2]], sexp(it[3])]


def sexp(e):
    k = e[0]
    if k == "lit":
        return ["lit", e[1]]
    if k == "ref":
        return ["ref", e[1], hx(e[2])]
    if k == "set":
        return ["set", e[1], "t" if e[2] else "f", [sexp_item(i) for i in e[3]]]
    if k == "let":
        return ["let", [sexp_item(i) for i in e[1]], sexp(e[2])]
    if k == "with":
        return ["with", e[1], sexp(e[2]), sexp(e[3])]
    if k == "paren":
        return ["paren", e[1], sexp(e[2])]
    if k == "app":
        return ["app", e[1], sexp(e[2]), sexp(e[3])]
    if k == "lam1":
        return ["lam1", e[1], hx(e[2]), sexp(e[3])]
    if k == "lamP":
        fs = [["req", hx(f[1])] if f[0] == "req" else ["opt", hx(f[1]), sexp(f[2])] for f in e[2]]
        return ["lamP", e[1], fs, sexp(e[3])]
    raise ValueError(k)


def sexp_path(path):
    return ["d" if s is None else ["k", hx(s)] for s in path]


# ------------------------------------------------------------------ parallel walk
class WalkMismatch(Exception):
    pass


def peel(e):
    layers = []
    while e[0] == "let":
        layers.append(e[1])
        e = e[2]
    return layers, e


_CLS = {"lit": ("Primitive", "IntegerPrimitive"), "ref": ("Identifier",), "set": ("AttributeSet",),
        "with": ("WithStatement",), "paren": ("Parenthesis",), "app": ("FunctionCall",),
        "lam1": ("FunctionDefinition",), "lamP": ("FunctionDefinition",)}


def index_objects(e, obj, out: dict, labels: dict | None = None):
    """Map id(obj) -> node id for every expression node of `e` found in the parsed tree `obj`.
    `labels` (optional) receives node id -> the Python object (keeps it alive / for debugging)."""
    layers, core = peel(e)
    if type(obj).__name__ not in _CLS[core[0]]:
        raise WalkMismatch(f"{core[0]} vs {type(obj).__name__}")
    out[id(obj)] = core[1]
    if labels is not None:
        labels[core[1]] = obj
    if layers:
        py_layers = []
        if obj.scope:
            py_layers.append(list(obj.scope))
        st = obj.scope_state
        for layer in (st.stack if st is not None else []):
            if layer.get("scope"):
                py_layers.append(list(layer["scope"]))
        if len(py_layers) != len(layers):
            raise WalkMismatch(f"layers {len(layers)} vs {len(py_layers)}")
        for items, py_items in zip(layers, py_layers):
            _index_items(items, py_items, out, labels)
    elif obj.scope:
        raise WalkMismatch("unexpected scope")
    k = core[0]
    if k == "set":
        _index_items(core[3], list(obj.values), out, labels)
    elif k == "with":
        index_objects(core[2], obj.environment, out, labels)
        index_objects(core[3], obj.body, out, labels)
    elif k == "paren":
        index_objects(core[2], obj.value, out, labels)
    elif k == "app":
        index_objects(core[2], obj.name, out, labels)
        index_objects(core[3], obj.argument, out, labels)
    elif k == "lam1":
        if type(obj.argument_set).__name__ != "Identifier" or obj.argument_set.name != core[2]:
            raise WalkMismatch("lam1 parameter")
        index_objects(core[3], obj.output, out, labels)
    elif k == "lamP":
        formals = [f for f in obj.argument_set if type(f).__name__ == "Identifier"]
        if len(formals) != len(core[2]):
            raise WalkMismatch("formals")
        for f, pf in zip(core[2], formals):
            if pf.name != f[1]:
                raise WalkMismatch("formal name")
            if f[0] == "opt":
                index_objects(f[2], pf.default_value, out, labels)
        index_objects(core[3], obj.output, out, labels)


def _index_items(items, py_items, out, labels):
    if len(items) != len(py_items):
        raise WalkMismatch(f"items {len(items)} vs {len(py_items)}")
    for it, p in zip(items, py_items):
        if it[0] == "bind":
            if type(p).__name__ != "Binding" or p.name != it[2]:
                raise WalkMismatch(f"binding {it[2]} vs {p!r}")
            index_objects(it[3], p.value, out, labels)
        else:
            if type(p).__name__ != "Inherit":
                raise WalkMismatch("inherit")
            if it[0] == "inhf":
                index_objects(it[3], p.from_expression, out, labels)


# ------------------------------------------------------------------ paths that exist in a program
def reachable_paths(e, max_paths=64):
    """Key/deref paths that end on an identifier, found syntactically (deref steps are followed
    only as far as a syntactic walk can: they are added as final steps; mid-path derefs are
    produced by `paths_with_deref`)."""
    out = []

    def target(e):
        _, c = peel(e)
        k = c[0]
        if k == "set":
            return c
        if k in ("with",):
            return target(c[3])
        if k == "paren":
            return target(c[2])
        if k in ("lam1", "lamP"):
            _, b = peel(c[3])
            if b[0] == "app":
                a = b[3]
                while peel(a)[1][0] == "paren":
                    a = peel(a)[1][2]
                if peel(a)[1][0] == "set":
                    return peel(a)[1]
            return target(c[3])
        if k == "app":
            a = c[3]
            while peel(a)[1][0] == "paren":
                a = peel(a)[1][2]
            if peel(a)[1][0] == "set":
                return peel(a)[1]
        return None

    def visit(e, path):
        if len(out) >= max_paths:
            return
        _, c = peel(e)
        if c[0] == "ref":
            out.append(tuple(path))
        elif c[0] == "set":
            for it in c[3]:
                if it[0] == "bind":
                    visit(it[3], path + [it[2]])
                else:
                    for n in it[2]:
                        out.append(tuple(path + [n]))
        elif c[0] == "with":
            visit(c[3], path)

    t = target(e)
    if t is not None:
        for it in t[3]:
            if it[0] == "bind":
                visit(it[3], [it[2]])
            else:
                for n in it[2]:
                    out.append((n,))
    return out[:max_paths]
