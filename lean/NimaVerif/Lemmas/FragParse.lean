import NimaVerif.Lemmas.FragLex
/-! The parse side of the container fragment: `fromCst` is total on well-formed input, builds
expressions satisfying `Expr.ok`, and keeps the tokens and comments of the input (in the order the
renderer writes them). Core Lean only. -/
namespace Nima.Frag
open Nima

/-! ### comments read from comment tokens -/

theorem containsNL_drop {s : Text} (h : containsNL s = false) (n : Nat) : containsNL (s.drop n) = false :=
  containsNL_of_sublist (List.drop_sublist n s) h
theorem containsNL_take {s : Text} (h : containsNL s = false) (n : Nat) : containsNL (s.take n) = false :=
  containsNL_of_sublist (List.take_sublist n s) h

theorem blockInner_noNL {t : Text} (h : containsNL t = false) : containsNL (blockInner t) = false := by
  unfold blockInner
  simp only
  split <;> split <;> first | exact containsNL_take (containsNL_drop h _) _ | exact containsNL_drop h _

theorem fromText_cOk (col : Nat) {t : Text} (h : isCommentTok t = true) : cOk (Comment.fromText col t) := by
  unfold isCommentTok at h
  simp only [Bool.or_eq_true, Bool.and_eq_true, Bool.not_eq_true', decide_eq_true_eq] at h
  rcases h with ⟨hs, hnl⟩ | ⟨⟨⟨hs, _⟩, _⟩, hnl⟩
  · -- line comment
    cases t with
    | nil => simp [startsWith] at hs
    | cons c r =>
      have hc : c = '#' := by
        simp [startsWith, List.isPrefixOf] at hs; exact hs.symm
      subst hc
      have hr : containsNL r = false := by
        rw [containsNL_cons] at hnl; simpa using hnl
      rcases hash_cases r with ⟨r', rfl⟩ | ⟨r', rfl⟩ | ⟨h1, h2⟩
      · rw [fromText_shebang]; show containsNL r' = false
        rw [containsNL_cons] at hr; simpa using hr
      · rw [fromText_hash_space]; show containsNL r' = false
        rw [containsNL_cons] at hr; simpa using hr
      · rw [fromText_hash_other _ _ h1 h2]; exact hr
  · rw [fromText_block col t hs]
    have hi := blockInner_noNL hnl
    simp only [hi, Bool.false_eq_true, if_false]
    show containsNL (strip (blockInner t)) = false
    exact containsNL_of_sublist (stripBy_sublist _ _) hi

theorem mkComment_cOk {t : Text} (h : isCommentTok t = true) (inl : Bool) : cOk (mkComment t inl) :=
  fromText_cOk 0 h

/-- the comment token as it will be rendered -/
def normCmt (t : Text) : Lex := .cmt ((mkComment t false).token 0)

theorem mkComment_token (t : Text) (inl : Bool) (i : Nat) : (mkComment t inl).token i = (mkComment t false).token i := by
  unfold mkComment
  rw [token_inline_irrelevant, token_inline_irrelevant (Comment.fromText 0 t) false]

def ncm (cs : GC) : List Lex := cs.map fun p => normCmt p.2

mutual
/-- the tokens and comments of the input in the order the renderer writes them: comments of a
    binding in front of `=` are written after it, those in front of `;` after it -/
def Cst.lexM : Cst → List Lex
  | .leaf _ t => [.tok t]
  | .list its _ => .tok ['['] :: its.lexM ++ [.tok [']']]
  | .set r _ its _ => recLex r ++ .tok ['{'] :: its.lexM ++ [.tok ['}']]
  | .paren its _ => .tok ['('] :: its.lexM ++ [.tok [')']]
  | .app f cs _ a => f.lexM ++ ncm cs ++ a.lexM
  | .kw w c1 _ h c2 _ c3 _ b => .tok (kwText w) :: ncm c1 ++ h.lexM ++ ncm c2 ++ .tok [';'] :: ncm c3 ++ b.lexM
  | .sel e c1 _ _ attrs => e.lexM ++ ncm c1 ++ attrLex attrs
  | .selOr e c1 _ _ attrs c2 _ _ d => e.lexM ++ ncm c1 ++ attrLex attrs ++ ncm c2 ++ .tok ['o', 'r'] :: d.lexM
  | .lam n c1 _ c2 _ b => .tok n :: ncm c1 ++ .tok [':'] :: ncm c2 ++ b.lexM
  | .un op c _ e => .tok op :: ncm c ++ e.lexM
  | .bin l c1 _ op c2 _ r => l.lexM ++ ncm c1 ++ .tok op :: ncm c2 ++ r.lexM
  | .ite c1 _ c c2 _ c3 _ t c4 _ c5 _ e =>
    .tok kwIf :: ncm c1 ++ c.lexM ++ ncm c2 ++ .tok kwThen :: ncm c3 ++ t.lexM ++ ncm c4 ++ .tok kwElse :: ncm c5 ++ e.lexM
  | .has e c1 _ c2 _ attrs => e.lexM ++ ncm c1 ++ .tok ['?'] :: ncm c2 ++ attrLex0 attrs
def Items.lexM : Items → List Lex
  | .nil => []
  | .cmt _ t rest => normCmt t :: rest.lexM
  | .elem _ c rest => c.lexM ++ rest.lexM
  | .bind _ n c1 _ c2 _ v c3 _ rest =>
    .tok n :: .tok ['='] :: ncm c1 ++ ncm c2 ++ v.lexM ++ .tok [';'] :: ncm c3 ++ rest.lexM
end

/-! ### gap trivia -/

theorem appendGapTriviaOff_cm (ts : List Trivia) (g : Text) (b : Bool) : cm (appendGapTriviaOff ts g b) = cm ts := by
  unfold appendGapTriviaOff; split
  · rfl
  · split
    · simp
    · split <;> simp

theorem appendGapTriviaOff_ok {ts : List Trivia} (h : TrivOk ts) (g : Text) (b : Bool) :
    TrivOk (appendGapTriviaOff ts g b) := by
  have he : TrivOk [Trivia.emptyLine] := ⟨by simp [CommaFree], by intro c hc; simp at hc⟩
  have hl : TrivOk [Trivia.linebreak] := ⟨by simp [CommaFree], by intro c hc; simp at hc⟩
  unfold appendGapTriviaOff; split
  · exact h
  · split
    · exact trivOk_append h he
    · split
      · exact trivOk_append h hl
      · exact h

theorem trivOk_comment {c : Comment} (h : cOk c) : TrivOk [Trivia.comment c] :=
  ⟨by simp [CommaFree], by intro c' hc; simp at hc; subst hc; exact h⟩

theorem gcTrivia_spec : ∀ (cs : GC) (acc : List Trivia) (next : Text), gcOk cs next = true → TrivOk acc →
    TrivOk (gcTrivia acc cs) ∧ cm (gcTrivia acc cs) = cm acc ++ ncm cs
  | [], acc, _, _, ha => ⟨ha, by simp [gcTrivia, ncm]⟩
  | [p], acc, next, h, ha => by
    simp only [gcOk, Bool.and_eq_true] at h
    have hc := mkComment_cOk h.1.2 false
    have hacc := trivOk_append (appendGapTriviaOff_ok ha p.1 true) (trivOk_comment hc)
    exact ⟨by simpa [gcTrivia] using hacc, by simp [gcTrivia, ncm, normCmt, appendGapTriviaOff_cm]⟩
  | p :: q :: rest, acc, next, h, ha => by
    simp only [gcOk, Bool.and_eq_true] at h
    have hc := mkComment_cOk h.1.1.2 false
    have hacc := trivOk_append (appendGapTriviaOff_ok ha p.1 true) (trivOk_comment hc)
    have ih := gcTrivia_spec (q :: rest) _ next h.2 hacc
    rw [gcTrivia]
    refine ⟨ih.1, ?_⟩
    rw [ih.2]; simp [ncm, normCmt, appendGapTriviaOff_cm]

/-! ### leaves -/

theorem endsWithNL_false_of_all {t : Text} (p : Char → Bool) (h : t.all p = true) (hp : p '\n' = false) :
    endsWithNL t = false := by
  cases hl : t.getLast? with
  | none => simp [endsWithNL, hl]
  | some c =>
    have hm : c ∈ t := List.mem_of_getLast? hl
    have : p c = true := (List.all_eq_true.mp h) c hm
    have hne : c ≠ '\n' := by intro e; rw [e, hp] at this; cases this
    simp [endsWithNL, hl, hne]

theorem normInt_canonical {t : Text} (hne : t ≠ []) (h : t.length = 1 ∨ t.head? ≠ some '0') : normInt t = t := by
  unfold normInt
  cases t with
  | nil => exact absurd rfl hne
  | cons c r =>
    by_cases hc : c = '0'
    · subst hc
      rcases h with h | h
      · have : r = [] := by simpa using h
        subst this; rfl
      · simp at h
    · have : (c == '0') = false := by simpa using hc
      simp [List.dropWhile_cons, this]

theorem strRender_quoted {t : Text} (h2 : 2 ≤ t.length) (hh : t.head? = some '"') (hl : t.getLast? = some '"') :
    strRender t = t := by
  unfold strRender
  simp only [hh, hl, beq_self_eq_true, Bool.and_self, if_true]
  cases t with
  | nil => simp at h2
  | cons c r =>
    have hc : c = '"' := by simpa using hh
    subst hc
    have hr : r ≠ [] := by intro e; subst e; simp at h2
    have hlr : r.getLast? = some '"' := by
      rw [List.getLast?_cons_of_ne_nil hr] at hl; exact hl
    simp only [List.drop_one, List.tail_cons]
    have h1 := List.dropLast_concat_getLast hr
    have h2 : r.getLast hr = '"' := by
      have := List.getLast?_eq_some_getLast hr
      rw [hlr] at this; injection this with this; exact this.symm
    rw [h2] at h1; rw [List.cons_append, h1]

theorem leaf_spec {k : LeafKind} {t : Text} (h : leafOk k t = true) :
    leafFromCst k t = .ok (.leaf k t [] []) ∧ solidT t := by
  cases k with
  | ident =>
    simp only [leafOk, Bool.and_eq_true, Bool.not_eq_true', List.isEmpty_eq_false_iff] at h
    exact ⟨rfl, h.1, endsWithNL_false_of_all _ h.2 (by decide)⟩
  | int =>
    simp only [leafOk, Bool.and_eq_true, Bool.not_eq_true', List.isEmpty_eq_false_iff, Bool.or_eq_true,
      decide_eq_true_eq, bne_iff_ne, ne_eq] at h
    obtain ⟨⟨⟨hne, hd⟩, hz⟩, hlen⟩ := h
    refine ⟨?_, hne, endsWithNL_false_of_all _ hd (by decide)⟩
    simp only [leafFromCst]
    rw [if_neg (by omega), normInt_canonical hne hz]
  | float =>
    simp only [leafOk, Bool.and_eq_true, Bool.not_eq_true', List.isEmpty_eq_false_iff] at h
    exact ⟨rfl, h.1, endsWithNL_false_of_all _ h.2 (by decide)⟩
  | str =>
    simp only [leafOk, Bool.and_eq_true, decide_eq_true_eq, beq_iff_eq] at h
    obtain ⟨⟨h2, hh⟩, hl⟩ := h
    refine ⟨?_, ?_, ?_⟩
    · simp only [leafFromCst]; rw [strRender_quoted h2 hh hl]
    · intro e; subst e; simp at h2
    · simp [endsWithNL, hl]
  | path =>
    simp only [leafOk, Bool.and_eq_true] at h
    have hne : t ≠ [] := by
      intro e; subst e; simp at h
    exact ⟨rfl, hne, endsWithNL_false_of_all _ h.2 (by decide)⟩

theorem nameOk_spec {n : Text} (h : nameOk n = true) : splitAttrpathF n = .ok [n] ∧ solidT n := by
  simp only [nameOk, Bool.and_eq_true, decide_eq_true_eq, Bool.not_eq_true', List.isEmpty_eq_false_iff] at h
  obtain ⟨⟨⟨hs, hne⟩, hnl⟩, _⟩ := h
  refine ⟨hs, hne, ?_⟩
  have := getLast?_ne_nl_of_no_nl n hnl
  simp [endsWithNL, this]

/-! ### expression helpers -/

theorem lexOutAll_append : ∀ (a b : List Expr), lexOutAll (a ++ b) = lexOutAll a ++ lexOutAll b
  | [], b => rfl
  | e :: a, b => by simp [lexOutAll, lexOutAll_append a b]

theorem allOk_append : ∀ {a b : List Expr}, allOk a → allOk b → allOk (a ++ b)
  | [], _, _, hb => hb
  | _ :: _, _, ha, hb => ⟨ha.1, allOk_append ha.2 hb⟩

theorem allOk_single {e : Expr} (h : e.ok) : allOk [e] := ⟨h, trivial⟩
theorem lexOutAll_single (e : Expr) : lexOutAll [e] = e.lexOut false := by simp [lexOutAll]

theorem ok_setBefore {e : Expr} (h : e.ok) {b : List Trivia} (hb : TrivOk b) : (e.setBefore b).ok := by
  cases e with
  | leaf k t b' a => exact ⟨h.1, hb, h.2.2⟩
  | list v m inn b' a => exact ⟨h.1, h.2.1, hb, h.2.2.2⟩
  | set v m r inn b' a => exact ⟨h.1, h.2.1, hb, h.2.2.2⟩
  | binding n v g b' a => exact ⟨h.1, h.2.1, hb, h.2.2.2⟩
  | paren v lg tg lb tb b' a => exact ⟨h.1, hb, h.2.2⟩
  | app n x g fa b' a => exact ⟨h.1, h.2.1, h.2.2.1, hb, h.2.2.2.2⟩
  | wth e bd c g s b' a => exact ⟨h.1, h.2.1, h.2.2.1, h.2.2.2.1, hb, h.2.2.2.2.2⟩
  | asrt c bd x y b' a => exact ⟨h.1, h.2.1, h.2.2.1, h.2.2.2.1, hb, h.2.2.2.2.2⟩
  | sel e ats g ab b' a => exact ⟨h.1, h.2.1, h.2.2.1, h.2.2.2.1, hb, h.2.2.2.2.2⟩
  | selOr e ats g ab d dg db b' a => exact ⟨h.1, h.2.1, h.2.2.1, h.2.2.2.1, h.2.2.2.2.1, h.2.2.2.2.2.1, hb, h.2.2.2.2.2.2.2⟩
  | lam n c g k bd b' a => exact ⟨h.1, h.2.1, h.2.2.1, hb, h.2.2.2.2⟩
  | un o e g bt b' a => exact ⟨h.1, h.2.1, h.2.2.1, hb, h.2.2.2.2⟩
  | bin o l r x y b' a => exact ⟨h.1, h.2.1, h.2.2.1, hb, h.2.2.2.2⟩
  | ite c t e cg aic aig btc btg atc tg bec beg aec eg b' a =>
    exact ⟨h.1, h.2.1, h.2.2.1, h.2.2.2.1, h.2.2.2.2.1, h.2.2.2.2.2.1, h.2.2.2.2.2.2.1, h.2.2.2.2.2.2.2.1, hb, h.2.2.2.2.2.2.2.2.2⟩
  | has e ats lg rg bq aq b' a => exact ⟨h.1, h.2.1, h.2.2.1, h.2.2.2.1, h.2.2.2.2.1, hb, h.2.2.2.2.2.2⟩

theorem ok_setAfter {e : Expr} (h : e.ok) {a : List Trivia} (ha : TrivOk a) : (e.setAfter a).ok := by
  cases e with
  | leaf k t b a' => exact ⟨h.1, h.2.1, ha⟩
  | list v m inn b a' => exact ⟨h.1, h.2.1, h.2.2.1, ha⟩
  | set v m r inn b a' => exact ⟨h.1, h.2.1, h.2.2.1, ha⟩
  | binding n v g b a' => exact ⟨h.1, h.2.1, h.2.2.1, ha⟩
  | paren v lg tg lb tb b a' => exact ⟨h.1, h.2.1, ha⟩
  | app n x g fa b a' => exact ⟨h.1, h.2.1, h.2.2.1, h.2.2.2.1, ha⟩
  | wth e bd c g s b a' => exact ⟨h.1, h.2.1, h.2.2.1, h.2.2.2.1, h.2.2.2.2.1, ha⟩
  | asrt c bd x y b a' => exact ⟨h.1, h.2.1, h.2.2.1, h.2.2.2.1, h.2.2.2.2.1, ha⟩
  | sel e ats g ab b a' => exact ⟨h.1, h.2.1, h.2.2.1, h.2.2.2.1, h.2.2.2.2.1, ha⟩
  | selOr e ats g ab d dg db b a' => exact ⟨h.1, h.2.1, h.2.2.1, h.2.2.2.1, h.2.2.2.2.1, h.2.2.2.2.2.1, h.2.2.2.2.2.2.1, ha⟩
  | lam n c g k bd b a' => exact ⟨h.1, h.2.1, h.2.2.1, h.2.2.2.1, ha⟩
  | un o e g bt b a' => exact ⟨h.1, h.2.1, h.2.2.1, h.2.2.2.1, ha⟩
  | bin o l r x y b a' => exact ⟨h.1, h.2.1, h.2.2.1, h.2.2.2.1, ha⟩
  | ite c t e cg aic aig btc btg atc tg bec beg aec eg b a' =>
    exact ⟨h.1, h.2.1, h.2.2.1, h.2.2.2.1, h.2.2.2.2.1, h.2.2.2.2.2.1, h.2.2.2.2.2.2.1, h.2.2.2.2.2.2.2.1, h.2.2.2.2.2.2.2.2.1, ha⟩
  | has e ats lg rg bq aq b a' => exact ⟨h.1, h.2.1, h.2.2.1, h.2.2.2.1, h.2.2.2.2.1, h.2.2.2.2.2.1, ha⟩

theorem ok_addAfter {e : Expr} (h : e.ok) {a : List Trivia} (ha : TrivOk a) : (e.addAfter a).ok :=
  ok_setAfter h (trivOk_append (ok_after h) ha)

@[simp] theorem before_setBefore (e : Expr) (b : List Trivia) : (e.setBefore b).before = b := by cases e <;> rfl
@[simp] theorem after_setBefore (e : Expr) (b : List Trivia) : (e.setBefore b).after = e.after := by cases e <;> rfl
@[simp] theorem after_setAfter (e : Expr) (a : List Trivia) : (e.setAfter a).after = a := by cases e <;> rfl
@[simp] theorem before_setAfter (e : Expr) (a : List Trivia) : (e.setAfter a).before = e.before := by cases e <;> rfl
@[simp] theorem after_addAfter (e : Expr) (a : List Trivia) : (e.addAfter a).after = e.after ++ a := by
  simp [Expr.addAfter]
@[simp] theorem before_addAfter (e : Expr) (a : List Trivia) : (e.addAfter a).before = e.before := by
  simp [Expr.addAfter]

/-- the part of `lexOut` between the leading and the trailing comments -/
theorem lexOut_setBefore (e : Expr) (hb : e.before = []) (b : List Trivia) (na : Bool) :
    (e.setBefore b).lexOut na = cm b ++ e.lexOut na := by
  cases e with
  | leaf k t b' a => simp only [Expr.before] at hb; subst hb; simp [Expr.setBefore, Expr.lexOut]
  | list v m inn b' a => simp only [Expr.before] at hb; subst hb; simp [Expr.setBefore, Expr.lexOut]
  | set v m r inn b' a => simp only [Expr.before] at hb; subst hb; simp [Expr.setBefore, Expr.lexOut]
  | binding n v g b' a => simp only [Expr.before] at hb; subst hb; simp [Expr.setBefore, Expr.lexOut]
  | paren v lg tg lb tb b' a => simp only [Expr.before] at hb; subst hb; simp [Expr.setBefore, Expr.lexOut]
  | app n x g fa b' a => simp only [Expr.before] at hb; subst hb; simp [Expr.setBefore, Expr.lexOut]
  | wth e bd c g s b' a => simp only [Expr.before] at hb; subst hb; simp [Expr.setBefore, Expr.lexOut]
  | asrt c bd x y b' a => simp only [Expr.before] at hb; subst hb; simp [Expr.setBefore, Expr.lexOut]
  | sel e ats g ab b' a => simp only [Expr.before] at hb; subst hb; simp [Expr.setBefore, Expr.lexOut]
  | selOr e ats g ab d dg db b' a => simp only [Expr.before] at hb; subst hb; simp [Expr.setBefore, Expr.lexOut]
  | lam n c g k bd b' a => simp only [Expr.before] at hb; subst hb; simp [Expr.setBefore, Expr.lexOut]
  | un o e g bt b' a => simp only [Expr.before] at hb; subst hb; simp [Expr.setBefore, Expr.lexOut]
  | bin o l r x y b' a => simp only [Expr.before] at hb; subst hb; simp [Expr.setBefore, Expr.lexOut]
  | ite c t e cg aic aig btc btg atc tg bec beg aec eg b' a => simp only [Expr.before] at hb; subst hb; simp [Expr.setBefore, Expr.lexOut]
  | has e ats lg rg bq aq b' a => simp only [Expr.before] at hb; subst hb; simp [Expr.setBefore, Expr.lexOut]

theorem modifyLast_isEmpty' {α : Type} (f : α → α) : ∀ (l : List α), (modifyLast f l).isEmpty = l.isEmpty
  | [] => rfl
  | [_] => rfl
  | _ :: _ :: _ => rfl

def Expr.isAsrtE : Expr → Bool
  | .asrt .. => true
  | _ => false

def lastAsrt : List Expr → Bool
  | [] => false
  | [e] => e.isAsrtE
  | _ :: y :: r => lastAsrt (y :: r)

theorem isAsrtE_setBefore (e : Expr) (b : List Trivia) : (e.setBefore b).isAsrtE = e.isAsrtE := by cases e <;> rfl
theorem isAsrtE_addAfter (e : Expr) (a : List Trivia) : (e.addAfter a).isAsrtE = e.isAsrtE := by cases e <;> rfl

theorem lastAsrt_append_single : ∀ (l : List Expr) (x : Expr), lastAsrt (l ++ [x]) = x.isAsrtE
  | [], _ => rfl
  | [_], _ => rfl
  | _ :: y :: r, x => by
    have := lastAsrt_append_single (y :: r) x
    simpa [lastAsrt] using this

theorem lastAsrt_modifyLast (f : Expr → Expr) (hf : ∀ e, (f e).isAsrtE = e.isAsrtE) :
    ∀ (l : List Expr), lastAsrt (modifyLast f l) = lastAsrt l
  | [] => rfl
  | [e] => hf e
  | e :: e' :: r => by
    have ih := lastAsrt_modifyLast f hf (e' :: r)
    cases hm : modifyLast f (e' :: r) with
    | nil =>
      have := modifyLast_isEmpty' f (e' :: r)
      rw [hm] at this; cases this
    | cons y ys =>
      rw [hm] at ih
      simp only [modifyLast, hm, lastAsrt]
      exact ih

theorem lexOut_addAfter (e : Expr) (hna : e.isAsrtE = false) (ts : List Trivia) :
    (e.addAfter ts).lexOut false = e.lexOut false ++ cm ts := by
  cases e with
  | wth e bd c g s b a => simp [Expr.addAfter, Expr.setAfter, Expr.after, Expr.lexOut]
  | sel e ats g ab b a => simp [Expr.addAfter, Expr.setAfter, Expr.after, Expr.lexOut]
  | selOr e ats g ab d dg db b a => simp [Expr.addAfter, Expr.setAfter, Expr.after, Expr.lexOut]
  | lam n c g k bd b a => simp [Expr.addAfter, Expr.setAfter, Expr.after, Expr.lexOut]
  | un o e g bt b a => simp [Expr.addAfter, Expr.setAfter, Expr.after, Expr.lexOut]
  | bin o l r x y b a => simp [Expr.addAfter, Expr.setAfter, Expr.after, Expr.lexOut]
  | ite c t e cg aic aig btc btg atc tg bec beg aec eg b a => simp [Expr.addAfter, Expr.setAfter, Expr.after, Expr.lexOut]
  | has e ats lg rg bq aq b a => simp [Expr.addAfter, Expr.setAfter, Expr.after, Expr.lexOut]
  | asrt c bd x y b a => cases hna
  | leaf k t b a => simp [Expr.addAfter, Expr.setAfter, Expr.after, Expr.lexOut]
  | list v m inn b a => simp [Expr.addAfter, Expr.setAfter, Expr.after, Expr.lexOut]
  | set v m r inn b a => simp [Expr.addAfter, Expr.setAfter, Expr.after, Expr.lexOut]
  | binding n v g b a => simp [Expr.addAfter, Expr.setAfter, Expr.after, Expr.lexOut]
  | paren v lg tg lb tb b a => simp [Expr.addAfter, Expr.setAfter, Expr.after, Expr.lexOut]
  | app n x g fa b a => simp [Expr.addAfter, Expr.setAfter, Expr.after, Expr.lexOut]

theorem lexOut_addAfter_true (e : Expr) (ts : List Trivia) : (e.addAfter ts).lexOut true = e.lexOut true := by
  cases e with
  | leaf k t b a => simp [Expr.addAfter, Expr.setAfter, Expr.after, Expr.lexOut]
  | list v m inn b a => simp [Expr.addAfter, Expr.setAfter, Expr.after, Expr.lexOut]
  | set v m r inn b a => simp [Expr.addAfter, Expr.setAfter, Expr.after, Expr.lexOut]
  | binding n v g b a => simp [Expr.addAfter, Expr.setAfter, Expr.after, Expr.lexOut]
  | paren v lg tg lb tb b a => simp [Expr.addAfter, Expr.setAfter, Expr.after, Expr.lexOut]
  | app n x g fa b a => simp [Expr.addAfter, Expr.setAfter, Expr.after, Expr.lexOut]
  | wth e bd c g s b a => simp [Expr.addAfter, Expr.setAfter, Expr.after, Expr.lexOut]
  | asrt c bd x y b a => simp [Expr.addAfter, Expr.setAfter, Expr.after, Expr.lexOut]
  | sel e ats g ab b a => simp [Expr.addAfter, Expr.setAfter, Expr.after, Expr.lexOut]
  | selOr e ats g ab d dg db b a => simp [Expr.addAfter, Expr.setAfter, Expr.after, Expr.lexOut]
  | lam n c g k bd b a => simp [Expr.addAfter, Expr.setAfter, Expr.after, Expr.lexOut]
  | un o e g bt b a => simp [Expr.addAfter, Expr.setAfter, Expr.after, Expr.lexOut]
  | bin o l r x y b a => simp [Expr.addAfter, Expr.setAfter, Expr.after, Expr.lexOut]
  | ite c t e cg aic aig btc btg atc tg bec beg aec eg b a => simp [Expr.addAfter, Expr.setAfter, Expr.after, Expr.lexOut]
  | has e ats lg rg bq aq b a => simp [Expr.addAfter, Expr.setAfter, Expr.after, Expr.lexOut]

theorem lexOut_true_of_after_nil (e : Expr) (h : e.after = []) : e.lexOut true = e.lexOut false := by
  cases e with
  | leaf k t b a => simp only [Expr.after] at h; subst h; simp [Expr.lexOut]
  | list v m inn b a => simp only [Expr.after] at h; subst h; simp [Expr.lexOut]
  | set v m r inn b a => simp only [Expr.after] at h; subst h; simp [Expr.lexOut]
  | binding n v g b a => simp only [Expr.after] at h; subst h; simp [Expr.lexOut]
  | paren v lg tg lb tb b a => simp only [Expr.after] at h; subst h; simp [Expr.lexOut]
  | app n x g fa b a => simp only [Expr.after] at h; subst h; simp [Expr.lexOut]
  | wth e bd c g s b a => simp only [Expr.after] at h; subst h; simp [Expr.lexOut]
  | asrt c bd x y b a => simp only [Expr.after] at h; subst h; simp [Expr.lexOut]
  | sel e ats g ab b a => simp only [Expr.after] at h; subst h; simp [Expr.lexOut]
  | selOr e ats g ab d dg db b a => simp only [Expr.after] at h; subst h; simp [Expr.lexOut]
  | lam n c g k bd b a => simp only [Expr.after] at h; subst h; simp [Expr.lexOut]
  | un o e g bt b a => simp only [Expr.after] at h; subst h; simp [Expr.lexOut]
  | bin o l r x y b a => simp only [Expr.after] at h; subst h; simp [Expr.lexOut]
  | ite c t e cg aic aig btc btg atc tg bec beg aec eg b a => simp only [Expr.after] at h; subst h; simp [Expr.lexOut]
  | has e ats lg rg bq aq b a => simp only [Expr.after] at h; subst h; simp [Expr.lexOut]

theorem modifyLast_isEmpty {α : Type} (f : α → α) : ∀ (l : List α), (modifyLast f l).isEmpty = l.isEmpty
  | [] => rfl
  | [_] => rfl
  | _ :: _ :: _ => rfl

/-- what is compared: everything (`strict`), or the code tokens only -/
def Lex.isTok : Lex → Bool
  | .tok _ => true
  | .cmt _ => false

def proj (strict : Bool) (l : List Lex) : List Lex := if strict then l else l.filter Lex.isTok

theorem proj_append (s : Bool) (a b : List Lex) : proj s (a ++ b) = proj s a ++ proj s b := by
  cases s <;> simp [proj]

theorem filter_isTok_cm (ts : List Trivia) : (cm ts).filter Lex.isTok = [] := by
  induction ts with
  | nil => rfl
  | cons t ts ih => cases t <;> simp [cm, Lex.isTok, List.filterMap_cons] at ih ⊢ <;> exact ih

theorem proj_false_cm (ts : List Trivia) : proj false (cm ts) = [] := by simp [proj, filter_isTok_cm]

/-- trailing trivia added to an expression are written after it — for an `assert` (whose trailing
    trivia are written in front of its body) as far as the code tokens go, and entirely when the added
    trivia hold no comment -/
theorem lexOut_addAfter_proj (strict : Bool) (e : Expr) (ts : List Trivia)
    (h : strict = true → e.isAsrtE = true → cm ts = []) :
    proj strict ((e.addAfter ts).lexOut false) = proj strict (e.lexOut false ++ cm ts) := by
  cases hA : e.isAsrtE with
  | false => rw [lexOut_addAfter e hA]
  | true =>
    cases e with
    | asrt c bd x y b a =>
      simp only [Expr.addAfter, Expr.setAfter, Expr.after, Expr.lexOut, Bool.false_eq_true, if_false, cm_append]
      cases strict with
      | true => rw [h rfl hA]; simp
      | false => simp only [proj_append, proj_false_cm, List.append_nil, List.nil_append]
    | leaf => cases hA
    | list => cases hA
    | set => cases hA
    | binding => cases hA
    | paren => cases hA
    | app => cases hA
    | wth => cases hA
    | sel => cases hA
    | selOr => cases hA
    | lam => cases hA
    | un => cases hA
    | bin => cases hA
    | ite => cases hA
    | has => cases hA

theorem modifyLast_addAfter (strict : Bool) : ∀ (items : List Expr) (ts : List Trivia), items ≠ [] →
    (strict = true → lastAsrt items = true → cm ts = []) →
    proj strict (lexOutAll (modifyLast (fun e => e.addAfter ts) items)) = proj strict (lexOutAll items ++ cm ts)
  | [], _, h, _ => absurd rfl h
  | [e], ts, _, hl => by
    simp only [modifyLast, lexOutAll, List.append_nil]
    exact lexOut_addAfter_proj strict e ts hl
  | e :: e' :: rest, ts, _, hl => by
    have ih := modifyLast_addAfter strict (e' :: rest) ts (by simp) hl
    simp only [modifyLast, lexOutAll, proj_append] at ih ⊢
    rw [ih]; simp only [List.append_assoc]

theorem modifyLast_ok : ∀ {items : List Expr} {ts : List Trivia}, allOk items → TrivOk ts →
    allOk (modifyLast (fun e => e.addAfter ts) items)
  | [], _, _, _ => trivial
  | [e], _, h, ht => ⟨ok_addAfter h.1 ht, trivial⟩
  | e :: e' :: rest, _, h, ht => ⟨h.1, modifyLast_ok (items := e' :: rest) h.2 ht⟩

/-! ### bindings -/

theorem gcOk_tail {p : Text × Text} {rest : GC} {next : Text} (h : gcOk (p :: rest) next = true) :
    isCommentTok p.2 = true ∧ gcOk rest next = true := by
  cases rest with
  | nil => simp only [gcOk, Bool.and_eq_true] at h; exact ⟨h.1.2, rfl⟩
  | cons q r => simp only [gcOk, Bool.and_eq_true] at h; exact ⟨h.1.1.2, h.2⟩

theorem binding_spec {n : Text} {c1 c2 c3 : GC} {g1 g2 g3 : Text} {ve : Expr} {before : List Trivia}
    (hn : nameOk n = true) (h1 : gcOk c1 g1 = true) (h2 : gcOk c2 g2 = true) (h3 : gcOk c3 g3 = true)
    (hve : ve.ok) (hvb : ve.before = []) (hva : ve.after = []) (hb : TrivOk before) :
    ∃ b, bindingFromCst n c1 c2 g2 ve c3 before = .ok b ∧ b.ok ∧
      b.lexOut false = cm before ++ (.tok n :: .tok ['='] :: ncm c1 ++ ncm c2 ++ ve.lexOut false ++ .tok [';'] :: ncm c3) ∧
      b.isAsrtE = false := by
  obtain ⟨hsplit, hsolid⟩ := nameOk_spec hn
  have s1 := gcTrivia_spec c1 [] g1 h1 trivOk_nil
  have s2 := gcTrivia_spec c2 _ g2 h2 s1.1
  have hbv := appendGapTriviaOff_ok s2.1 g2 true
  have hbvcm : cm (appendGapTriviaOff (gcTrivia (gcTrivia [] c1) c2) g2) = ncm c1 ++ ncm c2 := by
    rw [appendGapTriviaOff_cm, s2.2, s1.2]; simp
  -- the value with its leading trivia
  have hv1 : (ve.setBefore (appendGapTriviaOff (gcTrivia (gcTrivia [] c1) c2) g2 ++ ve.before)).ok :=
    ok_setBefore hve (by rw [hvb]; simpa using hbv)
  unfold bindingFromCst
  simp only [hsplit]
  cases c3 with
  | nil =>
    refine ⟨_, rfl, ⟨hsolid, ok_addAfter hv1 (by simpa [gcTrivia] using trivOk_nil), hb, trivOk_nil⟩, ?_, rfl⟩
    simp only [Expr.lexOut]
    rw [lexOut_addAfter_true, hvb, List.append_nil, lexOut_setBefore ve hvb, hbvcm,
      lexOut_true_of_after_nil ve hva]
    simp [gcTrivia, hva, ncm]
  | cons p rest =>
    obtain ⟨hp, hrest⟩ := gcOk_tail h3
    by_cases hnl : containsNL p.1 = true
    · -- not on the value's row
      have s3 := gcTrivia_spec (p :: rest) [] g3 h3 trivOk_nil
      simp only [hnl, Bool.not_true, Bool.false_eq_true, if_false]
      refine ⟨_, rfl, ⟨hsolid, ok_addAfter hv1 s3.1, hb, trivOk_nil⟩, ?_, rfl⟩
      simp only [Expr.lexOut]
      rw [lexOut_addAfter_true, hvb, List.append_nil, lexOut_setBefore ve hvb, hbvcm,
        lexOut_true_of_after_nil ve hva]
      simp [hva, s3.2]
    · have hnl' : containsNL p.1 = false := by simpa using hnl
      have s3 := gcTrivia_spec rest [] g3 hrest trivOk_nil
      have hc := mkComment_cOk hp true
      simp only [hnl', Bool.not_false, if_true]
      refine ⟨_, rfl, ⟨hsolid, ok_addAfter (ok_addAfter hv1 (trivOk_comment hc)) s3.1, hb, trivOk_nil⟩, ?_, rfl⟩
      simp only [Expr.lexOut]
      rw [lexOut_addAfter_true, lexOut_addAfter_true, hvb, List.append_nil, lexOut_setBefore ve hvb, hbvcm,
        lexOut_true_of_after_nil ve hva]
      simp [hva, s3.2, ncm, normCmt, mkComment_token]

/-! ### sequences -/

/-- the lexical content accumulated by the loop of `parse_delimited_sequence` -/
def seqLex (st : SeqSt) : List Lex := lexOutAll st.items ++ cm st.before

def StOk (st : SeqSt) : Prop := allOk st.items ∧ TrivOk st.before

theorem pushGap_cm (st : SeqSt) (g : Text) : cm (pushGap st g) = cm st.before := by
  unfold pushGap; split
  · rfl
  · exact appendGapTriviaOff_cm _ _ _

theorem pushGap_ok {st : SeqSt} (h : TrivOk st.before) (g : Text) : TrivOk (pushGap st g) := by
  unfold pushGap; split
  · exact h
  · exact appendGapTriviaOff_ok h _ _

theorem canInline_eq (m : Mode) (st : SeqSt) (g : Text) :
    canInline m st g =
      (prevAllowsInline m st.prev && !containsNL g && !st.items.isEmpty) := rfl

/-- one comment of the loop -/
theorem seqComment_spec (strict : Bool) (m : Mode) (st : SeqSt) (g t : Text) (ht : isCommentTok t = true)
    (hst : StOk st) (pend : Bool)
    (hord : strict = true → (pend = false → cm st.before = []) ∧
      (canInline m st g = true → pend = false))
    (hla : strict = true → lastAsrt st.items = false) :
    StOk (seqComment m st g t) ∧
    proj strict (seqLex (seqComment m st g t)) = proj strict (seqLex st ++ [normCmt t]) ∧
    (seqComment m st g t).prev = .cmt ∧
    (seqComment m st g t).items.isEmpty = st.items.isEmpty ∧
    (canInline m st g = true → cm (seqComment m st g t).before = cm st.before) ∧
    lastAsrt (seqComment m st g t).items = lastAsrt st.items := by
  by_cases hin : canInline m st g = true
  · have e : seqComment m st g t =
        { items := modifyLast (fun e => e.addAfter [.comment (mkComment t true)]) st.items,
          before := pushGap st g, prev := .cmt } := by
      unfold seqComment; rw [if_pos hin]
    rw [e]
    have hne : st.items ≠ [] := by
      rw [canInline_eq] at hin
      simp only [Bool.and_eq_true, Bool.not_eq_true', List.isEmpty_eq_false_iff] at hin
      exact hin.2
    have hc := mkComment_cOk ht true
    refine ⟨⟨modifyLast_ok hst.1 (trivOk_comment hc), pushGap_ok hst.2 g⟩, ?_, rfl, modifyLast_isEmpty _ _,
      fun _ => pushGap_cm st g, lastAsrt_modifyLast _ (fun e => isAsrtE_addAfter e _) _⟩
    have hml := modifyLast_addAfter strict st.items [.comment (mkComment t true)] hne
      (fun hs hl => by rw [hla hs] at hl; cases hl)
    simp only [seqLex, proj_append, hml, pushGap_cm, cm_comment, cm_nil, mkComment_token]
    cases strict with
    | true =>
      have := (hord rfl).1 ((hord rfl).2 hin)
      simp [proj, this, normCmt]
    | false =>
      simp only [proj_false_cm]
      simp [proj, Lex.isTok, normCmt]
  · have e : seqComment m st g t =
        { items := st.items, before := pushGap st g ++ [.comment (mkComment t false)], prev := .cmt } := by
      unfold seqComment; rw [if_neg hin]
    rw [e]
    have hc := mkComment_cOk ht false
    refine ⟨⟨hst.1, trivOk_append (pushGap_ok hst.2 g) (trivOk_comment hc)⟩, ?_, rfl, rfl,
      fun h => absurd h hin, rfl⟩
    simp [seqLex, pushGap_cm, normCmt, List.append_assoc]

theorem trivOk_emptyLine : TrivOk [Trivia.emptyLine] := ⟨by simp [CommaFree], by intro c hc; simp at hc⟩
theorem trivOk_linebreak : TrivOk [Trivia.linebreak] := ⟨by simp [CommaFree], by intro c hc; simp at hc⟩

theorem appendGapTrivia_cases (g : Text) :
    appendGapTrivia [] g = [] ∨ appendGapTrivia [] g = [.emptyLine] ∨ appendGapTrivia [] g = [.linebreak] := by
  unfold appendGapTrivia; split
  · exact Or.inr (Or.inl rfl)
  · split
    · exact Or.inr (Or.inr rfl)
    · exact Or.inl rfl

/-- after the loop -/
theorem finishSeq_spec (strict : Bool) {st : SeqSt} (hst : StOk st) (cgo : Option Text) (hc : Bool)
    (hla : strict = true → lastAsrt st.items = true → cm st.before = []) :
    allOk (finishSeq st cgo hc).1 ∧ TrivOk (finishSeq st cgo hc).2 ∧
    proj strict (lexOutAll (finishSeq st cgo hc).1 ++ cm (finishSeq st cgo hc).2) = proj strict (seqLex st) ∧
    ((finishSeq st cgo hc).1 ≠ [] → cm (finishSeq st cgo hc).2 = []) := by
  -- first stage
  have stage1 : ∃ items inner, (if st.before.isEmpty then (st.items, []) else if st.items.isEmpty then ([], st.before)
        else (modifyLast (fun e => e.addAfter st.before) st.items, [])) = ((items, inner) : List Expr × List Trivia) ∧
      allOk items ∧ TrivOk inner ∧ proj strict (lexOutAll items ++ cm inner) = proj strict (seqLex st) ∧
      (items ≠ [] → cm inner = []) := by
    by_cases hb : st.before.isEmpty = true
    · have hb0 : st.before = [] := by simpa using hb
      exact ⟨st.items, [], by rw [if_pos hb], hst.1, trivOk_nil, by simp [seqLex, hb0], fun _ => rfl⟩
    · by_cases hi : st.items.isEmpty = true
      · have hi0 : st.items = [] := by simpa using hi
        exact ⟨[], st.before, by rw [if_neg hb, if_pos hi], trivial, hst.2, by simp [seqLex, hi0, lexOutAll],
          fun h => absurd rfl h⟩
      · have hne : st.items ≠ [] := by simpa using hi
        refine ⟨_, [], by rw [if_neg hb, if_neg hi], modifyLast_ok hst.1 hst.2, trivOk_nil, ?_, fun _ => rfl⟩
        rw [cm_nil, List.append_nil, modifyLast_addAfter strict _ _ hne hla]; rfl
  obtain ⟨items, inner, he, h1, h2, h3, h4⟩ := stage1
  unfold finishSeq
  simp only [he]
  cases cgo with
  | none => exact ⟨h1, h2, h3, h4⟩
  | some cg =>
    simp only
    split
    · split
      · rename_i hie
        have hi0 : items = [] := by simpa using hie
        refine ⟨h1, trivOk_append h2 trivOk_emptyLine, ?_, fun h => absurd hi0 h⟩
        simpa using h3
      · rename_i hie
        have hne : items ≠ [] := by simpa using hie
        refine ⟨modifyLast_ok h1 trivOk_emptyLine, h2, ?_, fun _ => h4 hne⟩
        rw [proj_append, modifyLast_addAfter strict _ _ hne (fun _ _ => rfl), ← proj_append]
        simpa using h3
    · exact ⟨h1, h2, h3, h4⟩

theorem emptyInner_spec {items : List Expr} {inner : List Trivia} (h : TrivOk inner) (between : Text) :
    TrivOk (emptyInner items inner between) ∧ cm (emptyInner items inner between) = cm inner := by
  unfold emptyInner
  split
  · rename_i hc
    simp only [Bool.and_eq_true, List.isEmpty_iff] at hc
    rw [hc.2]
    split
    · exact ⟨trivOk_emptyLine, rfl⟩
    · exact ⟨trivOk_nil, rfl⟩
  · exact ⟨h, rfl⟩

theorem openBefore_spec (its : Items) : TrivOk (openBefore its) ∧ cm (openBefore its) = [] := by
  unfold openBefore
  cases its.firstGap with
  | none => exact ⟨trivOk_nil, rfl⟩
  | some g =>
    simp only
    split
    · exact ⟨trivOk_emptyLine, rfl⟩
    · exact ⟨trivOk_nil, rfl⟩

/-- the body of a container as `lexOut` reads it -/
theorem body_lex (items : List Expr) (inner : List Trivia) (h : items ≠ [] → cm inner = []) :
    (if items.isEmpty then cm inner else lexOutAll items) = lexOutAll items ++ cm inner := by
  cases items with
  | nil => simp [lexOutAll]
  | cons e es => simp [h (by simp)]

/-! ### counting the items of a sequence -/

theorem modifyLast_length {α : Type} (f : α → α) : ∀ (l : List α), (modifyLast f l).length = l.length
  | [] => rfl
  | [_] => rfl
  | x :: y :: rest => by simp [modifyLast, modifyLast_length f (y :: rest)]

theorem seqComment_length (m : Mode) (st : SeqSt) (g t : Text) : (seqComment m st g t).items.length = st.items.length := by
  unfold seqComment; split
  · exact modifyLast_length _ _
  · rfl

/-- the loop appends one item per element / binding -/
theorem items_parse_count : (its : Items) → ∀ (m : Mode) (st st' : SeqSt), its.parseSeq m st = .ok st' →
    (m = .file ∨ m = .paren) → st'.items.length = st.items.length + its.countElems
  | .nil, m, st, st', hp, _ => by
    simp only [Items.parseSeq] at hp; injection hp with hp; subst hp; simp [Items.countElems]
  | .cmt g t rest, m, st, st', hp, hm => by
    simp only [Items.parseSeq] at hp
    rw [items_parse_count rest m _ st' hp hm, seqComment_length]; simp [Items.countElems]
  | .elem g c rest, m, st, st', hp, hm => by
    simp only [Items.parseSeq] at hp
    cases hpe : c.parse with
    | error err => rw [hpe] at hp; cases hp
    | ok e =>
      rw [hpe] at hp
      rcases hm with rfl | rfl
      · simp only at hp
        rw [items_parse_count rest .file _ st' hp (Or.inl rfl)]
        simp [Items.countElems]; omega
      · simp only at hp
        rw [items_parse_count rest .paren _ st' hp (Or.inr rfl)]
        simp [Items.countElems]; omega
  | .bind g n c1 g1 c2 g2 v c3 g3 rest, m, st, st', hp, hm => by
    simp only [Items.parseSeq] at hp
    cases hpv : v.parse with
    | error err => rw [hpv] at hp; cases hp
    | ok ve => rw [hpv] at hp; rcases hm with rfl | rfl <;> cases hp

theorem finishSeq_length (st : SeqSt) (cgo : Option Text) (hc : Bool) :
    (finishSeq st cgo hc).1.length = st.items.length := by
  have stage1 : ∃ items inner, (if st.before.isEmpty then (st.items, []) else if st.items.isEmpty then ([], st.before)
        else (modifyLast (fun e => e.addAfter st.before) st.items, [])) = ((items, inner) : List Expr × List Trivia) ∧
      items.length = st.items.length := by
    by_cases hb : st.before.isEmpty = true
    · exact ⟨st.items, [], by rw [if_pos hb], rfl⟩
    · by_cases hi : st.items.isEmpty = true
      · have : st.items = [] := by simpa using hi
        exact ⟨[], st.before, by rw [if_neg hb, if_pos hi], by rw [this]⟩
      · exact ⟨_, [], by rw [if_neg hb, if_neg hi], modifyLast_length _ _⟩
  obtain ⟨items, inner, he, h1⟩ := stage1
  unfold finishSeq
  simp only [he]
  cases cgo with
  | none => exact h1
  | some cg =>
    simp only
    split
    · split
      · exact h1
      · rw [modifyLast_length]; exact h1
    · exact h1

/-! ### function application: the comments between function and argument -/

theorem gcTrivia_spec' : ∀ (cs : GC) (acc : List Trivia), (∀ p ∈ cs, isCommentTok p.2 = true) → TrivOk acc →
    TrivOk (gcTrivia acc cs) ∧ cm (gcTrivia acc cs) = cm acc ++ ncm cs
  | [], acc, _, ha => ⟨ha, by simp [gcTrivia, ncm]⟩
  | p :: rest, acc, h, ha => by
    have hc := mkComment_cOk (h p (List.mem_cons_self ..)) false
    have hacc := trivOk_append (appendGapTriviaOff_ok ha p.1 true) (trivOk_comment hc)
    have ih := gcTrivia_spec' rest _ (fun q hq => h q (List.mem_cons_of_mem _ hq)) hacc
    rw [gcTrivia]
    refine ⟨ih.1, ?_⟩
    rw [ih.2]; simp [ncm, normCmt, appendGapTriviaOff_cm]

theorem gcOk_all : ∀ (cs : GC) (next : Text), gcOk cs next = true → ∀ p ∈ cs, isCommentTok p.2 = true
  | [], _, _, p, hp => by cases hp
  | q :: rest, next, h, p, hp => by
    obtain ⟨h1, h2⟩ := gcOk_tail h
    rcases List.mem_cons.mp hp with rfl | hp
    · exact h1
    · exact gcOk_all rest next h2 p hp

/-- once the row of the function is left, no comment is inline -/
theorem appSplit_inl_nil : ∀ (cs : GC) (first : Bool) (pend : Text), (appSplit cs first false pend).inl = []
  | [], _, _ => rfl
  | p :: cs, first, pend => by
    simp only [appSplit, Bool.false_and, Bool.false_eq_true, if_false]
    exact appSplit_inl_nil cs false []

theorem appSplit_mem (P : Text → Prop) : ∀ (cs : GC) (first sr : Bool) (pend : Text), (∀ p ∈ cs, P p.2) →
    (∀ t ∈ (appSplit cs first sr pend).inl, P t) ∧
    (∀ p ∈ (appSplit cs first sr pend).rest, P p.2)
  | [], _, _, _, _ => by
    refine ⟨?_, ?_⟩
    · intro t ht; cases ht
    · intro p hp; cases hp
  | p :: cs, first, sr, pend, h => by
    have hp := h p (List.mem_cons_self ..)
    have hr : ∀ q ∈ cs, P q.2 := fun q hq => h q (List.mem_cons_of_mem _ hq)
    simp only [appSplit]
    split
    · have ih := appSplit_mem P cs false (sr && !containsNL p.1) (pend ++ p.1 ++ p.2) hr
      refine ⟨fun t ht => ?_, ih.2⟩
      rcases List.mem_cons.mp ht with rfl | ht
      · exact hp
      · exact ih.1 t ht
    · have ih := appSplit_mem P cs false (sr && !containsNL p.1) [] hr
      refine ⟨ih.1, fun q hq => ?_⟩
      rcases List.mem_cons.mp hq with rfl | hq
      · exact hp
      · exact ih.2 q hq

/-- after the first comment, the inline comments are a prefix -/
theorem appSplit_order : ∀ (cs : GC) (sr : Bool) (pend : Text),
    (appSplit cs false sr pend).inl.map normCmt ++ ncm (appSplit cs false sr pend).rest = ncm cs
  | [], _, _ => rfl
  | p :: cs, sr, pend => by
    simp only [appSplit, Bool.false_and, Bool.not_false, Bool.and_true]
    split
    · have ih := appSplit_order cs (sr && !containsNL p.1) (pend ++ p.1 ++ p.2)
      simp only [List.map_cons, List.cons_append, ih]; rfl
    · rename_i hc
      have hsr : (sr && !containsNL p.1) = false := by simpa using hc
      rw [hsr]
      have ih := appSplit_order cs false []
      rw [appSplit_inl_nil] at ih ⊢
      simp only [List.map_nil, List.nil_append] at ih ⊢
      show normCmt p.2 :: ncm (appSplit cs false false []).rest = normCmt p.2 :: ncm cs
      rw [ih]

theorem appSplit_order_top (cs : GC) (h : appOrderOk cs = true) :
    (appSplit cs true true []).inl.map normCmt ++ ncm (appSplit cs true true []).rest = ncm cs := by
  cases cs with
  | nil => rfl
  | cons p cs =>
    simp only [appSplit, Bool.true_and]
    split
    · have ih := appSplit_order cs (!containsNL p.1) ([] ++ p.1 ++ p.2)
      simp only [List.map_cons, List.cons_append, ih]; rfl
    · rename_i hc
      have key : (appSplit cs false (!containsNL p.1) []).inl = [] := by
        by_cases hnl : containsNL p.1 = true
        · rw [hnl]; exact appSplit_inl_nil cs false []
        · have hnl' : containsNL p.1 = false := by simpa using hnl
          have hemp : p.1.isEmpty = true := by
            simp only [hnl', Bool.not_false, Bool.true_and, Bool.not_eq_true', Bool.not_eq_false] at hc
            simpa using hc
          rw [hnl']
          cases cs with
          | nil => rfl
          | cons q cs' =>
            simp only [appOrderOk, hemp, Bool.true_and, Bool.not_not] at h
            simp only [appSplit, Bool.not_false, Bool.true_and, h, Bool.not_true, Bool.false_and,
              Bool.false_eq_true, if_false]
            exact appSplit_inl_nil cs' false []
      have ih := appSplit_order cs (!containsNL p.1) []
      rw [key] at ih ⊢
      simp only [List.map_nil, List.nil_append] at ih ⊢
      show normCmt p.2 :: ncm (appSplit cs false (!containsNL p.1) []).rest = normCmt p.2 :: ncm cs
      rw [ih]

theorem filter_isTok_ncm (cs : GC) : (ncm cs).filter Lex.isTok = [] := by
  induction cs with
  | nil => rfl
  | cons p cs ih =>
    show List.filter Lex.isTok (normCmt p.2 :: ncm cs) = []
    rw [List.filter_cons_of_neg (by simp [normCmt, Lex.isTok])]; exact ih

theorem filter_isTok_cmC (cs : List Comment) : (cmC cs).filter Lex.isTok = [] := by
  induction cs with
  | nil => rfl
  | cons c cs ih =>
    show List.filter Lex.isTok (Lex.cmt (c.token 0) :: cmC cs) = []
    rw [List.filter_cons_of_neg (by simp [Lex.isTok])]; exact ih

theorem cmC_mkComment (ts : List Text) : cmC (ts.map fun t => mkComment t true) = ts.map normCmt := by
  induction ts with
  | nil => rfl
  | cons t ts ih =>
    simp only [List.map_cons, cmC] at ih ⊢
    rw [ih]; simp [normCmt, mkComment_token]

/-- `FunctionCall.from_cst` given function and argument -/
theorem app_spec (strict : Bool) {fe ae : Expr} {cs : GC} {g : Text} (hcs : gcOk cs g = true)
    (hf : fe.ok) (ha : ae.ok) (hab : ae.before = []) (hord : strict = true → appOrderOk cs = true) :
    (appFromCst fe ae cs g).ok ∧ (appFromCst fe ae cs g).before = [] ∧ (appFromCst fe ae cs g).after = [] ∧
    proj strict ((appFromCst fe ae cs g).lexOut false) =
      proj strict (fe.lexOut false ++ ncm cs ++ ae.lexOut false) := by
  have hall := gcOk_all cs g hcs
  have hmem := appSplit_mem (fun t => isCommentTok t = true) cs true true [] hall
  have hgt := gcTrivia_spec' (appSplit cs true true []).rest [] hmem.2 trivOk_nil
  have hbaOk : TrivOk (appBeforeArg (appSplit cs true true []) g) ∧
      cm (appBeforeArg (appSplit cs true true []) g) = ncm (appSplit cs true true []).rest := by
    unfold appBeforeArg
    split
    · rename_i he
      have : (appSplit cs true true []).rest = [] := by simpa using he
      exact ⟨trivOk_nil, by rw [this]; rfl⟩
    · split
      · exact ⟨trivOk_append hgt.1 trivOk_emptyLine, by simp [hgt.2]⟩
      · exact ⟨by simpa using hgt.1, by simp [hgt.2]⟩
  have hbf : ∀ (c : Bool), TrivOk (if c = true then trimLeadingLayoutTrivia (appBeforeArg (appSplit cs true true []) g ++ ae.before)
        else appBeforeArg (appSplit cs true true []) g ++ ae.before) ∧
      cm (if c = true then trimLeadingLayoutTrivia (appBeforeArg (appSplit cs true true []) g ++ ae.before)
        else appBeforeArg (appSplit cs true true []) g ++ ae.before) = ncm (appSplit cs true true []).rest := by
    intro c
    rw [hab, List.append_nil]
    split
    · exact ⟨trimLeading_ok hbaOk.1, by rw [trimLeading_cm, hbaOk.2]⟩
    · exact hbaOk
  have hfa : ∀ c ∈ (appSplit cs true true []).inl.map (fun t => mkComment t true), cOk c := by
    intro c hc
    obtain ⟨t, ht, rfl⟩ := List.mem_map.mp hc
    exact mkComment_cOk (hmem.1 t ht) true
  unfold appFromCst
  refine ⟨⟨hf, ok_setBefore ha (hbf _).1, hfa, trivOk_nil, trivOk_nil⟩, rfl, rfl, ?_⟩
  simp only [Expr.lexOut, cm_nil, List.nil_append, List.append_nil, Bool.false_eq_true, if_false]
  rw [lexOut_setBefore ae hab, (hbf _).2, cmC_mkComment]
  cases strict with
  | true =>
    simp only [proj, if_true]
    rw [← appSplit_order_top cs (hord rfl)]
    simp [List.append_assoc]
  | false =>
    simp only [proj, Bool.false_eq_true, if_false, List.filter_append, filter_isTok_ncm]
    have : List.filter Lex.isTok (List.map normCmt (appSplit cs true true []).inl) = [] := by
      rw [← cmC_mkComment]; exact filter_isTok_cmC _
    rw [this]; simp

/-! ### `fromCst` on well-formed input -/

theorem proj_cons (s : Bool) (x : Lex) (l : List Lex) : proj s (x :: l) = proj s [x] ++ proj s l := by
  rw [← proj_append]; rfl

theorem proj_nil (s : Bool) : proj s [] = [] := by cases s <;> rfl

theorem nonempty_append_single (l : List Expr) (x : Expr) : (!(l ++ [x]).isEmpty) = true := by
  cases l <;> rfl

theorem seqLex_init (its : Items) : seqLex { before := openBefore its } = [] := by
  simp [seqLex, lexOutAll, (openBefore_spec its).2]

theorem stOk_init (its : Items) : StOk { before := openBefore its } := ⟨trivial, (openBefore_spec its).1⟩

theorem ite_wf {c1 c2 c3 c4 c5 : GC} {g1 g2 g3 g4 g5 : Text} {c t e : Cst}
    (h : (Cst.ite c1 g1 c c2 g2 c3 g3 t c4 g4 c5 g5 e).wf = true) :
    (c1 = [] ∧ c2 = [] ∧ c3 = [] ∧ c4 = [] ∧ c5 = []) ∧ (c.wf = true ∧ t.wf = true ∧ e.wf = true) ∧
      (isGap g1 = true ∧ isGap g2 = true ∧ isGap g3 = true ∧ isGap g4 = true ∧ isGap g5 = true) := by
  simp only [Cst.wf, Bool.and_eq_true, List.isEmpty_iff] at h
  obtain ⟨⟨⟨⟨⟨⟨⟨⟨⟨⟨⟨⟨h1, h2⟩, h3⟩, h4⟩, h5⟩, h6⟩, h7⟩, h8⟩, h9⟩, h10⟩, h11⟩, h12⟩, h13⟩ := h
  exact ⟨⟨h1, h4, h6, h9, h11⟩, ⟨h3, h8, h13⟩, ⟨h2, h5, h7, h10, h12⟩⟩

theorem attrs_solid {attrs : List Text} (hall : attrs.all attrSegOk = true) : ∀ x ∈ attrs, solidT x := by
  intro x hx
  have := (List.all_eq_true.mp hall) x hx
  simp only [attrSegOk, Bool.and_eq_true, Bool.not_eq_true', List.isEmpty_eq_false_iff] at this
  refine ⟨this.1.1.1, ?_⟩
  have hl := getLast?_ne_nl_of_no_nl _ this.1.1.2
  simp [endsWithNL, hl]

theorem has_wf {c1 c2 : GC} {g1 g2 : Text} {e : Cst} {attrs : List Text}
    (h : (Cst.has e c1 g1 c2 g2 attrs).wf = true) :
    (c1 = [] ∧ c2 = []) ∧ e.wf = true ∧ (isGap g1 = true ∧ isGap g2 = true) ∧ attrs ≠ [] ∧ ∀ x ∈ attrs, solidT x := by
  simp only [Cst.wf, Bool.and_eq_true, List.isEmpty_iff, Bool.not_eq_true', List.isEmpty_eq_false_iff] at h
  obtain ⟨⟨⟨⟨⟨⟨h1, h2⟩, h3⟩, h4⟩, h5⟩, h6⟩, h7⟩ := h
  exact ⟨⟨h2, h4⟩, h1, ⟨h3, h5⟩, h6, attrs_solid h7⟩

theorem iteFromCst_nil (ce te ee : Expr) (g1 g2 g3 g4 g5 : Text) :
    iteFromCst ce te ee [] g1 [] g2 [] g3 [] g4 [] g5 = .ite ce te ee g1 [] g1 [] g2 [] g3 [] g4 [] g5 [] [] := by
  simp [iteFromCst, branchFromCst, collectTrivia, collectGo, flattenGC]

mutual
theorem cst_parse_spec (strict : Bool) : (c : Cst) → c.wf = true → (strict = true → c.orderOk = true) →
    ∃ e, c.parse = .ok e ∧ e.ok ∧ e.before = [] ∧ e.after = [] ∧
      proj strict (e.lexOut false) = proj strict c.lexM ∧ e.isAsrtE = c.isAsrt
  | .leaf k t, hwf, _ => by
    have := leaf_spec (k := k) (t := t) hwf
    exact ⟨_, this.1, ⟨this.2, trivOk_nil, trivOk_nil⟩, rfl, rfl, by simp [Expr.lexOut, Cst.lexM], rfl⟩
  | .list its cg, hwf, hord => by
    simp only [Cst.wf, Bool.and_eq_true] at hwf
    obtain ⟨st', hp, hst', hlex, hfin⟩ := items_parse_spec strict its .list cg { before := openBefore its } false hwf.1
      (stOk_init its) (fun hs => ⟨by simpa [Cst.orderOk] using hord hs, fun _ => (openBefore_spec its).2,
        fun h => by cases h⟩)
    have hf := finishSeq_spec strict hst' (some cg) (!its.isNil) hfin
    have hei := emptyInner_spec (items := (finishSeq st' (some cg) (!its.isNil)).1) hf.2.1 (its.flatten ++ cg)
    have hpe : (Cst.list its cg).parse = .ok (.list (finishSeq st' (some cg) (!its.isNil)).1
        (containsNL ('[' :: its.flatten ++ cg ++ [']']))
        (emptyInner (finishSeq st' (some cg) (!its.isNil)).1 (finishSeq st' (some cg) (!its.isNil)).2 (its.flatten ++ cg))
        [] []) := by simp only [Cst.parse, hp]
    refine ⟨_, hpe, ⟨hf.1, hei.1, trivOk_nil, trivOk_nil⟩, rfl, rfl, ?_, rfl⟩
    simp only [Expr.lexOut, Cst.lexM, cm_nil, List.nil_append, List.append_nil, if_false, Bool.false_eq_true]
    rw [hei.2, body_lex _ _ hf.2.2.2]
    rw [seqLex_init, List.nil_append] at hlex
    rw [show (Lex.tok ['['] :: its.lexM ++ [Lex.tok [']']]) = [Lex.tok ['[']] ++ its.lexM ++ [Lex.tok [']']] from by simp]
    simp only [proj_append, hf.2.2.1, hlex]
  | .set isRec rg its cg, hwf, hord => by
    simp only [Cst.wf, Bool.and_eq_true] at hwf
    obtain ⟨st', hp, hst', hlex, hfin⟩ := items_parse_spec strict its .set cg { before := openBefore its } false hwf.1.2
      (stOk_init its) (fun hs => ⟨by simpa [Cst.orderOk] using hord hs, fun _ => (openBefore_spec its).2,
        fun h => by cases h⟩)
    have hf := finishSeq_spec strict hst' (some cg) (!its.isNil) hfin
    have hei := emptyInner_spec (items := (finishSeq st' (some cg) (!its.isNil)).1) hf.2.1 (its.flatten ++ cg)
    have hpe : (Cst.set isRec rg its cg).parse = .ok (.set (finishSeq st' (some cg) (!its.isNil)).1
        (containsNL (Cst.flatten (.set isRec rg its cg))) isRec
        (emptyInner (finishSeq st' (some cg) (!its.isNil)).1 (finishSeq st' (some cg) (!its.isNil)).2 (its.flatten ++ cg))
        [] []) := by simp only [Cst.parse, hp]
    refine ⟨_, hpe, ⟨hf.1, hei.1, trivOk_nil, trivOk_nil⟩, rfl, rfl, ?_, rfl⟩
    simp only [Expr.lexOut, Cst.lexM, cm_nil, List.nil_append, List.append_nil, if_false, Bool.false_eq_true]
    rw [hei.2, body_lex _ _ hf.2.2.2]
    rw [seqLex_init, List.nil_append] at hlex
    rw [show (recLex isRec ++ Lex.tok ['{'] :: its.lexM ++ [Lex.tok ['}']]) =
      recLex isRec ++ [Lex.tok ['{']] ++ its.lexM ++ [Lex.tok ['}']] from by simp]
    simp only [proj_append, hf.2.2.1, hlex]
  | .paren its cg, hwf, hord => by
    simp only [Cst.wf, Bool.and_eq_true, beq_iff_eq] at hwf
    obtain ⟨st', hp, hst', hlex, hfin⟩ := items_parse_spec strict its .paren cg {} false hwf.1.1
      ⟨trivial, trivOk_nil⟩ (fun hs => ⟨by simpa [Cst.orderOk] using hord hs, fun _ => rfl, fun h => by cases h⟩)
    have hf := finishSeq_spec strict hst' none (!its.isNil) hfin
    have hlen : (finishSeq st' none (!its.isNil)).1.length = 1 := by
      rw [finishSeq_length, items_parse_count its .paren _ st' hp (Or.inr rfl), hwf.1.2]; rfl
    obtain ⟨v, hv⟩ : ∃ v, (finishSeq st' none (!its.isNil)).1 = [v] := by
      match h : (finishSeq st' none (!its.isNil)).1, hlen with
      | [v], _ => exact ⟨v, rfl⟩
    have hpe : (Cst.paren its cg).parse = .ok (.paren v its.preElem (its.postElem ++ cg)
        (gapHasEmptyLineOffsets (its.firstGap.getD [])) (gapHasEmptyLineOffsets cg) [] []) := by
      simp only [Cst.parse, hp, hv]
    rw [hv] at hf
    refine ⟨_, hpe, ⟨hf.1.1, trivOk_nil, trivOk_nil⟩, rfl, rfl, ?_, rfl⟩
    have hvl : proj strict (v.lexOut false) = proj strict (seqLex st') := by
      have h1 := hf.2.2.1
      rw [hf.2.2.2 (by simp)] at h1
      simpa [lexOutAll] using h1
    simp only [Expr.lexOut, Cst.lexM, cm_nil, List.nil_append, List.append_nil, if_false, Bool.false_eq_true]
    have hlex' : proj strict (seqLex st') = proj strict its.lexM := by
      rw [hlex]; simp [seqLex, lexOutAll]
    rw [show (Lex.tok ['('] :: its.lexM ++ [Lex.tok [')']]) = [Lex.tok ['(']] ++ its.lexM ++ [Lex.tok [')']] from by simp]
    simp only [proj_append, hvl, hlex']
  | .app f cs g a, hwf, hord => by
    simp only [Cst.wf, Bool.and_eq_true] at hwf
    obtain ⟨⟨⟨hfw, hcs⟩, _⟩, haw⟩ := hwf
    have hord' : strict = true → f.orderOk = true ∧ appOrderOk cs = true ∧ a.orderOk = true := by
      intro hs
      have := hord hs
      simp only [Cst.orderOk, Bool.and_eq_true] at this
      exact ⟨this.1.1, this.1.2, this.2⟩
    obtain ⟨fe, hpf, hfok, _, _, hfl, _⟩ := cst_parse_spec strict f hfw (fun hs => (hord' hs).1)
    obtain ⟨ae, hpa, haok, hab, _, hal, _⟩ := cst_parse_spec strict a haw (fun hs => (hord' hs).2.2)
    have hsp := app_spec strict hcs hfok haok hab (fun hs => (hord' hs).2.1)
    refine ⟨appFromCst fe ae cs g, by simp only [Cst.parse, hpf, hpa], hsp.1, hsp.2.1, hsp.2.2.1, ?_, rfl⟩
    rw [hsp.2.2.2, Cst.lexM]
    simp only [proj_append, hfl, hal]
  | .kw w c1 g1 h c2 g2 c3 g3 b, hwf, hord => by
    simp only [Cst.wf, Bool.and_eq_true, List.isEmpty_iff] at hwf
    obtain ⟨⟨⟨⟨⟨⟨⟨hc1, _⟩, hhw⟩, hc2⟩, _⟩, hc3⟩, _⟩, hbw⟩ := hwf
    subst hc1; subst hc2; subst hc3
    have hord' : strict = true → h.orderOk = true ∧ b.orderOk = true := by
      intro hs
      have := hord hs
      simpa [Cst.orderOk] using this
    obtain ⟨he, hph, hhok, _, _, hhl, _⟩ := cst_parse_spec strict h hhw (fun hs => (hord' hs).1)
    obtain ⟨be, hpb, hbok, hbb, hba, hbl, _⟩ := cst_parse_spec strict b hbw (fun hs => (hord' hs).2)
    -- the body with layout markers in front of it
    have hbody : ∀ (ts : List Trivia), (ts = [] ∨ ts = [.emptyLine] ∨ ts = [.linebreak]) →
        (if ts.isEmpty then be else be.setBefore (ts ++ be.before)).ok ∧
        (if ts.isEmpty then be else be.setBefore (ts ++ be.before)).lexOut false = be.lexOut false := by
      intro ts hts
      rcases hts with e | e | e <;> subst e
      · exact ⟨hbok, rfl⟩
      · refine ⟨ok_setBefore hbok (by rw [hbb]; exact trivOk_emptyLine), ?_⟩
        simp only [List.isEmpty_cons, Bool.false_eq_true, if_false]
        rw [lexOut_setBefore be hbb, hbb]; simp
      · refine ⟨ok_setBefore hbok (by rw [hbb]; exact trivOk_linebreak), ?_⟩
        simp only [List.isEmpty_cons, Bool.false_eq_true, if_false]
        rw [lexOut_setBefore be hbb, hbb]; simp
    cases w with
    | true =>
      have hsh : withFromCst he be [] g1 [] g2 [] g3 =
          .wth he (if (appendGapTrivia [] (g2 ++ ';' :: g3)).isEmpty then be
            else be.setBefore (appendGapTrivia [] (g2 ++ ';' :: g3) ++ be.before)) [] g1 [] [] [] := by
        unfold withFromCst
        simp only [collectTrivia, collectGo, semiSeq, List.isEmpty_nil, Bool.not_true, Bool.false_and, Bool.false_eq_true,
          if_false, if_true]
        rcases appendGapTrivia_cases (g2 ++ ';' :: g3) with e | e | e <;> rw [e] <;> simp [splitInline]
      have hb' := hbody _ (appendGapTrivia_cases (g2 ++ ';' :: g3))
      have hparse : (Cst.kw true [] g1 h [] g2 [] g3 b).parse = .ok (.wth he (if (appendGapTrivia [] (g2 ++ ';' :: g3)).isEmpty then be
            else be.setBefore (appendGapTrivia [] (g2 ++ ';' :: g3) ++ be.before)) [] g1 [] [] []) := by
        simp only [Cst.parse, hph, hpb, if_true, hsh]
      refine ⟨_, hparse, ⟨hhok, hb'.1, rfl, rfl, trivOk_nil, trivOk_nil⟩, rfl, rfl, ?_, rfl⟩
      simp only [Expr.lexOut, Cst.lexM, cm_nil, List.nil_append, List.append_nil, if_false, Bool.false_eq_true, ncm,
        List.map_nil, kwText, if_true, hb'.2]
      simp only [proj_append, hhl, hbl, kwWith]
    | false =>
      have hbt : ∀ (x : Bool), (if x = true then [Trivia.emptyLine] else []) = [] ∨
          (if x = true then [Trivia.emptyLine] else []) = [Trivia.emptyLine] ∨
          (if x = true then [Trivia.emptyLine] else []) = [Trivia.linebreak] := by
        intro x; cases x
        · exact Or.inl rfl
        · exact Or.inr (Or.inl rfl)
      have hsh : asrtFromCst he be [] g1 [] g2 [] g3 =
          .asrt he (if (if gapHasEmptyLine g3 = true then [Trivia.emptyLine] else []).isEmpty then be
            else be.setBefore ((if gapHasEmptyLine g3 = true then [Trivia.emptyLine] else []) ++ be.before))
            (appendGapTrivia [] g1) [] [] [] := by
        unfold asrtFromCst
        simp only [collectTrivia, collectGo, List.isEmpty_nil, Bool.not_true, Bool.false_and, Bool.false_eq_true,
          if_false, if_true, Bool.true_and]
        cases gapHasEmptyLine g3 <;> simp [splitInline]
      have hb' := hbody _ (hbt (gapHasEmptyLine g3))
      have hcm : cm (appendGapTrivia [] g1) = [] := by
        rcases appendGapTrivia_cases g1 with e | e | e <;> rw [e] <;> rfl
      have hparse : (Cst.kw false [] g1 h [] g2 [] g3 b).parse =
          .ok (.asrt he (if (if gapHasEmptyLine g3 = true then [Trivia.emptyLine] else []).isEmpty then be
            else be.setBefore ((if gapHasEmptyLine g3 = true then [Trivia.emptyLine] else []) ++ be.before))
            (appendGapTrivia [] g1) [] [] []) := by
        simp only [Cst.parse, hph, hpb, Bool.false_eq_true, if_false, hsh]
      refine ⟨_, hparse, ⟨hhok, hb'.1, hcm, rfl, trivOk_nil, trivOk_nil⟩, rfl, rfl, ?_, rfl⟩
      simp only [Expr.lexOut, Cst.lexM, cm_nil, List.nil_append, List.append_nil, if_false, Bool.false_eq_true, ncm,
        List.map_nil, kwText, hb'.2]
      simp only [proj_append, hhl, hbl, kwAssert]
  | .sel e c1 g1 gd attrs, hwf, hord => by
    simp only [Cst.wf, Bool.and_eq_true, List.isEmpty_iff, Bool.not_eq_true', List.isEmpty_eq_false_iff] at hwf
    obtain ⟨⟨⟨⟨⟨hew, hc1⟩, _⟩, _⟩, hne⟩, hall⟩ := hwf
    subst hc1
    obtain ⟨ee, hpe, heok, _, _, hel, _⟩ := cst_parse_spec strict e hew (fun hs => by simpa [Cst.orderOk] using hord hs)
    have hsol : ∀ x ∈ attrs, solidT x := by
      intro x hx
      have := (List.all_eq_true.mp hall) x hx
      simp only [attrSegOk, Bool.and_eq_true, Bool.not_eq_true', List.isEmpty_eq_false_iff] at this
      refine ⟨this.1.1.1, ?_⟩
      have hl := getLast?_ne_nl_of_no_nl _ this.1.1.2
      simp [endsWithNL, hl]
    refine ⟨.sel ee attrs g1 (collectTrivia [] g1) [] [], by simp only [Cst.parse, hpe],
      ⟨heok, hne, hsol, by simp [collectTrivia, collectGo], trivOk_nil, trivOk_nil⟩, rfl, rfl, ?_, rfl⟩
    simp only [Expr.lexOut, Cst.lexM, cm_nil, List.nil_append, List.append_nil, if_false, Bool.false_eq_true, ncm, List.map_nil]
    simp only [proj_append, hel]
  | .selOr e c1 g1 gd attrs c2 g2 g3 d, hwf, hord => by
    simp only [Cst.wf, Bool.and_eq_true, List.isEmpty_iff, Bool.not_eq_true', List.isEmpty_eq_false_iff] at hwf
    obtain ⟨⟨⟨⟨⟨⟨⟨⟨⟨hew, hc1⟩, _⟩, _⟩, hne⟩, hall⟩, hc2⟩, _⟩, _⟩, hdw⟩ := hwf
    subst hc1; subst hc2
    have hord' : strict = true → e.orderOk = true ∧ d.orderOk = true := by
      intro hs
      have := hord hs
      simpa [Cst.orderOk] using this
    obtain ⟨ee, hpe, heok, _, _, hel, _⟩ := cst_parse_spec strict e hew (fun hs => (hord' hs).1)
    obtain ⟨de, hpd, hdok, _, _, hdl, _⟩ := cst_parse_spec strict d hdw (fun hs => (hord' hs).2)
    have hsol : ∀ x ∈ attrs, solidT x := by
      intro x hx
      have := (List.all_eq_true.mp hall) x hx
      simp only [attrSegOk, Bool.and_eq_true, Bool.not_eq_true', List.isEmpty_eq_false_iff] at this
      refine ⟨this.1.1.1, ?_⟩
      have hl := getLast?_ne_nl_of_no_nl _ this.1.1.2
      simp [endsWithNL, hl]
    refine ⟨.selOr ee attrs g1 (collectTrivia [] g1) de g2 (collectTrivia [] g2) [] [], by simp only [Cst.parse, hpe, hpd],
      ⟨heok, hne, hsol, by simp [collectTrivia, collectGo], hdok, by simp [collectTrivia, collectGo], trivOk_nil, trivOk_nil⟩,
      rfl, rfl, ?_, rfl⟩
    simp only [Expr.lexOut, Cst.lexM, cm_nil, List.nil_append, List.append_nil, if_false, Bool.false_eq_true, ncm, List.map_nil]
    rw [show e.lexM ++ attrLex attrs ++ Lex.tok ['o', 'r'] :: d.lexM = e.lexM ++ attrLex attrs ++ [Lex.tok ['o', 'r']] ++ d.lexM
      from by simp]
    simp only [proj_append, hel, hdl]
  | .lam n c1 g1 c2 g2 b, hwf, hord => by
    simp only [Cst.wf, Bool.and_eq_true, List.isEmpty_iff] at hwf
    obtain ⟨⟨⟨⟨⟨hn, hc1⟩, _⟩, hc2⟩, _⟩, hbw⟩ := hwf
    subst hc1; subst hc2
    obtain ⟨be, hpb, hbok, hbb, _, hbl, _⟩ := cst_parse_spec strict b hbw (fun hs => by simpa [Cst.orderOk] using hord hs)
    have hsn : solidT n := by
      simp only [lamNameOk, Bool.and_eq_true, Bool.not_eq_true', List.isEmpty_eq_false_iff] at hn
      exact ⟨hn.1, endsWithNL_false_of_all _ hn.2 (by decide)⟩
    have hrep : ∀ (k : Nat), TrivOk (List.replicate k Trivia.emptyLine) ∧ cm (List.replicate k Trivia.emptyLine) = [] := by
      intro k
      induction k with
      | zero => exact ⟨trivOk_nil, rfl⟩
      | succ k ih =>
        rw [List.replicate_succ]
        exact ⟨trivOk_append (a := [Trivia.emptyLine]) trivOk_emptyLine ih.1, by rw [cm_emptyLine]; exact ih.2⟩
    have hbody : (if (List.replicate (g2.count '\n' - 1) Trivia.emptyLine).isEmpty then be
          else be.setBefore (List.replicate (g2.count '\n' - 1) Trivia.emptyLine ++ be.before)).ok ∧
        (if (List.replicate (g2.count '\n' - 1) Trivia.emptyLine).isEmpty then be
          else be.setBefore (List.replicate (g2.count '\n' - 1) Trivia.emptyLine ++ be.before)).lexOut false = be.lexOut false := by
      split
      · exact ⟨hbok, rfl⟩
      · refine ⟨ok_setBefore hbok (by rw [hbb, List.append_nil]; exact (hrep _).1), ?_⟩
        rw [lexOut_setBefore be hbb, hbb, List.append_nil, (hrep _).2]; rfl
    refine ⟨lamFromCst n [] g1 g2 be, by simp only [Cst.parse, hpb],
      ⟨hsn, by simp [collectTrivia, collectGo], hbody.1, trivOk_nil, trivOk_nil⟩, rfl, rfl, ?_, rfl⟩
    simp only [lamFromCst, Expr.lexOut, Cst.lexM, cm_nil, List.nil_append, List.append_nil, if_false, Bool.false_eq_true, ncm,
      List.map_nil, hbody.2]
    rw [show ([Lex.tok n, Lex.tok [':']] : List Lex) = [Lex.tok n] ++ [Lex.tok [':']] from rfl]
    simp only [proj_append, hbl]
  | .un op c g e, hwf, hord => by
    simp only [Cst.wf, Bool.and_eq_true, List.isEmpty_iff] at hwf
    obtain ⟨⟨⟨hop, hc⟩, _⟩, hew⟩ := hwf
    subst hc
    obtain ⟨ee, hpe, heok, _, _, hel, _⟩ := cst_parse_spec strict e hew (fun hs => by simpa [Cst.orderOk] using hord hs)
    have hsop : solidT op ∧ op ≠ ['+', '+'] := by
      simp only [unOpOk, Bool.or_eq_true, beq_iff_eq] at hop
      rcases hop with h | h <;> subst h <;> exact ⟨⟨by simp, by simp [endsWithNL]⟩, by simp⟩
    refine ⟨.un op ee g (collectTrivia [] g) [] [], by simp only [Cst.parse, hpe],
      ⟨hsop, heok, by simp [collectTrivia, collectGo], trivOk_nil, trivOk_nil⟩, rfl, rfl, ?_, rfl⟩
    simp only [Expr.lexOut, Cst.lexM, cm_nil, List.nil_append, List.append_nil, if_false, Bool.false_eq_true, ncm, List.map_nil]
    simp only [proj_append, hel]
  | .bin l c1 g1 op c2 g2 r, hwf, hord => by
    simp only [Cst.wf, Bool.and_eq_true, List.isEmpty_iff] at hwf
    obtain ⟨⟨⟨⟨⟨⟨⟨hlw, hc1⟩, _⟩, hop⟩, _⟩, hc2⟩, _⟩, hrw⟩ := hwf
    subst hc1; subst hc2
    have hord' : strict = true → l.orderOk = true ∧ r.orderOk = true := by
      intro hs
      have := hord hs
      simpa [Cst.orderOk] using this
    obtain ⟨le, hpl, hlok, _, _, hll, _⟩ := cst_parse_spec strict l hlw (fun hs => (hord' hs).1)
    obtain ⟨re, hpr, hrok, _, _, hrl, _⟩ := cst_parse_spec strict r hrw (fun hs => (hord' hs).2)
    have hsop : solidT op := by
      simp only [binOpOk, List.any_cons, List.any_nil, Bool.or_false, Bool.or_eq_true, beq_iff_eq] at hop
      rcases hop with h | h | h | h | h | h | h | h | h | h | h | h | h | h | h <;> subst h <;>
        exact ⟨by simp, by simp [endsWithNL]⟩
    refine ⟨.bin op le re (g1.count '\n') (g2.count '\n') [] [], by simp only [Cst.parse, hpl, hpr],
      ⟨hsop, hlok, hrok, trivOk_nil, trivOk_nil⟩, rfl, rfl, ?_, rfl⟩
    simp only [Expr.lexOut, Cst.lexM, cm_nil, List.nil_append, List.append_nil, if_false, Bool.false_eq_true, ncm, List.map_nil]
    simp only [proj_append, hll, hrl]
  | .ite c1 g1 c c2 g2 c3 g3 t c4 g4 c5 g5 e, hwf, hord => by
    obtain ⟨⟨h1, h2, h3, h4, h5⟩, ⟨hcw, htw, hew⟩, _⟩ := ite_wf hwf
    subst h1; subst h2; subst h3; subst h4; subst h5
    have hord' : strict = true → c.orderOk = true ∧ t.orderOk = true ∧ e.orderOk = true := by
      intro hs
      have := hord hs
      simp only [Cst.orderOk, Bool.and_eq_true] at this
      exact ⟨this.1.1, this.1.2, this.2⟩
    obtain ⟨ce, hpc, hcok, _, _, hcl, _⟩ := cst_parse_spec strict c hcw (fun hs => (hord' hs).1)
    obtain ⟨te, hpt, htok, _, _, htl, _⟩ := cst_parse_spec strict t htw (fun hs => (hord' hs).2.1)
    obtain ⟨ee, hpe, heok, _, _, hel, _⟩ := cst_parse_spec strict e hew (fun hs => (hord' hs).2.2)
    refine ⟨.ite ce te ee g1 [] g1 [] g2 [] g3 [] g4 [] g5 [] [], by simp only [Cst.parse, hpc, hpt, hpe, iteFromCst_nil],
      ⟨hcok, htok, heok, rfl, rfl, rfl, rfl, rfl, trivOk_nil, trivOk_nil⟩, rfl, rfl, ?_, rfl⟩
    simp only [Expr.lexOut, Cst.lexM, cm_nil, List.nil_append, List.append_nil, if_false, Bool.false_eq_true, ncm, List.map_nil]
    simp only [proj_append, hcl, htl, hel]
  | .has e c1 g1 c2 g2 attrs, hwf, hord => by
    obtain ⟨⟨h1, h2⟩, hew, _, hne, hsol⟩ := has_wf hwf
    subst h1; subst h2
    obtain ⟨ee, hpe, heok, _, _, hel, _⟩ := cst_parse_spec strict e hew (fun hs => by simpa [Cst.orderOk] using hord hs)
    refine ⟨.has ee attrs g1 g2 (collectTrivia [] g1) (collectTrivia [] g2) [] [], by simp only [Cst.parse, hpe],
      ⟨heok, hne, hsol, by simp [collectTrivia, collectGo], by simp [collectTrivia, collectGo], trivOk_nil, trivOk_nil⟩,
      rfl, rfl, ?_, rfl⟩
    simp only [Expr.lexOut, Cst.lexM, cm_nil, List.nil_append, List.append_nil, if_false, Bool.false_eq_true, ncm, List.map_nil]
    simp only [proj_append, hel]
theorem items_parse_spec (strict : Bool) : (its : Items) → ∀ (m : Mode) (cg : Text) (st : SeqSt) (pend : Bool),
    its.wf m cg = true → StOk st →
    (strict = true → its.orderOk m st.prev pend (!st.items.isEmpty) = true ∧ (pend = false → cm st.before = []) ∧
      (lastAsrt st.items = true → its.noCmt = true ∧ cm st.before = [])) →
    ∃ st', its.parseSeq m st = .ok st' ∧ StOk st' ∧ proj strict (seqLex st') = proj strict (seqLex st ++ its.lexM) ∧
      (strict = true → lastAsrt st'.items = true → cm st'.before = [])
  | .nil, m, cg, st, pend, _, hst, hord =>
    ⟨st, rfl, hst, by simp [Items.lexM], fun hs hl => ((hord hs).2.2 hl).2⟩
  | .cmt g t rest, m, cg, st, pend, hwf, hst, hord => by
    simp only [Items.wf, Bool.and_eq_true] at hwf
    obtain ⟨⟨⟨_, htok⟩, _⟩, hrest⟩ := hwf
    have hla : strict = true → lastAsrt st.items = false := by
      intro hs
      cases hl : lastAsrt st.items with
      | false => rfl
      | true => have := ((hord hs).2.2 hl).1; simp [Items.noCmt] at this
    have hstep := seqComment_spec strict m st g t htok hst pend (fun hs => by
      have ho := hord hs
      refine ⟨ho.2.1, fun hin => ?_⟩
      have h1 := ho.1
      simp only [Items.orderOk] at h1
      rw [← canInline_eq, hin] at h1
      simp only [if_true, Bool.and_eq_true, Bool.not_eq_true'] at h1
      exact h1.1) hla
    obtain ⟨hok', hlex', hprev, hemp, hcmeq, hlast⟩ := hstep
    by_cases hin : canInline m st g = true
    · obtain ⟨st', hp, hst', hl, hfin⟩ := items_parse_spec strict rest m cg (seqComment m st g t) pend hrest hok'
        (fun hs => by
          have ho := hord hs
          have h1 := ho.1
          simp only [Items.orderOk] at h1
          rw [← canInline_eq, hin] at h1
          simp only [if_true, Bool.and_eq_true, Bool.not_eq_true'] at h1
          rw [hprev, hemp]
          refine ⟨h1.2, fun hp => by rw [hcmeq hin]; exact ho.2.1 hp, fun hl => ?_⟩
          rw [hlast, hla hs] at hl; cases hl)
      refine ⟨st', by simp only [Items.parseSeq, hp], hst', ?_, hfin⟩
      rw [hl, proj_append, hlex', Items.lexM, proj_append, proj_append, proj_cons strict (normCmt t) rest.lexM]
      simp [List.append_assoc]
    · obtain ⟨st', hp, hst', hl, hfin⟩ := items_parse_spec strict rest m cg (seqComment m st g t) true hrest hok'
        (fun hs => by
          have ho := hord hs
          have h1 := ho.1
          simp only [Items.orderOk] at h1
          rw [← canInline_eq] at h1
          have hin' : canInline m st g = false := by simpa using hin
          rw [hin'] at h1
          simp only [Bool.false_eq_true, if_false] at h1
          rw [hprev, hemp]
          refine ⟨h1, (fun hp => by cases hp), fun hl => ?_⟩
          rw [hlast, hla hs] at hl; cases hl)
      refine ⟨st', by simp only [Items.parseSeq, hp], hst', ?_, hfin⟩
      rw [hl, proj_append, hlex', Items.lexM, proj_append, proj_append, proj_cons strict (normCmt t) rest.lexM]
      simp [List.append_assoc]
  | .elem g c rest, m, cg, st, pend, hwf, hst, hord => by
    simp only [Items.wf, Bool.and_eq_true, bne_iff_ne, ne_eq] at hwf
    obtain ⟨⟨⟨hm, _⟩, hc⟩, hrest⟩ := hwf
    obtain ⟨e, hpe, heok, heb, hea, hel, hasrt⟩ := cst_parse_spec strict c hc (fun hs => by
      have h1 := (hord hs).1
      simp only [Items.orderOk, Bool.and_eq_true] at h1
      exact h1.1.1)
    have hb' := pushGap_ok hst.2 g
    have hnew : StOk { items := st.items ++ [e.setBefore (pushGap st g)], before := [], prev := .item } :=
      ⟨allOk_append hst.1 (allOk_single (ok_setBefore heok hb')), trivOk_nil⟩
    have hlexnew : proj strict (seqLex { items := st.items ++ [e.setBefore (pushGap st g)], before := [], prev := .item })
        = proj strict (seqLex st ++ c.lexM) := by
      simp only [seqLex, lexOutAll_append, lexOutAll_single, lexOut_setBefore e heb, pushGap_cm, cm_nil,
        List.append_nil, proj_append, hel]
      simp [List.append_assoc]
    obtain ⟨st', hp, hst', hl, hfin⟩ := items_parse_spec strict rest m cg
      { items := st.items ++ [e.setBefore (pushGap st g)], before := [], prev := .item } false hrest hnew
      (fun hs => by
        have h1 := (hord hs).1
        simp only [Items.orderOk, Bool.and_eq_true, Bool.or_eq_true, Bool.not_eq_true'] at h1
        rw [nonempty_append_single]
        refine ⟨h1.2, fun _ => rfl, fun hl => ?_⟩
        rw [lastAsrt_append_single, isAsrtE_setBefore, hasrt] at hl
        rcases h1.1.2 with h2 | h2
        · rw [hl] at h2; cases h2
        · exact ⟨h2, rfl⟩)
    cases m with
    | set => exact absurd rfl hm
    | file =>
      refine ⟨st', ?_, hst', ?_, hfin⟩
      · simp only [Items.parseSeq, hpe, heb, List.append_nil]; exact hp
      · rw [hl, proj_append, hlexnew, Items.lexM]; simp [proj_append]
    | paren =>
      refine ⟨st', ?_, hst', ?_, hfin⟩
      · simp only [Items.parseSeq, hpe, heb, List.append_nil]; exact hp
      · rw [hl, proj_append, hlexnew, Items.lexM]; simp [proj_append]
    | list =>
      refine ⟨st', ?_, hst', ?_, hfin⟩
      · simp only [Items.parseSeq, hpe]; exact hp
      · rw [hl, proj_append, hlexnew, Items.lexM]; simp [proj_append]
  | .bind g n c1 g1 c2 g2 v c3 g3 rest, m, cg, st, pend, hwf, hst, hord => by
    simp only [Items.wf, Bool.and_eq_true, beq_iff_eq] at hwf
    obtain ⟨⟨⟨⟨⟨⟨⟨⟨⟨⟨hm, _⟩, hn⟩, h1⟩, _⟩, h2⟩, _⟩, hv⟩, h3⟩, _⟩, hrest⟩ := hwf
    subst hm
    obtain ⟨ve, hpv, hveok, hvb, hva, hvl, _⟩ := cst_parse_spec strict v hv (fun hs => by
      have h1 := (hord hs).1
      simp only [Items.orderOk, Bool.and_eq_true] at h1
      exact h1.1)
    obtain ⟨b, hb, hbok, hbl, hbna⟩ := binding_spec (g1 := g1) (g2 := g2) (g3 := g3) hn h1 h2 h3 hveok hvb hva (pushGap_ok hst.2 g)
    have hnew : StOk { items := st.items ++ [b], before := [], prev := .item } :=
      ⟨allOk_append hst.1 (allOk_single hbok), trivOk_nil⟩
    have hlexnew : proj strict (seqLex { items := st.items ++ [b], before := [], prev := .item })
        = proj strict (seqLex st ++
            (.tok n :: .tok ['='] :: ncm c1 ++ ncm c2 ++ v.lexM ++ .tok [';'] :: ncm c3)) := by
      simp only [seqLex, lexOutAll_append, lexOutAll_single, hbl, pushGap_cm, cm_nil, List.append_nil]
      rw [show (Lex.tok n :: Lex.tok ['='] :: ncm c1 ++ ncm c2 ++ ve.lexOut false ++ Lex.tok [';'] :: ncm c3) =
        [Lex.tok n, Lex.tok ['=']] ++ ncm c1 ++ ncm c2 ++ ve.lexOut false ++ ([Lex.tok [';']] ++ ncm c3) from by simp]
      rw [show (Lex.tok n :: Lex.tok ['='] :: ncm c1 ++ ncm c2 ++ v.lexM ++ Lex.tok [';'] :: ncm c3) =
        [Lex.tok n, Lex.tok ['=']] ++ ncm c1 ++ ncm c2 ++ v.lexM ++ ([Lex.tok [';']] ++ ncm c3) from by simp]
      simp only [proj_append, hvl, List.append_assoc]
    obtain ⟨st', hp, hst', hl, hfin⟩ := items_parse_spec strict rest .set cg
      { items := st.items ++ [b], before := [], prev := .item } false hrest hnew
      (fun hs => by
        have h1 := (hord hs).1
        simp only [Items.orderOk, Bool.and_eq_true] at h1
        rw [nonempty_append_single]
        refine ⟨h1.2, fun _ => rfl, fun hl => ?_⟩
        rw [lastAsrt_append_single, hbna] at hl; cases hl)
    refine ⟨st', ?_, hst', ?_, hfin⟩
    · simp only [Items.parseSeq, hpv, hb]; exact hp
    · rw [hl, proj_append, hlexnew, Items.lexM]
      simp only [proj_append]
      simp only [List.append_assoc]
end


/-! ### files -/

/-- `NixSourceCode.from_cst` on a well-formed file: it succeeds, the result satisfies the invariant
    of the renderer lemmas, and its lexical content is the input's (all of it when no comment
    overtakes another — `strict` — and the code tokens in any case). -/
theorem file_parse_spec (strict : Bool) (f : File) (hwf : f.wf = true) (hord : strict = true → f.orderOk = true) :
    ∃ s, f.parse = .ok s ∧ s.ok ∧ proj strict s.lexOut = proj strict f.items.lexM := by
  simp only [File.wf, Bool.and_eq_true] at hwf
  obtain ⟨st', hp, hst', hl, hfin⟩ := items_parse_spec strict f.items .file f.endGap {} false hwf.1.1
    ⟨trivial, trivOk_nil⟩ (fun hs => ⟨by simpa [File.orderOk] using hord hs, fun _ => rfl, fun h => by cases h⟩)
  have hf := finishSeq_spec strict hst' none (!f.items.isNil) hfin
  refine ⟨{ exprs := (finishSeq st' none (!f.items.isNil)).1,
            trailing := appendGapTriviaOff (finishSeq st' none (!f.items.isNil)).2 f.endGap }, ?_, ?_, ?_⟩
  · simp only [File.parse, hp]
  · exact ⟨hf.1, appendGapTriviaOff_ok hf.2.1 _ _⟩
  · simp only [Src.lexOut, appendGapTriviaOff_cm, hf.2.2.1, hl]
    simp [seqLex, lexOutAll]

/-! ### the input's tokens -/

def toksL (l : List Lex) : List Text := l.filterMap Lex.tok?

theorem toksL_append (a b : List Lex) : toksL (a ++ b) = toksL a ++ toksL b := by simp [toksL]
@[simp] theorem toksL_tok (s : Text) (l : List Lex) : toksL (.tok s :: l) = s :: toksL l := by
  simp [toksL, Lex.tok?]
@[simp] theorem toksL_cmt (s : Text) (l : List Lex) : toksL (.cmt s :: l) = toksL l := by
  show List.filterMap Lex.tok? _ = _
  rw [List.filterMap_cons_none rfl]; rfl
@[simp] theorem toksL_nil : toksL [] = [] := rfl
theorem toksL_ncm (cs : GC) : toksL (ncm cs) = [] := by
  induction cs with
  | nil => rfl
  | cons p cs ih =>
    show toksL (normCmt p.2 :: ncm cs) = []
    rw [normCmt, toksL_cmt]; exact ih
theorem toksL_lexGC (cs : GC) : toksL (lexGC cs) = [] := by
  induction cs with
  | nil => rfl
  | cons p cs ih =>
    show toksL (Lex.cmt p.2 :: lexGC cs) = []
    rw [toksL_cmt]; exact ih
theorem toksL_recLex (r : Bool) : toksL (recLex r) = toksL (if r then [Lex.tok ['r', 'e', 'c']] else []) := rfl

theorem toksL_proj_false (l : List Lex) : toksL (proj false l) = toksL l := by
  induction l with
  | nil => rfl
  | cons x l ih =>
    cases x with
    | tok s =>
      have : proj false (Lex.tok s :: l) = Lex.tok s :: proj false l := by
        show List.filter Lex.isTok _ = _ :: List.filter Lex.isTok _
        rw [List.filter_cons_of_pos (by rfl)]
      rw [this, toksL_tok, toksL_tok, ih]
    | cmt s =>
      have : proj false (Lex.cmt s :: l) = proj false l := by
        show List.filter Lex.isTok _ = List.filter Lex.isTok _
        rw [List.filter_cons_of_neg (by simp [Lex.isTok])]
      rw [this, toksL_cmt, ih]

mutual
theorem cst_toks_lexM : (c : Cst) → toksL c.lexM = toksL c.lex
  | .leaf _ _ => rfl
  | .list its _ => by
    have := items_toks_lexM its
    simp only [Cst.lexM, Cst.lex]
    rw [show (Lex.tok ['['] :: its.lexM ++ [Lex.tok [']']]) = [Lex.tok ['[']] ++ its.lexM ++ [Lex.tok [']']] from by simp,
      show (Lex.tok ['['] :: its.lex ++ [Lex.tok [']']]) = [Lex.tok ['[']] ++ its.lex ++ [Lex.tok [']']] from by simp]
    simp only [toksL_append, this]
  | .set r _ its _ => by
    have := items_toks_lexM its
    simp only [Cst.lexM, Cst.lex]
    rw [show (recLex r ++ Lex.tok ['{'] :: its.lexM ++ [Lex.tok ['}']]) =
        recLex r ++ [Lex.tok ['{']] ++ its.lexM ++ [Lex.tok ['}']] from by simp,
      show ((if r = true then [Lex.tok ['r', 'e', 'c']] else []) ++ Lex.tok ['{'] :: its.lex ++ [Lex.tok ['}']]) =
        (if r = true then [Lex.tok ['r', 'e', 'c']] else []) ++ [Lex.tok ['{']] ++ its.lex ++ [Lex.tok ['}']] from by simp]
    simp only [toksL_append, this, toksL_recLex]
  | .paren its _ => by
    have := items_toks_lexM its
    simp only [Cst.lexM, Cst.lex]
    rw [show (Lex.tok ['('] :: its.lexM ++ [Lex.tok [')']]) = [Lex.tok ['(']] ++ its.lexM ++ [Lex.tok [')']] from by simp,
      show (Lex.tok ['('] :: its.lex ++ [Lex.tok [')']]) = [Lex.tok ['(']] ++ its.lex ++ [Lex.tok [')']] from by simp]
    simp only [toksL_append, this]
  | .app f cs _ a => by
    simp only [Cst.lexM, Cst.lex, toksL_append, toksL_ncm, toksL_lexGC, cst_toks_lexM f, cst_toks_lexM a]
  | .kw w c1 _ h c2 _ c3 _ b => by
    simp only [Cst.lexM, Cst.lex]
    rw [show (Lex.tok (kwText w) :: ncm c1 ++ h.lexM ++ ncm c2 ++ Lex.tok [';'] :: ncm c3 ++ b.lexM) =
        [Lex.tok (kwText w)] ++ ncm c1 ++ h.lexM ++ ncm c2 ++ [Lex.tok [';']] ++ ncm c3 ++ b.lexM from by simp,
      show (Lex.tok (kwText w) :: lexGC c1 ++ h.lex ++ lexGC c2 ++ Lex.tok [';'] :: lexGC c3 ++ b.lex) =
        [Lex.tok (kwText w)] ++ lexGC c1 ++ h.lex ++ lexGC c2 ++ [Lex.tok [';']] ++ lexGC c3 ++ b.lex from by simp]
    simp only [toksL_append, toksL_ncm, toksL_lexGC, cst_toks_lexM h, cst_toks_lexM b]
  | .sel e c1 _ _ attrs => by
    simp only [Cst.lexM, Cst.lex, toksL_append, toksL_ncm, toksL_lexGC, cst_toks_lexM e]
  | .selOr e c1 _ _ attrs c2 _ _ d => by
    simp only [Cst.lexM, Cst.lex]
    rw [show e.lexM ++ ncm c1 ++ attrLex attrs ++ ncm c2 ++ Lex.tok ['o', 'r'] :: d.lexM =
        e.lexM ++ ncm c1 ++ attrLex attrs ++ ncm c2 ++ [Lex.tok ['o', 'r']] ++ d.lexM from by simp,
      show e.lex ++ lexGC c1 ++ attrLex attrs ++ lexGC c2 ++ Lex.tok ['o', 'r'] :: d.lex =
        e.lex ++ lexGC c1 ++ attrLex attrs ++ lexGC c2 ++ [Lex.tok ['o', 'r']] ++ d.lex from by simp]
    simp only [toksL_append, toksL_ncm, toksL_lexGC, cst_toks_lexM e, cst_toks_lexM d]
  | .lam n c1 _ c2 _ b => by
    simp only [Cst.lexM, Cst.lex]
    rw [show Lex.tok n :: ncm c1 ++ Lex.tok [':'] :: ncm c2 ++ b.lexM = [Lex.tok n] ++ ncm c1 ++ [Lex.tok [':']] ++ ncm c2 ++ b.lexM
        from by simp,
      show Lex.tok n :: lexGC c1 ++ Lex.tok [':'] :: lexGC c2 ++ b.lex = [Lex.tok n] ++ lexGC c1 ++ [Lex.tok [':']] ++ lexGC c2 ++ b.lex
        from by simp]
    simp only [toksL_append, toksL_ncm, toksL_lexGC, cst_toks_lexM b, toksL_tok, toksL_nil]
  | .un op c _ e => by
    simp only [Cst.lexM, Cst.lex]
    rw [show Lex.tok op :: ncm c ++ e.lexM = [Lex.tok op] ++ ncm c ++ e.lexM from by simp,
      show Lex.tok op :: lexGC c ++ e.lex = [Lex.tok op] ++ lexGC c ++ e.lex from by simp]
    simp only [toksL_append, toksL_ncm, toksL_lexGC, cst_toks_lexM e]
  | .bin l c1 _ op c2 _ r => by
    simp only [Cst.lexM, Cst.lex]
    rw [show l.lexM ++ ncm c1 ++ Lex.tok op :: ncm c2 ++ r.lexM = l.lexM ++ ncm c1 ++ [Lex.tok op] ++ ncm c2 ++ r.lexM from by simp,
      show l.lex ++ lexGC c1 ++ Lex.tok op :: lexGC c2 ++ r.lex = l.lex ++ lexGC c1 ++ [Lex.tok op] ++ lexGC c2 ++ r.lex from by simp]
    simp only [toksL_append, toksL_ncm, toksL_lexGC, cst_toks_lexM l, cst_toks_lexM r]
  | .ite c1 _ c c2 _ c3 _ t c4 _ c5 _ e => by
    simp only [Cst.lexM, Cst.lex]
    rw [show Lex.tok kwIf :: ncm c1 ++ c.lexM ++ ncm c2 ++ Lex.tok kwThen :: ncm c3 ++ t.lexM ++ ncm c4 ++
          Lex.tok kwElse :: ncm c5 ++ e.lexM =
        [Lex.tok kwIf] ++ ncm c1 ++ c.lexM ++ ncm c2 ++ [Lex.tok kwThen] ++ ncm c3 ++ t.lexM ++ ncm c4 ++
          [Lex.tok kwElse] ++ ncm c5 ++ e.lexM from by simp,
      show Lex.tok ['i', 'f'] :: lexGC c1 ++ c.lex ++ lexGC c2 ++ Lex.tok ['t', 'h', 'e', 'n'] :: lexGC c3 ++ t.lex ++ lexGC c4 ++
          Lex.tok ['e', 'l', 's', 'e'] :: lexGC c5 ++ e.lex =
        [Lex.tok kwIf] ++ lexGC c1 ++ c.lex ++ lexGC c2 ++ [Lex.tok kwThen] ++ lexGC c3 ++ t.lex ++ lexGC c4 ++
          [Lex.tok kwElse] ++ lexGC c5 ++ e.lex from by simp [kwIf, kwThen, kwElse]]
    simp only [toksL_append, toksL_ncm, toksL_lexGC, cst_toks_lexM c, cst_toks_lexM t, cst_toks_lexM e]
  | .has e c1 _ c2 _ attrs => by
    simp only [Cst.lexM, Cst.lex]
    rw [show e.lexM ++ ncm c1 ++ Lex.tok ['?'] :: ncm c2 ++ attrLex0 attrs =
        e.lexM ++ ncm c1 ++ [Lex.tok ['?']] ++ ncm c2 ++ attrLex0 attrs from by simp,
      show e.lex ++ lexGC c1 ++ Lex.tok ['?'] :: lexGC c2 ++ attrLex0 attrs =
        e.lex ++ lexGC c1 ++ [Lex.tok ['?']] ++ lexGC c2 ++ attrLex0 attrs from by simp]
    simp only [toksL_append, toksL_ncm, toksL_lexGC, cst_toks_lexM e]
theorem items_toks_lexM : (its : Items) → toksL its.lexM = toksL its.lex
  | .nil => rfl
  | .cmt _ t rest => by
    have := items_toks_lexM rest
    simp only [Items.lexM, Items.lex, normCmt, toksL_cmt, this]
  | .elem _ c rest => by
    simp only [Items.lexM, Items.lex, toksL_append, cst_toks_lexM c, items_toks_lexM rest]
  | .bind _ n c1 _ c2 _ v c3 _ rest => by
    have h1 := cst_toks_lexM v
    have h2 := items_toks_lexM rest
    simp only [Items.lexM, Items.lex]
    rw [show (Lex.tok n :: Lex.tok ['='] :: ncm c1 ++ ncm c2 ++ v.lexM ++ Lex.tok [';'] :: ncm c3 ++ rest.lexM) =
        [Lex.tok n, Lex.tok ['=']] ++ ncm c1 ++ ncm c2 ++ v.lexM ++ [Lex.tok [';']] ++ ncm c3 ++ rest.lexM from by simp,
      show (Lex.tok n :: lexGC c1 ++ Lex.tok ['='] :: lexGC c2 ++ v.lex ++ lexGC c3 ++ Lex.tok [';'] :: rest.lex) =
        [Lex.tok n] ++ lexGC c1 ++ [Lex.tok ['=']] ++ lexGC c2 ++ v.lex ++ lexGC c3 ++ [Lex.tok [';']] ++ rest.lex from by simp]
    simp only [toksL_append, toksL_ncm, toksL_lexGC, h1, h2, toksL_tok, toksL_nil]
    simp
end

/-! ### the fuel version of the attrpath splitter is the splitter -/

theorem splitGoF_eq : ∀ (fuel : Nat) (st : SplitSt) (t : Text), t.length < fuel → splitGoF fuel st t = splitGo st t
  | 0, _, _, h => by omega
  | fuel + 1, st, [], _ => by rw [splitGoF, splitGo]
  | fuel + 1, st, ch :: rest, h => by
    have hr : rest.length < fuel := by simp at h; omega
    have ht : rest.tail.length < fuel := by simp; omega
    rw [splitGoF, splitGo]
    simp only [splitGoF_eq fuel _ rest hr, splitGoF_eq fuel _ rest.tail ht]
    split
    · rfl
    · split
      · rfl
      · split
        · rfl
        · split
          · rfl
          · split
            · rename_i hdot
              cases hf : splitFlush st with
              | ok st' => rfl
              | error e => rfl
            · rfl

theorem splitAttrpathF_eq (t : Text) : splitAttrpathF t = splitAttrpath t := by
  unfold splitAttrpathF splitAttrpath
  rw [splitGoF_eq _ _ _ (Nat.lt_succ_self _)]
  cases splitGo {} t with
  | error e => rfl
  | ok st =>
    show (if st.depth > 0 then _ else _) = (if st.depth > 0 then _ else _)
    split
    · rfl
    · split
      · rfl
      · cases splitFlush st <;> rfl

end Nima.Frag
