import NimaVerif.Lemmas.NameAgree
import NimaVerif.Lemmas.AssignHistory
import NimaVerif.Lemmas.NodeEq
import NimaVerif.Model.ResolveSpec
/-!
# C11 — editing through a reference updates exactly the defining binding

Statements about the edit model (`Model/Edit.lean`: `scopeChain`, `scanChain`, `resolveIdent`,
`assignThrough`, `assignExisting`, `setValue` — a bug-compatible transliteration of
`cli/manipulations.py` / `resolution.py`, tied to the code by object-graph correspondence on every
run). Everything quantifies over **all** documents, names, values, chain lengths and nestings.

SPEC (`Model/AssignSpec.lean`, written without reference to the resolver under test):
`lookupEnv` (innermost frame that binds the name wins; the binding found lives in the environment
from its own frame outwards), `Defines env name bid` (reference chains followed to their end,
outwards only — an inductive relation, so cyclic and dangling chains define nothing), `NotBound`,
`chainEnv` (the let layers around the set and the set itself when `rec`, innermost first),
`docEnv` (plus the recorded let layer of the top expression when the target sits behind a wrapper).

* §0 the SPEC is Nix's rule for these shapes: innermost wins, outwards only, functional, outer
  frames never matter to an inner derivation;
* §1 the resolver: `resolveIdent_sound`, `resolveIdent_complete` (the fuel `1 + number of items`
  suffices because the identities visited are distinct), `resolveIdent_iff`;
* §2 `assignThrough_exact` (+ converse), the frame of the write, the reference stays in place,
  and the same for a plain `set` (`set_through_reference`);
* §3 `assignExisting_unbound_overwrites`, `set_unbound_overwrites`;
* §4 the full claim `c11_full`, counterexamples (`cex_*`), `not_c11_full`, `c11_partial`;
* §5 histories.

Decidable side conditions (`Model/AssignSpec.lean`): `envOK` (name tokens read the same by the
code's `strip('"')` and by Nix; references are bare identifiers; no Nix name declared twice in one
binding list), `inheritFree` (no `inherit` clause mentions a name involved — the model stops at
`inherit`, Nix looks through it), `idsNodup` (object identities distinct). None of them restricts
depth, shadowing or chain length.
-/
namespace Nima.C11
-- name tokens are compared by spelling in this file (see `NameCmp` in Model/Edit.lean)
attribute [local instance] NameCmp.spelled

open Node

/-! ## 0. The SPEC is Nix's lexical scoping for these shapes -/

/-- the name reading is the one C10's SPEC uses -/
theorem nixName_eq_specName : nixName = Scope.specName := by
  funext n; rfl

/-- *Innermost wins*: a binding of the name in the innermost frame shadows every outer one. -/
theorem lookup_innermost_wins (name : Text) (frame : List Node) (outer : List (List Node)) (b : Node)
    (h : frame.find? (bindsName name) = some b) :
    lookupEnv name (frame :: outer) = some (b, frame :: outer) := by
  simp [lookupEnv, h]

/-- a frame that does not bind the name is transparent -/
theorem lookup_skips_frame (name : Text) (frame : List Node) (outer : List (List Node))
    (h : frame.find? (bindsName name) = none) :
    lookupEnv name (frame :: outer) = lookupEnv name outer := by
  simp [lookupEnv, h]

/-- *Outwards only*: the binding found is a binding of the first frame of the environment it is
    handed back with, and that environment is a suffix of the one searched — a reference held by a
    binding of an outer let layer never sees an inner layer. -/
theorem lookup_outwards_only (name : Text) (env env' : List (List Node)) (b : Node)
    (h : lookupEnv name env = some (b, env')) :
    env' <:+ env ∧ ∃ frame outer, env' = frame :: outer ∧ b ∈ frame ∧ bindsName name b = true := by
  obtain ⟨h1, f, outer, h2, h3⟩ := lookupEnv_spec h
  exact ⟨h1, f, outer, h2, List.mem_of_find?_eq_some h3, List.find?_some h3⟩

/-- The SPEC is functional: a name has at most one defining binding. -/
theorem defines_unique (env : List (List Node)) (name : Text) (a b : Nat)
    (h1 : Defines env name a) (h2 : Defines env name b) : a = b :=
  Defines.det h1 h2

/-- *Lexical*: what lies further out never changes a derivation that succeeds further in. -/
theorem defines_extend (env extra : List (List Node)) (name : Text) (bid : Nat)
    (h : Defines env name bid) : Defines (env ++ extra) name bid := by
  induction h with
  | value hl hv => exact Defines.value (lookupEnv_append hl) hv
  | ref hl _ ih => exact Defines.ref (lookupEnv_append hl) ih

/-- the environment `let a = b; b = a; in …` (one recursive frame) -/
def cyclicEnv (i j : Nat) : List (List Node) :=
  [[.bind i "a".toList false (.ident "b".toList) [] [],
    .bind j "b".toList false (.ident "a".toList) [] []]]

/-- A cyclic chain defines nothing (Nix: infinite recursion) — `Defines` is inductive. -/
theorem cyclic_defines_nothing (i j : Nat) (bid : Nat) :
    ¬ Defines (cyclicEnv i j) "a".toList bid := by
  have hla : lookupEnv "a".toList (cyclicEnv i j) =
      some (.bind i "a".toList false (.ident "b".toList) [] [], cyclicEnv i j) := rfl
  have hlb : lookupEnv "b".toList (cyclicEnv i j) =
      some (.bind j "b".toList false (.ident "a".toList) [] [], cyclicEnv i j) := rfl
  have key : ∀ p : List Nat, ¬ Path (cyclicEnv i j) "a".toList p bid ∧
      ¬ Path (cyclicEnv i j) "b".toList p bid := by
    intro p
    induction p with
    | nil => exact ⟨fun h => h.ne_nil rfl, fun h => h.ne_nil rfl⟩
    | cons x p ih =>
      constructor
      · intro h
        cases h with
        | value hl hv =>
          rw [hla] at hl
          simp only [Option.some.injEq, Prod.mk.injEq, Node.bind.injEq] at hl
          obtain ⟨⟨_, _, _, rfl, _⟩, _⟩ := hl
          simp [Node.isIdent] at hv
        | ref hl hp =>
          rw [hla] at hl
          simp only [Option.some.injEq, Prod.mk.injEq, Node.bind.injEq, Node.ident.injEq] at hl
          obtain ⟨⟨_, _, _, rfl, _⟩, rfl⟩ := hl
          exact ih.2 hp
      · intro h
        cases h with
        | value hl hv =>
          rw [hlb] at hl
          simp only [Option.some.injEq, Prod.mk.injEq, Node.bind.injEq] at hl
          obtain ⟨⟨_, _, _, rfl, _⟩, _⟩ := hl
          simp [Node.isIdent] at hv
        | ref hl hp =>
          rw [hlb] at hl
          simp only [Option.some.injEq, Prod.mk.injEq, Node.bind.injEq, Node.ident.injEq] at hl
          obtain ⟨⟨_, _, _, rfl, _⟩, rfl⟩ := hl
          exact ih.1 hp
  intro h
  obtain ⟨p, hp⟩ := Path.of_defines h
  exact (key p).1 hp

/-! ## 1. The resolver against the SPEC -/

/-- **Soundness.** Whatever the fuel: when `resolveIdent` answers, the answer is the binding that
    defines the name under Nix lexical scoping. -/
theorem resolveIdent_sound (fuel : Nat) (env : List (List Node)) (name : Text) (bid : Nat)
    (hok : envOK env = true) (hname : nixName name = name)
    (h : resolveIdent fuel env name [] = some bid) : Defines env name bid :=
  resolveIdent_sound_aux (EnvWF.of_envOK hok) fuel (fun _ hf => hf) hname h

/-- The identities a derivation visits are pairwise distinct, so there are no more of them than
    bindings in the environment — why the fuel `1 + number of items` is enough. -/
theorem visited_distinct (env : List (List Node)) (name : Text) (bid : Nat)
    (hids : idsNodup env = true) (h : Defines env name bid) :
    ∃ p : List Nat, Path env name p bid ∧ p.Nodup ∧ (∀ i ∈ p, i ∈ envIds env) ∧
      p.length ≤ env.flatten.length := by
  obtain ⟨p, hp⟩ := Path.of_defines h
  have hn := idsNodup_iff.1 hids
  exact ⟨p, hp, hp.nodup hn, hp.mem_envIds, hp.length_le hn⟩

/-- **Completeness.** When the SPEC names a defining binding (so the chain is acyclic and ends),
    any fuel above the number of items of the environment suffices and `resolveIdent` returns it. -/
theorem resolveIdent_complete (fuel : Nat) (env : List (List Node)) (name : Text) (bid : Nat)
    (hok : envOK env = true) (hname : nixName name = name)
    (hinh : inheritFree env name = true) (hids : idsNodup env = true)
    (hfuel : env.flatten.length < fuel)
    (h : Defines env name bid) : resolveIdent fuel env name [] = some bid := by
  obtain ⟨p, hp, hnd, _, hlen⟩ := visited_distinct env name bid hids h
  obtain ⟨hclear, hinhwf⟩ := InhWF.of_inheritFree hinh
  exact resolveIdent_complete_aux (EnvWF.of_envOK hok) hinhwf hp fuel [] (fun _ hf => hf) hname
    hclear hnd (fun _ _ => by simp) (by omega)

/-- With the fuel `assignThrough` passes, the resolver decides the SPEC. -/
theorem resolveIdent_iff (d : Doc) (ts : Node) (wl : Bool) (name : Text) (bid : Nat)
    (hok : envOK (chainEnv d ts wl) = true) (hname : nixName name = name)
    (hinh : inheritFree (chainEnv d ts wl) name = true) (hids : idsNodup (chainEnv d ts wl) = true) :
    resolveIdent (throughFuel d ts wl) (chainEnv d ts wl) name [] = some bid ↔
      Defines (chainEnv d ts wl) name bid :=
  ⟨resolveIdent_sound _ _ _ _ hok hname,
   resolveIdent_complete _ _ _ _ hok hname hinh hids (throughFuel_ge d ts wl)⟩

/-! ## 2. `assignThrough` writes exactly the defining binding -/

/-- SPEC: the document with the value of Binding object `b` masked (as in C04) -/
def others (b : Nat) (d : Doc) : Doc := d.updBind b hole

/-- **Exactness.** When `assignThrough` reports success, the new document is the old one with the
    value of ONE Binding object replaced, and that object is the defining binding of the name under
    Nix lexical scoping. Everything else — every other binding with its value (`others`), the
    identity / name / trivia of every binding in document order (`frames`), the wrappers, the
    identity counter — is unchanged. -/
theorem assignThrough_exact (ts : Node) (wl : Bool) (name : Text) (v : Node) (d d' : Doc)
    (hok : envOK (chainEnv d ts wl) = true) (hname : nixName name = name)
    (h : assignThrough ts wl name v d = (.ok true, d')) :
    ∃ bid, Defines (chainEnv d ts wl) name bid ∧ d' = d.updBind bid v ∧
      others bid d' = others bid d ∧ d'.frames bid = d.frames bid ∧
      d'.wrappers = d.wrappers ∧ d'.next = d.next := by
  rw [assignThrough_apply'] at h
  cases hr : resolveIdent (throughFuel d ts wl) (chainEnv d ts wl) name [] with
  | none => simp [hr] at h
  | some bid =>
    simp only [hr, Prod.mk.injEq, true_and] at h
    subst h
    exact ⟨bid, resolveIdent_sound _ _ _ _ hok hname hr, rfl, Doc.updBind_absorb bid v hole d,
      Doc.frames_updBind bid v d, rfl, rfl⟩

/-- When `assignThrough` declines, it has not touched the document. -/
theorem assignThrough_declines_clean (ts : Node) (wl : Bool) (name : Text) (v : Node) (d d' : Doc)
    (h : assignThrough ts wl name v d = (.ok false, d')) : d' = d := by
  rw [assignThrough_apply'] at h
  cases hr : resolveIdent (throughFuel d ts wl) (chainEnv d ts wl) name [] with
  | none => simp only [hr, Prod.mk.injEq, true_and] at h; exact h.symm
  | some bid => simp [hr] at h

/-- **Converse.** When the SPEC names a defining binding, `assignThrough` succeeds and writes it. -/
theorem assignThrough_complete (ts : Node) (wl : Bool) (name : Text) (v : Node) (d : Doc) (bid : Nat)
    (hok : envOK (chainEnv d ts wl) = true) (hname : nixName name = name)
    (hinh : inheritFree (chainEnv d ts wl) name = true) (hids : idsNodup (chainEnv d ts wl) = true)
    (h : Defines (chainEnv d ts wl) name bid) :
    assignThrough ts wl name v d = (.ok true, d.updBind bid v) := by
  rw [assignThrough_apply', (resolveIdent_iff d ts wl name bid hok hname hinh hids).2 h]

/-- The write leaves the reference itself in place (unless it is itself the defining binding). -/
theorem write_keeps_reference (bid rid : Nat) (nm : Text) (ne : Bool) (name : Text) (bf af : Payload)
    (v : Node) (h : rid ≠ bid) :
    Node.updBind bid v (.bind rid nm ne (.ident name) bf af) = .bind rid nm ne (.ident name) bf af := by
  simp [Node.updBind, h]

/-- Every other Binding object keeps its value (a value that contains the written object changes
    only inside, by the same write — `C04.write_keeps_other_binding`). -/
theorem write_keeps_other_value (bid i : Nat) (n : Text) (ne : Bool) (v val : Node) (b a : Payload)
    (h : i ≠ bid) (hval : Node.hasBind bid val = false) :
    Node.updBind bid v (.bind i n ne val b a) = .bind i n ne val b a := by
  simp [Node.updBind, h, updBind_of_not_hasBind bid v val hval]

/-- The identities of the bindings outside the written value are the same, in the same order. -/
theorem write_keeps_ids (bid : Nat) (v : Node) (d : Doc) :
    ((d.updBind bid v).frames bid).map (·.1) = (d.frames bid).map (·.1) := by
  rw [Doc.frames_updBind]

/-- A plain `set k v` on a binding of the target that holds the reference `name`, when the chain
    resolves inside the set's own let layers / `rec` scope: the defining binding — and only it — is
    written, and `k` still holds the reference. (No condition on `topScope`, siblings or the length
    of the chain.) -/
theorem set_through_reference (d : Doc) (p k : Text) (v : Node) (rid : Nat) (nm : Text) (ne : Bool)
    (name : Text) (bf af : Payload) (bid : Nat)
    (hnt : d.noTarget = none) (hsp : splitScopeNpath p = .ok none)
    (hf : formatNPath currentAnchor p = .ok [k])
    (hr : findAttrpathRoot d.target.setValues k = none)
    (hb : findBinding d.target.setValues k = some (.bind rid nm ne (.ident name) bf af))
    (hok : envOK (chainEnv d d.target true) = true) (hname : nixName name = name)
    (hinh : inheritFree (chainEnv d d.target true) name = true)
    (hids : idsNodup (chainEnv d d.target true) = true)
    (hdef : Defines (chainEnv d d.target true) name bid) :
    setValue p (.one v) d = (.ok (), d.updBind bid v) ∧
    (rid ≠ bid → findBinding (d.updBind bid v).target.setValues k =
      some (.bind rid nm ne (.ident name) bf af)) := by
  constructor
  · rw [setValue_ref_single d p k v rid nm ne name bf af hnt hsp hf hr hb, assignExisting_ref,
      (resolveIdent_iff d d.target true name bid hok hname hinh hids).2 hdef]
  · intro hne
    rw [Doc.updBind_target, setValues_updBind, findBinding_updBindL, hb, Option.map_some,
      write_keeps_reference bid rid nm ne name bf af v hne]

/-! ## 3. A name bound nowhere: the binding at the path is overwritten -/

/-- **Unbound ⇒ overwrite.** When no frame of the chain binds the name, none of the `let_bindings`
    handed down by `set_value` is named so, and no sibling in the parent set is, `assignExisting`
    overwrites the binding at the path itself. -/
theorem assignExisting_unbound_overwrites (ts parent : Node) (wl : Bool) (rid : Nat) (nm : Text)
    (ne : Bool) (name : Text) (bf af : Payload) (v : Node) (d : Doc)
    (hok : envOK (chainEnv d ts wl) = true) (hname : nixName name = name)
    (hchain : NotBound (chainEnv d ts wl) name)
    (hlet : (letBindings d).find? (·.bindName? == some name) = none)
    (hsib : findBinding parent.setValues name = none) :
    assignExisting ts parent wl (.bind rid nm ne (.ident name) bf af) v d =
      (.ok (), d.updBind rid v) := by
  rw [assignExisting_ref, resolveIdent_none_of_notBound _ _ _ _ hok hname hchain]
  simp only [hlet, hsib]

/-- A plain `set k v` on a binding of the target that holds the reference `name`, `name` bound
    nowhere in the document (no let layer, not the `rec` set itself, not the recorded layer of the
    top expression) and — the exclusion, see `cex_nonrec_sibling` — not a sibling either:
    the binding at the path is overwritten. -/
theorem set_unbound_overwrites (d : Doc) (p k : Text) (v : Node) (rid : Nat) (nm : Text) (ne : Bool)
    (name : Text) (bf af : Payload)
    (hnt : d.noTarget = none) (hsp : splitScopeNpath p = .ok none)
    (hf : formatNPath currentAnchor p = .ok [k])
    (hr : findAttrpathRoot d.target.setValues k = none)
    (hb : findBinding d.target.setValues k = some (.bind rid nm ne (.ident name) bf af))
    (hok : envOK (docEnv d) = true) (hname : nixName name = name)
    (hnb : NotBound (docEnv d) name)
    (hsib : findBinding d.target.setValues name = none) :
    setValue p (.one v) d = (.ok (), d.updBind rid v) := by
  rw [setValue_ref_single d p k v rid nm ne name bf af hnt hsp hf hr hb]
  exact assignExisting_unbound_overwrites _ _ _ _ _ _ _ _ _ _ _ (envOK_append_left hok) hname
    (fun f hf => hnb f (by simp only [docEnv, List.mem_append]; exact Or.inl hf))
    (letBindings_none_of_notBound d name hname hnb) hsib

/-! ## 4. The full claim, where the code deviates from it, and what holds -/

/-- FULL statement (plain single-segment `set` on a binding of the target that holds a reference;
    well-formed documents): if the name has a defining binding under Nix lexical scoping in what the
    document has in scope there, exactly that binding is written; if the name is bound nowhere, the
    binding at the path is overwritten. False of the model, hence of the code: `not_c11_full`. -/
def c11_full : Prop :=
  ∀ (d : Doc) (p k : Text) (v : Node) (rid : Nat) (nm : Text) (ne : Bool) (name : Text)
    (bf af : Payload),
    d.noTarget = none → splitScopeNpath p = .ok none → formatNPath currentAnchor p = .ok [k] →
    findAttrpathRoot d.target.setValues k = none →
    findBinding d.target.setValues k = some (.bind rid nm ne (.ident name) bf af) →
    envOK (docEnv d) = true → nixName name = name → inheritFree (docEnv d) name = true →
    idsNodup (docEnv d) = true →
    (∀ bid, Defines (docEnv d) name bid → setValue p (.one v) d = (.ok (), d.updBind bid v)) ∧
    (NotBound (docEnv d) name → setValue p (.one v) d = (.ok (), d.updBind rid v))

/-- `{ version = v; v = "2"; }` — NOT recursive -/
def sibDoc : Doc :=
  { target := .set 1 [ .bind 2 "version".toList false (.ident "v".toList) [] [],
                       .bind 3 "v".toList false (.atom "\"2\"".toList) [] [] ] [] true false
    next := 4 }

/-- `let v = w; w = "1"; in pkgs.mk { version = v; }` — the let is around the call -/
def topDoc : Doc :=
  { target := .set 1 [ .bind 2 "version".toList false (.ident "v".toList) [] [] ] [] true false
    topScope := some [ .bind 3 "v".toList false (.ident "w".toList) [] [],
                       .bind 4 "w".toList false (.atom "\"1\"".toList) [] [] ]
    next := 5 }

/-- `let w = "0"; in f (let v = w; in { version = v; })` — the chain leaves the set's own layers -/
def crossDoc : Doc :=
  { target := .set 1 [ .bind 2 "version".toList false (.ident "v".toList) [] [] ] [] true false
    scope := [ .bind 3 "v".toList false (.ident "w".toList) [] [] ]
    topScope := some [ .bind 4 "w".toList false (.atom "\"0\"".toList) [] [] ]
    next := 5 }

/-- `rec { v = "0"; a = rec { version = v; v = "1"; }; }` -/
def nestDoc : Doc :=
  { target := .set 1 [ .bind 2 "v".toList false (.atom "\"0\"".toList) [] [],
        .bind 3 "a".toList false (.set 4 [ .bind 5 "version".toList false (.ident "v".toList) [] [],
             .bind 6 "v".toList false (.atom "\"1\"".toList) [] [] ] [] true true) [] [] ] [] true true
    next := 7 }

def newV : Node := .atom "\"NEW\"".toList

/-- Counterexample (open finding C11-nonrec-sibling): in the NON-recursive `{ version = v; v = "2"; }`
    nothing binds `v` at `version` (Nix: undefined variable), yet `set version` rewrites the sibling
    `v` (the sibling fallback of `_set_value_in_attrset`) instead of overwriting `version`. -/
theorem cex_nonrec_sibling :
    NotBound (docEnv sibDoc) "v".toList ∧
    setValue "version".toList (.one newV) sibDoc = (.ok (), sibDoc.updBind 3 newV) ∧
    sibDoc.updBind 3 newV ≠ sibDoc.updBind 2 newV := by decide

/-- Counterexample (open findings C11-let-separated-by-wrapper / C11-outermost-let-behind-call: the
    `let_bindings` fallback): with the let around a call, `let v = w; w = "1"; in pkgs.mk { version = v; }`,
    the defining binding of `v` is `w` (chain followed), but `set version` rewrites `v`: the
    fallback takes the first binding of the top expression's recorded layer named `v` and does not
    follow its reference. -/
theorem cex_topscope_chain_not_followed :
    Defines (docEnv topDoc) "v".toList 4 ∧
    setValue "version".toList (.one newV) topDoc = (.ok (), topDoc.updBind 3 newV) ∧
    topDoc.updBind 3 newV ≠ topDoc.updBind 4 newV :=
  ⟨resolveIdent_sound 3 _ _ _ (by decide) (by decide) (by decide), by decide, by decide⟩

/-- Counterexample (same family): `let w = "0"; in f (let v = w; in { version = v; })` — the chain
    starts in the set's own let layer and ends in the layer around the call; the resolver sees only
    the former, finds `w` unbound, and `version` itself is overwritten (the reference is lost). -/
theorem cex_chain_crosses_wrapper :
    Defines (docEnv crossDoc) "v".toList 4 ∧
    setValue "version".toList (.one newV) crossDoc = (.ok (), crossDoc.updBind 2 newV) ∧
    crossDoc.updBind 2 newV ≠ crossDoc.updBind 4 newV :=
  ⟨resolveIdent_sound 3 _ _ _ (by decide) (by decide) (by decide), by decide, by decide⟩

/-- SPEC: the environment of the bindings of a set `parent` that is the value of a binding of the
    target (path `a.k`): the parent's own frame when it is `rec`, then the target's environment. -/
def nestedEnv (d : Doc) (parent : Node) : List (List Node) :=
  (if parent.setRecursive then [parent.setValues] else []) ++ chainEnv d d.target true

/-- Counterexample (nested path; not among the recorded findings): in
    `rec { v = "0"; a = rec { version = v; v = "1"; }; }` the reference `a.version = v` designates
    the inner `v = "1"` (the inner set is `rec`), but `set a.version` rewrites the OUTER `v`:
    `_assign_through_identifier` builds the scopes of the *target* set, never of the parent set
    the path leads into. -/
theorem cex_nested_rec_parent :
    Defines (nestedEnv nestDoc (.set 4 [ .bind 5 "version".toList false (.ident "v".toList) [] [],
             .bind 6 "v".toList false (.atom "\"1\"".toList) [] [] ] [] true true)) "v".toList 6 ∧
    setValue "a.version".toList (.one newV) nestDoc = (.ok (), nestDoc.updBind 2 newV) ∧
    nestDoc.updBind 2 newV ≠ nestDoc.updBind 6 newV :=
  ⟨resolveIdent_sound 3 _ _ _ (by decide) (by decide) (by decide), by decide, by decide⟩

/-- The full claim is false of the model (both clauses fail). -/
theorem not_c11_full : ¬ c11_full := by
  intro h
  have h1 := (h sibDoc "version".toList "version".toList newV 2 "version".toList false "v".toList [] []
    (by decide) (by decide) (by decide) (by decide) (by decide) (by decide) (by decide) (by decide)
    (by decide)).2 cex_nonrec_sibling.1
  rw [cex_nonrec_sibling.2.1] at h1
  exact cex_nonrec_sibling.2.2 (by simpa using h1)

/-- … and its first clause alone is false as well. -/
theorem not_c11_full_defining : ¬ (∀ (d : Doc) (p k : Text) (v : Node) (rid : Nat) (nm : Text)
    (ne : Bool) (name : Text) (bf af : Payload),
    d.noTarget = none → splitScopeNpath p = .ok none → formatNPath currentAnchor p = .ok [k] →
    findAttrpathRoot d.target.setValues k = none →
    findBinding d.target.setValues k = some (.bind rid nm ne (.ident name) bf af) →
    envOK (docEnv d) = true → nixName name = name → inheritFree (docEnv d) name = true →
    idsNodup (docEnv d) = true →
    ∀ bid, Defines (docEnv d) name bid → setValue p (.one v) d = (.ok (), d.updBind bid v)) := by
  intro h
  have h1 := h topDoc "version".toList "version".toList newV 2 "version".toList false "v".toList [] []
    (by decide) (by decide) (by decide) (by decide) (by decide) (by decide) (by decide) (by decide)
    (by decide) 4 cex_topscope_chain_not_followed.1
  rw [cex_topscope_chain_not_followed.2.1] at h1
  exact cex_topscope_chain_not_followed.2.2 (by simpa using h1)

/-- PARTIAL (everything but the deviations above). For a plain single-segment `set` on a binding of
    the target that holds a reference, in a well-formed document:
    * when the target does not sit behind a wrapper that carries a let (`topScope = none` — the
      decidable condition that excludes `cex_topscope_chain_not_followed` /
      `cex_chain_crosses_wrapper`; `set_through_reference` is the sharper form: the chain resolves
      inside the set's own layers), the defining binding under Nix lexical scoping — chains followed
      to their end through any number of let layers and the `rec` scope, with any shadowing — is the
      one object written;
    * when the name is bound nowhere and (excluding `cex_nonrec_sibling`) no sibling carries it,
      the binding at the path is overwritten. -/
theorem c11_partial (d : Doc) (p k : Text) (v : Node) (rid : Nat) (nm : Text) (ne : Bool)
    (name : Text) (bf af : Payload)
    (hnt : d.noTarget = none) (hsp : splitScopeNpath p = .ok none)
    (hf : formatNPath currentAnchor p = .ok [k])
    (hr : findAttrpathRoot d.target.setValues k = none)
    (hb : findBinding d.target.setValues k = some (.bind rid nm ne (.ident name) bf af))
    (hok : envOK (docEnv d) = true) (hname : nixName name = name)
    (hinh : inheritFree (docEnv d) name = true) (hids : idsNodup (docEnv d) = true) :
    (d.topScope = none → ∀ bid, Defines (docEnv d) name bid →
      setValue p (.one v) d = (.ok (), d.updBind bid v)) ∧
    (findBinding d.target.setValues name = none → NotBound (docEnv d) name →
      setValue p (.one v) d = (.ok (), d.updBind rid v)) := by
  constructor
  · intro ht bid hdef
    have he : docEnv d = chainEnv d d.target true := by simp [docEnv, ht]
    rw [he] at hok hinh hids hdef
    exact (set_through_reference d p k v rid nm ne name bf af bid hnt hsp hf hr hb hok hname hinh
      hids hdef).1
  · intro hsib hnb
    exact set_unbound_overwrites d p k v rid nm ne name bf af hnt hsp hf hr hb hok hname hnb hsib

/-- The sharper form of the first clause, whatever `topScope` is: a chain that resolves inside the
    set's own let layers / `rec` scope is also the document-level defining binding (`defines_extend`)
    and is the one object written. -/
theorem c11_partial_through_chain (d : Doc) (p k : Text) (v : Node) (rid : Nat) (nm : Text) (ne : Bool)
    (name : Text) (bf af : Payload) (bid : Nat)
    (hnt : d.noTarget = none) (hsp : splitScopeNpath p = .ok none)
    (hf : formatNPath currentAnchor p = .ok [k])
    (hr : findAttrpathRoot d.target.setValues k = none)
    (hb : findBinding d.target.setValues k = some (.bind rid nm ne (.ident name) bf af))
    (hok : envOK (docEnv d) = true) (hname : nixName name = name)
    (hinh : inheritFree (docEnv d) name = true) (hids : idsNodup (docEnv d) = true)
    (hdef : Defines (chainEnv d d.target true) name bid) :
    Defines (docEnv d) name bid ∧ setValue p (.one v) d = (.ok (), d.updBind bid v) :=
  ⟨defines_extend _ _ _ _ hdef,
   (set_through_reference d p k v rid nm ne name bf af bid hnt hsp hf hr hb (envOK_append_left hok)
     hname (inheritFree_append_left hinh) (idsNodup_append_left hids) hdef).1⟩

/-! ## 5. Histories of edits through references -/

/-- one edit through a reference: the path and its key, the binding addressed (which holds the
    reference `name`), the defining binding `bid`, the new value -/
structure RefEdit where
  p : Text
  k : Text
  rid : Nat
  nm : Text
  ne : Bool
  name : Text
  bf : Payload
  af : Payload
  bid : Nat
  v : Node

def RefEdit.op (e : RefEdit) : Op := .set e.p (.one e.v)

/-- the hypotheses of `set_through_reference` for the edit `e` in the document `d`, and the new
    value is not itself a reference -/
structure RefEdit.Ok (d : Doc) (e : RefEdit) : Prop where
  hsp : splitScopeNpath e.p = .ok none
  hf : formatNPath currentAnchor e.p = .ok [e.k]
  hr : findAttrpathRoot d.target.setValues e.k = none
  hb : findBinding d.target.setValues e.k = some (.bind e.rid e.nm e.ne (.ident e.name) e.bf e.af)
  hname : nixName e.name = e.name
  hinh : inheritFree (chainEnv d d.target true) e.name = true
  hdef : Defines (chainEnv d d.target true) e.name e.bid
  hv : e.v.isIdent = false

/-- the document-wide side conditions -/
structure DocOk (d : Doc) : Prop where
  hnt : d.noTarget = none
  hok : envOK (chainEnv d d.target true) = true
  hids : idsNodup (chainEnv d d.target true) = true

theorem chainEnv_after_write (j : Nat) (w : Node) (d : Doc) :
    chainEnv (d.updBind j w) (d.updBind j w).target true = updEnv j w (chainEnv d d.target true) := by
  rw [Doc.updBind_target, chainEnv_updBind]

/-- the side conditions survive a write of a non-reference -/
theorem DocOk.after_write {d : Doc} (h : DocOk d) (j : Nat) (w : Node) (hw : w.isIdent = false) :
    DocOk (d.updBind j w) :=
  ⟨h.hnt, by rw [chainEnv_after_write]; exact envOK_updEnv j w hw _ h.hok,
   by rw [chainEnv_after_write]; exact idsNodup_updEnv j w _ h.hids⟩

/-- **The designation is stable.** After a write of a non-reference to the end of some chain, every
    other edit through a reference still has its hypotheses — in particular the same name still
    designates the same defining binding, and the reference is still in place. -/
theorem RefEdit.Ok.after_write {d : Doc} {e : RefEdit} (he : e.Ok d) (j : Nat) (w : Node)
    (hw : w.isIdent = false) (hnr : NotRef (chainEnv d d.target true) j) (hne : e.rid ≠ j) :
    e.Ok (d.updBind j w) where
  hsp := he.hsp
  hf := he.hf
  hr := by rw [Doc.updBind_target, setValues_updBind, findAttrpathRoot_updBindL, he.hr]; rfl
  hb := by
    rw [Doc.updBind_target, setValues_updBind, findBinding_updBindL, he.hb, Option.map_some,
      write_keeps_reference j e.rid e.nm e.ne e.name e.bf e.af w hne]
  hname := he.hname
  hinh := by rw [chainEnv_after_write]; exact inheritFree_updEnv j w hw _ _ he.hinh
  hdef := by rw [chainEnv_after_write]; exact he.hdef.updEnv j w hw hnr
  hv := he.hv

/-- **History.** A sequence of edits through references (any references, any chains, any number of
    let layers) whose hypotheses hold in the INITIAL document, none of which addresses a binding that
    is the defining binding of another: the whole history is the sequence of writes to the defining
    bindings determined up front — every edit keeps hitting the binding Nix designates, nothing else
    is ever written, every reference stays in place. By induction over the list of operations. -/
theorem history_through_references (es : List RefEdit) (d : Doc) (hd : DocOk d)
    (hes : ∀ e ∈ es, e.Ok d) (hdisj : ∀ e ∈ es, ∀ e' ∈ es, e.rid ≠ e'.bid) :
    run (es.map RefEdit.op) d = es.foldl (fun d e => d.updBind e.bid e.v) d := by
  induction es generalizing d with
  | nil => rfl
  | cons e es ih =>
    have he := hes e (by simp)
    have hstep : (e.op.apply d) = (.ok (), d.updBind e.bid e.v) :=
      (set_through_reference d e.p e.k e.v e.rid e.nm e.ne e.name e.bf e.af e.bid hd.hnt he.hsp he.hf
        he.hr he.hb hd.hok he.hname he.hinh hd.hids he.hdef).1
    have hnr : NotRef (chainEnv d d.target true) e.bid :=
      NotRef.of_defines (idsNodup_iff.1 hd.hids) he.hdef
    simp only [List.map_cons, run, hstep, List.foldl_cons]
    exact ih (d.updBind e.bid e.v) (hd.after_write e.bid e.v he.hv)
      (fun e' he' => (hes e' (by simp [he'])).after_write e.bid e.v he.hv hnr
        (hdisj e' (by simp [he']) e (by simp)))
      (fun a ha b hb => hdisj a (by simp [ha]) b (by simp [hb]))

theorem foldl_write_wrappers (es : List RefEdit) (d : Doc) :
    (es.foldl (fun d e => d.updBind e.bid e.v) d).wrappers = d.wrappers ∧
    (es.foldl (fun d e => d.updBind e.bid e.v) d).next = d.next := by
  induction es generalizing d with
  | nil => exact ⟨rfl, rfl⟩
  | cons e es ih => simp only [List.foldl_cons]; exact ih (d.updBind e.bid e.v)

theorem foldl_write_others (b : Nat) (es : List RefEdit) (hb : ∀ e ∈ es, e.bid = b) (d : Doc) :
    others b (es.foldl (fun d e => d.updBind e.bid e.v) d) = others b d := by
  induction es generalizing d with
  | nil => rfl
  | cons e es ih =>
    simp only [List.foldl_cons]
    rw [ih (fun e' he' => hb e' (by simp [he'])), hb e (by simp)]
    exact Doc.updBind_absorb b e.v hole d

/-- Hence, over the whole history: wrappers and the identity counter are untouched, and when all the
    edits go through references to the same defining binding `b` (the same reference edited again and
    again, or several references that end at `b`), everything but the value of `b` is as it was. -/
theorem history_frame (es : List RefEdit) (d : Doc) (hd : DocOk d)
    (hes : ∀ e ∈ es, e.Ok d) (hdisj : ∀ e ∈ es, ∀ e' ∈ es, e.rid ≠ e'.bid) :
    (run (es.map RefEdit.op) d).wrappers = d.wrappers ∧ (run (es.map RefEdit.op) d).next = d.next ∧
    ∀ b, (∀ e ∈ es, e.bid = b) → others b (run (es.map RefEdit.op) d) = others b d := by
  rw [history_through_references es d hd hes hdisj]
  exact ⟨(foldl_write_wrappers es d).1, (foldl_write_wrappers es d).2,
    fun b hb => foldl_write_others b es hb d⟩

/-! ## Non-vacuity: a document with two let layers, shadowing, a `rec` set, chains, a quoted name -/

/-- `let v = w; w = "0"; in let w = "1"; u = v; inherit lib; in
    rec { version = u; a = x; x = "3"; "q" = "4"; name = q; free = nowhere; }`

    `version → u → v → w`: `u` is found in the inner layer, `v` in the outer one, and from there `w`
    is the OUTER `w = "0"` (object 8) — the inner `w = "1"` (object 9) shadows it only for references
    made further in. -/
def exDoc : Doc :=
  { target := .set 1
      [ .bind 2 "version".toList false (.ident "u".toList) [] [],
        .bind 3 "a".toList false (.ident "x".toList) [] [],
        .bind 4 "x".toList false (.atom "\"3\"".toList) [] [],
        .bind 5 "\"q\"".toList false (.atom "\"4\"".toList) [] [],
        .bind 6 "name".toList false (.ident "q".toList) [] [],
        .bind 11 "free".toList false (.ident "nowhere".toList) [] [] ] [] true true
    scope := [ .bind 7 "v".toList false (.ident "w".toList) [] [],
               .bind 8 "w".toList false (.atom "\"0\"".toList) [] [] ]
    stack := [ { scope := [ .bind 9 "w".toList false (.atom "\"1\"".toList) [] [],
                            .bind 10 "u".toList false (.ident "v".toList) [] [],
                            .inherit 12 ["lib".toList] ],
                 order := [], bodyBefore := [], bodyAfter := [], afterLet := none } ]
    next := 13 }

/-- the side conditions hold of it (three frames, an `inherit` clause, a quoted name) -/
example : envOK (docEnv exDoc) = true ∧ idsNodup (docEnv exDoc) = true ∧
    inheritFree (docEnv exDoc) "u".toList = true ∧ nixName "u".toList = "u".toList := by decide

/-- SPEC at work — chain of length 3 across both layers, outwards only: object 8, not 9 -/
theorem ex_defines_u : Defines (chainEnv exDoc exDoc.target true) "u".toList 8 :=
  resolveIdent_sound 4 _ _ _ (by decide) (by decide) (by decide)

/-- … directly from the constructors (the SPEC does not need the resolver) -/
example : Defines (chainEnv exDoc exDoc.target true) "u".toList 8 :=
  Defines.ref (env' := [(exDoc.stack.map (·.scope)).headD [], exDoc.scope]) rfl
    (Defines.ref (env' := [exDoc.scope]) rfl (Defines.value (env' := [exDoc.scope]) rfl rfl))

/-- the quoted binding `"q" = …` defines `q`; the `rec` set's own `x` defines `x` -/
theorem ex_defines_q : Defines (chainEnv exDoc exDoc.target true) "q".toList 5 :=
  resolveIdent_sound 2 _ _ _ (by decide) (by decide) (by decide)
theorem ex_defines_x : Defines (chainEnv exDoc exDoc.target true) "x".toList 4 :=
  resolveIdent_sound 2 _ _ _ (by decide) (by decide) (by decide)

/-- `resolveIdent_complete` / `resolveIdent_iff`: hypotheses satisfiable, fuel of `assignThrough` -/
example : resolveIdent (throughFuel exDoc exDoc.target true) (chainEnv exDoc exDoc.target true)
    "u".toList [] = some 8 :=
  (resolveIdent_iff exDoc exDoc.target true _ 8 (by decide) (by decide) (by decide) (by decide)).2
    ex_defines_u

/-- `visited_distinct`: the path is `10, 7, 8` -/
example : ∃ p, Path (chainEnv exDoc exDoc.target true) "u".toList p 8 ∧ p.Nodup ∧ p.length ≤ 11 := by
  obtain ⟨p, h1, h2, _, h4⟩ := visited_distinct _ _ _ (by decide) ex_defines_u
  exact ⟨p, h1, h2, h4⟩

/-- `assignThrough_exact`: its hypothesis holds here … -/
example : assignThrough exDoc.target true "u".toList newV exDoc = (.ok true, exDoc.updBind 8 newV) :=
  assignThrough_complete _ _ _ _ _ 8 (by decide) (by decide) (by decide) (by decide) ex_defines_u
/-- … and `assignThrough_declines_clean`'s for the unbound name -/
example : assignThrough exDoc.target true "nowhere".toList newV exDoc = (.ok false, exDoc) := by decide

/-- `set version "NEW"` writes object 8 (`w = "0"` of the OUTER layer) and `version` still holds `u` -/
example : setValue "version".toList (.one newV) exDoc = (.ok (), exDoc.updBind 8 newV) ∧
    findBinding (exDoc.updBind 8 newV).target.setValues "version".toList =
      some (.bind 2 "version".toList false (.ident "u".toList) [] []) := by
  have h := set_through_reference exDoc "version".toList "version".toList newV 2 "version".toList false
    "u".toList [] [] 8 rfl (by decide) (by decide) (by decide) (by decide) (by decide) (by decide)
    (by decide) (by decide) ex_defines_u
  exact ⟨h.1, h.2 (by decide)⟩

/-- `set free "NEW"`: `nowhere` is bound nowhere, no sibling: `free` itself is overwritten -/
example : setValue "free".toList (.one newV) exDoc = (.ok (), exDoc.updBind 11 newV) :=
  set_unbound_overwrites exDoc "free".toList "free".toList newV 11 "free".toList false
    "nowhere".toList [] [] rfl (by decide) (by decide) (by decide) (by decide) (by decide) (by decide)
    (by decide) (by decide)

example : assignExisting exDoc.target exDoc.target true
    (.bind 11 "free".toList false (.ident "nowhere".toList) [] []) newV exDoc =
      (.ok (), exDoc.updBind 11 newV) :=
  assignExisting_unbound_overwrites _ _ _ _ _ _ _ _ _ _ _ (by decide) (by decide) (by decide)
    (by decide) (by decide)

/-- both clauses of `c11_partial` are inhabited by `exDoc` -/
example : setValue "name".toList (.one newV) exDoc = (.ok (), exDoc.updBind 5 newV) :=
  (c11_partial exDoc "name".toList "name".toList newV 6 "name".toList false "q".toList [] []
    rfl (by decide) (by decide) (by decide) (by decide) (by decide) (by decide) (by decide)
    (by decide)).1 rfl 5 ex_defines_q

/-- a history: `set version 1; set a 2; set name 3; set version 4` -/
def exEdits : List RefEdit :=
  [ ⟨"version".toList, "version".toList, 2, "version".toList, false, "u".toList, [], [], 8, .atom "1".toList⟩,
    ⟨"a".toList, "a".toList, 3, "a".toList, false, "x".toList, [], [], 4, .atom "2".toList⟩,
    ⟨"name".toList, "name".toList, 6, "name".toList, false, "q".toList, [], [], 5, .atom "3".toList⟩,
    ⟨"version".toList, "version".toList, 2, "version".toList, false, "u".toList, [], [], 8, .atom "4".toList⟩ ]

theorem ex_history_hyps : DocOk exDoc ∧ (∀ e ∈ exEdits, e.Ok exDoc) ∧
    (∀ e ∈ exEdits, ∀ e' ∈ exEdits, e.rid ≠ e'.bid) := by
  refine ⟨⟨rfl, by decide, by decide⟩, ?_, by decide⟩
  intro e he
  simp only [exEdits, List.mem_cons, List.not_mem_nil, or_false] at he
  rcases he with rfl | rfl | rfl | rfl
  · exact ⟨by decide, by decide, by decide, by decide, by decide, by decide, ex_defines_u, by decide⟩
  · exact ⟨by decide, by decide, by decide, by decide, by decide, by decide, ex_defines_x, by decide⟩
  · exact ⟨by decide, by decide, by decide, by decide, by decide, by decide, ex_defines_q, by decide⟩
  · exact ⟨by decide, by decide, by decide, by decide, by decide, by decide, ex_defines_u, by decide⟩

example : run (exEdits.map RefEdit.op) exDoc =
    (((exDoc.updBind 8 (.atom "1".toList)).updBind 4 (.atom "2".toList)).updBind 5
      (.atom "3".toList)).updBind 8 (.atom "4".toList) :=
  history_through_references exEdits exDoc ex_history_hyps.1 ex_history_hyps.2.1 ex_history_hyps.2.2

/-- the hypotheses of the counterexamples' documents: all side conditions hold of them, so the
    deviations are not artefacts of an ill-formed input -/
example : envOK (docEnv sibDoc) = true ∧ idsNodup (docEnv sibDoc) = true ∧
    envOK (docEnv topDoc) = true ∧ idsNodup (docEnv topDoc) = true ∧
    inheritFree (docEnv topDoc) "v".toList = true ∧
    envOK (docEnv crossDoc) = true ∧ idsNodup (docEnv crossDoc) = true ∧
    inheritFree (docEnv crossDoc) "v".toList = true := by decide

/-- second clause of `c11_partial` on `exDoc` -/
example : setValue "free".toList (.one newV) exDoc = (.ok (), exDoc.updBind 11 newV) :=
  (c11_partial exDoc "free".toList "free".toList newV 11 "free".toList false "nowhere".toList [] []
    rfl (by decide) (by decide) (by decide) (by decide) (by decide) (by decide) (by decide)
    (by decide)).2 (by decide) (by decide)

/-- `let v = "0"; in f (let v = w; w = "1"; in { version = v; })` — behind a wrapper that carries a
    let (which also binds `v`), the chain resolves inside the set's own layer -/
def wrapDoc : Doc :=
  { target := .set 1 [ .bind 2 "version".toList false (.ident "v".toList) [] [] ] [] true false
    scope := [ .bind 3 "v".toList false (.ident "w".toList) [] [],
               .bind 4 "w".toList false (.atom "\"1\"".toList) [] [] ]
    topScope := some [ .bind 5 "v".toList false (.atom "\"0\"".toList) [] [] ]
    next := 6 }

/-- `c11_partial_through_chain` on it: object 4 is written, not the outer `v` (object 5) -/
example : Defines (docEnv wrapDoc) "v".toList 4 ∧
    setValue "version".toList (.one newV) wrapDoc = (.ok (), wrapDoc.updBind 4 newV) :=
  c11_partial_through_chain wrapDoc "version".toList "version".toList newV 2 "version".toList false
    "v".toList [] [] 4 rfl (by decide) (by decide) (by decide) (by decide) (by decide) (by decide)
    (by decide) (by decide) (resolveIdent_sound 3 _ _ _ (by decide) (by decide) (by decide))

/-! ## For the repaired code (`NameCmp.model`, i.e. lookups through `_same_attr_name`)

Everything above is stated for the name comparison by spelling (`NameCmp.spelled`, declared at the head
of this file). `setValue_model_eq_spelled` / `removeValue_model_eq_spelled` (Lemmas/NameAgree.lean) make
it a statement about the model of the repaired code under the decidable side condition
`NameAgree.noSpellingClash d p`: among the name tokens of the document and the keys of the path no two are
different spellings of one Nix name. The single-operation theorems restated that way (hypotheses about
lookups keep the comparison by spelling, which is the code's on such inputs): -/

theorem repaired_set_is_spelled (p : Text) (v : ValueArg) (d : Doc) (hns : NameAgree.noSpellingClash d p) :
    @setValue NameCmp.model p v d = setValue p v d := NameAgree.setValue_model_eq_spelled p v d hns

theorem repaired_rm_is_spelled (p : Text) (d : Doc) (hns : NameAgree.noSpellingClash d p) :
    @removeValue NameCmp.model p d = removeValue p d := NameAgree.removeValue_model_eq_spelled p d hns

theorem set_through_reference_repaired (d : Doc) (p k : Text) (v : Node) (rid : Nat) (nm : Text) (ne : Bool)
    (name : Text) (bf af : Payload) (bid : Nat)
    (hnt : d.noTarget = none) (hsp : splitScopeNpath p = .ok none)
    (hf : formatNPath currentAnchor p = .ok [k])
    (hr : findAttrpathRoot d.target.setValues k = none)
    (hb : findBinding d.target.setValues k = some (.bind rid nm ne (.ident name) bf af))
    (hok : envOK (chainEnv d d.target true) = true) (hname : nixName name = name)
    (hinh : inheritFree (chainEnv d d.target true) name = true)
    (hids : idsNodup (chainEnv d d.target true) = true)
    (hdef : Defines (chainEnv d d.target true) name bid)
    (hns : NameAgree.noSpellingClash d p) :
    @setValue NameCmp.model p (.one v) d = (.ok (), d.updBind bid v) ∧
    (rid ≠ bid → findBinding (d.updBind bid v).target.setValues k =
      some (.bind rid nm ne (.ident name) bf af)) := by
  simp only [NameAgree.setValue_model_eq_spelled p _ d hns, NameAgree.removeValue_model_eq_spelled p d hns] at *
  exact set_through_reference d p k v rid nm ne name bf af bid hnt hsp hf hr hb hok hname hinh hids hdef

theorem set_unbound_overwrites_repaired (d : Doc) (p k : Text) (v : Node) (rid : Nat) (nm : Text) (ne : Bool)
    (name : Text) (bf af : Payload)
    (hnt : d.noTarget = none) (hsp : splitScopeNpath p = .ok none)
    (hf : formatNPath currentAnchor p = .ok [k])
    (hr : findAttrpathRoot d.target.setValues k = none)
    (hb : findBinding d.target.setValues k = some (.bind rid nm ne (.ident name) bf af))
    (hok : envOK (docEnv d) = true) (hname : nixName name = name)
    (hnb : NotBound (docEnv d) name)
    (hsib : findBinding d.target.setValues name = none)
    (hns : NameAgree.noSpellingClash d p) :
    @setValue NameCmp.model p (.one v) d = (.ok (), d.updBind rid v) := by
  simp only [NameAgree.setValue_model_eq_spelled p _ d hns, NameAgree.removeValue_model_eq_spelled p d hns] at *
  exact set_unbound_overwrites d p k v rid nm ne name bf af hnt hsp hf hr hb hok hname hnb hsib

theorem c11_partial_repaired (d : Doc) (p k : Text) (v : Node) (rid : Nat) (nm : Text) (ne : Bool)
    (name : Text) (bf af : Payload)
    (hnt : d.noTarget = none) (hsp : splitScopeNpath p = .ok none)
    (hf : formatNPath currentAnchor p = .ok [k])
    (hr : findAttrpathRoot d.target.setValues k = none)
    (hb : findBinding d.target.setValues k = some (.bind rid nm ne (.ident name) bf af))
    (hok : envOK (docEnv d) = true) (hname : nixName name = name)
    (hinh : inheritFree (docEnv d) name = true) (hids : idsNodup (docEnv d) = true)
    (hns : NameAgree.noSpellingClash d p) :
    (d.topScope = none → ∀ bid, Defines (docEnv d) name bid →
      @setValue NameCmp.model p (.one v) d = (.ok (), d.updBind bid v)) ∧
    (findBinding d.target.setValues name = none → NotBound (docEnv d) name →
      @setValue NameCmp.model p (.one v) d = (.ok (), d.updBind rid v)) := by
  simp only [NameAgree.setValue_model_eq_spelled p _ d hns, NameAgree.removeValue_model_eq_spelled p d hns] at *
  exact c11_partial d p k v rid nm ne name bf af hnt hsp hf hr hb hok hname hinh hids

theorem c11_partial_through_chain_repaired (d : Doc) (p k : Text) (v : Node) (rid : Nat) (nm : Text) (ne : Bool)
    (name : Text) (bf af : Payload) (bid : Nat)
    (hnt : d.noTarget = none) (hsp : splitScopeNpath p = .ok none)
    (hf : formatNPath currentAnchor p = .ok [k])
    (hr : findAttrpathRoot d.target.setValues k = none)
    (hb : findBinding d.target.setValues k = some (.bind rid nm ne (.ident name) bf af))
    (hok : envOK (docEnv d) = true) (hname : nixName name = name)
    (hinh : inheritFree (docEnv d) name = true) (hids : idsNodup (docEnv d) = true)
    (hdef : Defines (chainEnv d d.target true) name bid)
    (hns : NameAgree.noSpellingClash d p) :
    Defines (docEnv d) name bid ∧ @setValue NameCmp.model p (.one v) d = (.ok (), d.updBind bid v) := by
  simp only [NameAgree.setValue_model_eq_spelled p _ d hns, NameAgree.removeValue_model_eq_spelled p d hns] at *
  exact c11_partial_through_chain d p k v rid nm ne name bf af bid hnt hsp hf hr hb hok hname hinh hids hdef

end Nima.C11
