/-
L9 (C15c): the process-wide state of nix_manipulator under several threads.

  * `_PARSER_LOCAL` (parser.py): one tree-sitter parser per storage slot, created lazily by
    `_get_parser()`; a parser is stateful while it works (`parseBegin … parseEnd`);
  * `_SOURCE_BYTES` (trivia.py), `_SOURCE_PATH` (path.py): variables set/reset with tokens by the
    context managers `source_bytes_context` / `source_path_context`;
  * `_CONTEXTS` (resolution.py): one dict shared by all threads, keyed by `id(expr)`, holding
    `(weakref(expr, _clear), context)`.

Where a variable lives (per thread, or one cell for the process) is a parameter `Cfg`; the
translator extracts the actual configuration from the Python source (Gen/Effects.lean,
`schedCfg`) and `C15.tie_sched_cfg` proves it equal to `Cfg.code`, the all-per-thread
configuration for which non-interference is proved.

A step is `(tid, op)`; a schedule is a list of steps; every operation is total and returns an
observation.  Import-free (core Lean only).
-/
namespace Nima.Sched

abbrev Tid := Nat
/-- An expression object: (owning thread, serial number). Documents are not shared between threads. -/
abbrev ObjId := Tid × Nat

structure Cfg where
  /-- `_PARSER_LOCAL` is a `threading.local()` -/
  parserLocal : Bool
  /-- `_SOURCE_BYTES` is a `ContextVar` -/
  bytesLocal : Bool
  /-- `_SOURCE_PATH` is a `ContextVar` -/
  pathLocal : Bool
deriving DecidableEq, Repr, Inhabited

/-- The configuration of the code as it is (tied by `C15.tie_sched_cfg`). -/
def Cfg.code : Cfg := ⟨true, true, true⟩

inductive Slot where
  | shared
  | thread (t : Tid)
deriving DecidableEq, Repr, Inhabited

def slot (isLocal : Bool) (t : Tid) : Slot := if isLocal then .thread t else .shared

inductive CVar where
  | bytes | path
deriving DecidableEq, Repr, Inhabited

def Cfg.cvarLocal (c : Cfg) : CVar → Bool
  | .bytes => c.bytesLocal
  | .path => c.pathLocal

inductive Op where
  /-- `_get_parser()`: create the slot's parser if there is none yet -/
  | getParser
  /-- the slot's parser starts working on document `doc` -/
  | parseBegin (doc : Nat)
  /-- … and hands back the tree of what it worked on (observation) -/
  | parseEnd
  /-- `token = V.set(x)`; the token stays in the frame of the calling thread -/
  | ctxSet (v : CVar) (x : Nat)
  /-- `V.get()` (observation) -/
  | ctxGet (v : CVar)
  /-- `V.reset(token)` with the innermost token held by the calling thread -/
  | ctxReset (v : CVar)
  /-- a new expression object `(tid, n)` whose `id()` is `id` -/
  | regAlloc (n : Nat) (id : Nat)
  /-- the object is collected: its weakref callback `_clear` runs -/
  | regFree (n : Nat)
  /-- `_store_context(obj, x)` -/
  | regStore (n : Nat) (x : Nat)
  /-- `_get_context(obj)` (observation) -/
  | regGet (n : Nat)
  /-- `clear_resolution_context(obj)` -/
  | regClear (n : Nat)
deriving DecidableEq, Repr, Inhabited

inductive Obs where
  | unit
  | flag (b : Bool)
  | val (v : Option Nat)
  /-- the operation is not possible in this state (no parser yet, no token, dead object) -/
  | err
deriving DecidableEq, Repr, Inhabited

structure State where
  /-- a parser exists in the slot -/
  made : Slot → Bool
  /-- what the slot's parser is working on -/
  work : Slot → Option Nat
  /-- current value of a context variable in a slot (`none`: the default) -/
  cell : CVar → Slot → Option Nat
  /-- tokens held by the frames of a thread: (variable, value to restore), innermost first -/
  toks : Tid → List (CVar × Option Nat)
  /-- live objects and their `id()` -/
  live : ObjId → Option Nat
  /-- `_CONTEXTS`: id ↦ (weakref target, context) -/
  reg : Nat → Option (ObjId × Nat)

def State.init : State where
  made := fun _ => false
  work := fun _ => none
  cell := fun _ _ => none
  toks := fun _ => []
  live := fun _ => none
  reg := fun _ => none

def upd {α β : Type} [DecidableEq α] (f : α → β) (a : α) (b : β) : α → β :=
  fun x => if x = a then b else f x

def step (c : Cfg) (s : State) (t : Tid) : Op → State × Obs
  | .getParser =>
    let sl := slot c.parserLocal t
    if s.made sl then (s, .flag false) else ({ s with made := upd s.made sl true }, .flag true)
  | .parseBegin d =>
    let sl := slot c.parserLocal t
    if s.made sl then ({ s with work := upd s.work sl (some d) }, .unit) else (s, .err)
  | .parseEnd =>
    let sl := slot c.parserLocal t
    if s.made sl then ({ s with work := upd s.work sl none }, .val (s.work sl)) else (s, .err)
  | .ctxSet v x =>
    let sl := slot (c.cvarLocal v) t
    ({ s with toks := upd s.toks t ((v, s.cell v sl) :: s.toks t),
              cell := upd s.cell v (upd (s.cell v) sl (some x)) }, .unit)
  | .ctxGet v => (s, .val (s.cell v (slot (c.cvarLocal v) t)))
  | .ctxReset v =>
    let sl := slot (c.cvarLocal v) t
    match s.toks t with
    | (v', old) :: rest =>
      if v' = v then
        ({ s with toks := upd s.toks t rest, cell := upd s.cell v (upd (s.cell v) sl old) }, .unit)
      else (s, .err)
    | [] => (s, .err)
  | .regAlloc n k => ({ s with live := upd s.live (t, n) (some k) }, .unit)
  | .regFree n =>
    match s.live (t, n) with
    | some k =>
      let reg' := match s.reg k with
        | some (o', _) => if o' = (t, n) then upd s.reg k none else s.reg
        | none => s.reg
      ({ s with live := upd s.live (t, n) none, reg := reg' }, .unit)
    | none => (s, .err)
  | .regStore n x =>
    match s.live (t, n) with
    | some k => ({ s with reg := upd s.reg k (some ((t, n), x)) }, .unit)
    | none => (s, .err)
  | .regGet n =>
    match s.live (t, n) with
    | some k =>
      match s.reg k with
      | some (o', x) =>
        if o' = (t, n) then (s, .val (some x)) else ({ s with reg := upd s.reg k none }, .val none)
      | none => (s, .val none)
    | none => (s, .err)
  | .regClear n =>
    match s.live (t, n) with
    | some k => ({ s with reg := upd s.reg k none }, .unit)
    | none => (s, .err)

abbrev Sched := List (Tid × Op)

/-- Run a schedule; the trace records who observed what, in order. -/
def run (c : Cfg) : State → Sched → State × List (Tid × Obs)
  | s, [] => (s, [])
  | s, (t, op) :: rest =>
    let r := step c s t op
    let rr := run c r.1 rest
    (rr.1, (t, r.2) :: rr.2)

/-- What thread `i` observed. -/
def obsOf (i : Tid) (tr : List (Tid × Obs)) : List Obs :=
  (tr.filter fun e => e.1 == i).map (·.2)

/-- The steps of thread `i` alone, in order (its serial run). -/
def proj (i : Tid) (sc : Sched) : Sched := sc.filter fun e => e.1 == i

/-- CPython's guarantees about `id()`: a new object is not one that is alive, and its id is not
    the id of any live object.  (Ids of dead objects may be reused, also across threads.) -/
def ValidFrom : State → Cfg → Sched → Prop
  | _, _, [] => True
  | s, c, (t, op) :: rest =>
    (match op with
      | .regAlloc n k => s.live (t, n) = none ∧ ∀ o, s.live o ≠ some k
      | _ => True) ∧ ValidFrom (step c s t op).1 c rest

/-- Operations that do not set or reset a context variable. -/
def Op.isPlain : Op → Bool
  | .ctxSet _ _ => false
  | .ctxReset _ => false
  | _ => true

/-- Well-nested use of the context variables by one thread: plain steps, and blocks
    `set v x; …balanced…; reset v` (what `with source_…_context(x): …` executes). -/
inductive Balanced : List Op → Prop
  | nil : Balanced []
  | plain {op rest} : op.isPlain = true → Balanced rest → Balanced (op :: rest)
  | block {v x inner rest} : Balanced inner → Balanced rest →
      Balanced (.ctxSet v x :: (inner ++ .ctxReset v :: rest))

/-- the schedule in which thread `t` alone executes `ops` -/
def solo (t : Tid) (ops : List Op) : Sched := ops.map fun op => (t, op)

end Nima.Sched
