import NimaVerif.Model.Edit
import NimaVerif.Model.NodeEq
/-!
SPEC definitions for C14 (mapping API: dictionary laws + agreement of the text with the mapping).
Nothing here is a model of code; these are the notions the property is stated with.
-/
namespace Nima
-- name tokens are compared by spelling in this file (see `NameCmp` in Model/Edit.lean)
attribute [local instance] NameCmp.spelled

open Node

namespace Node
def isEntry : Node → Bool | entry .. => true | _ => false

/-- The attribute names an item of `values` / `attrpath_order` stands for at the level of the set
    that holds it: a `Binding` its name, an `Inherit` its names, an `_AttrpathEntry` the first
    segment of its path (the root of the family it belongs to). -/
def itemKeys : Node → List Text
  | bind _ n .. => [n]
  | inherit _ ns => ns
  | entry segs .. => segs.head?.toList
  | _ => []
end Node

def keysOf (items : List Node) : List Text := items.flatMap Node.itemKeys

/-- The list the renderer walks (`AttributeSet.rebuild`, `LetExpression.rebuild`,
    `rebuild_scoped`): nothing when `values` is empty (`{ }` / the layer is skipped),
    `attrpath_order` when it is non-empty, else `values`. -/
def renderItems (values order : List Node) : List Node :=
  if values.isEmpty then [] else if order.isEmpty then values else order

/-- names the mapping answers at the top level of a set (`__getitem__`, first two branches) -/
def keysMap (s : Node) : List Text := keysOf s.setValues
/-- names the renderer emits for a set -/
def keysText (s : Node) : List Text := keysOf (renderItems s.setValues s.setOrder)

/-- Text and mapping agree on which names the set defines. Compared as SETS of names: a parsed
    attrpath family `a.b = 1; c = 2; a.d = 3;` is one merged root in `values` and two entries in
    `attrpath_order`, so the lists `[a, c]` / `[a, c, a]` differ although text and mapping agree. -/
def Coherent (s : Node) : Prop := ∀ k, k ∈ keysText s ↔ k ∈ keysMap s

def noEntriesL (o : List Node) : Bool := o.all fun n => !n.isEntry
/-- decidable side condition: `attrpath_order` holds no `_AttrpathEntry` -/
def NoEntries (s : Node) : Bool := noEntriesL s.setOrder

/-- identity-level alignment: `attrpath_order` is unused or lists exactly the objects of `values`
    in the same order (what `_collect_attrpath_order` produces when nothing is attrpath-derived) -/
def syncedL (values order : List Node) : Bool := order.isEmpty || Node.beqL order values
def Synced (s : Node) : Bool := syncedL s.setValues s.setOrder

/-- the invariant of an entry-free set -/
def Good (s : Node) : Bool := NoEntries s && Synced s

/-! ### the scope mapping (`target.scope` with `scope_state.attrpath_order`) -/

def keysMapScope (d : Doc) : List Text := keysOf d.scope
def keysTextScope (d : Doc) : List Text := keysOf (renderItems d.scope d.stOrder)
def CoherentScope (d : Doc) : Prop := ∀ k, k ∈ keysTextScope d ↔ k ∈ keysMapScope d
def GoodScope (d : Doc) : Bool := noEntriesL d.stOrder && syncedL d.scope d.stOrder

/-! ### every set object of a document -/

namespace Node
mutual
  /-- `p` holds of every `AttributeSet` node inside -/
  def allSets (p : Node → Bool) : Node → Bool
    | atom _ => true
    | ident _ => true
    | set sid vs o m r => p (set sid vs o m r) && allSetsL p vs && allSetsL p o
    | bind _ _ _ v _ _ => allSets p v
    | inherit _ _ => true
    | entry _ leaf _ _ => allSets p leaf
  def allSetsL (p : Node → Bool) : List Node → Bool
    | [] => true
    | x :: xs => allSets p x && allSetsL p xs
end
end Node

def Layer.allSets (p : Node → Bool) (l : Layer) : Bool := allSetsL p l.scope && allSetsL p l.order

def Doc.allSets (p : Node → Bool) (d : Doc) : Bool :=
  d.target.allSets p && (match d.scratch with | some s => s.allSets p | none => true) &&
  allSetsL p d.scope && allSetsL p d.stOrder && d.stack.all (Layer.allSets p) &&
  (match d.topScope with | some s => allSetsL p s | none => true)

/-- document invariant: every set object is entry-free and aligned, and so is the scope mapping -/
def DocGood (d : Doc) : Bool := d.allSets Good && GoodScope d

/-! ### mapping histories -/

/-- the set reached from `cur` by successive `__getitem__`s (outermost key first) -/
def reachFrom (cur : Node) : List Text → Except Err Node
  | [] => .ok cur
  | k :: ks => match setGetItem cur k with
    | .ok (v@(.set ..)) => reachFrom v ks
    | .ok _ => .error .type
    | .error e => .error e

inductive MapOp where
  | setItem (path : List Text) (key : Text) (v : Node)   -- `src[p₁]…[pₙ][key] = v`
  | delItem (path : List Text) (key : Text)              -- `del src[p₁]…[pₙ][key]`
  | scopeSet (key : Text) (v : Node)                     -- `target.scope[key] = v`
  | scopeDel (key : Text)                                -- `del target.scope[key]`

def MapOp.value? : MapOp → Option Node
  | .setItem _ _ v => some v
  | .scopeSet _ v => some v
  | _ => none

def MapOp.apply : MapOp → EditM Unit
  | .setItem path k v => fun d => match reachFrom d.target path with
    | .ok s => setSetItem s k v d
    | .error e => (.error e, d)
  | .delItem path k => fun d => match reachFrom d.target path with
    | .ok s => setDelItem s k d
    | .error e => (.error e, d)
  | .scopeSet k v => scopeSetItem k v
  | .scopeDel k => scopeDelItem k

/-- a history: failed operations are reported and the history goes on with the state they left -/
def runOps : List MapOp → Doc → Doc
  | [], d => d
  | op :: ops, d => runOps ops (op.apply d).2

/-- `key` is a plain name for `__getitem__`: its dotted-path fallback does not apply -/
def PlainKey (k : Text) : Bool :=
  match splitAttrpath k with
  | .ok segs => segs.length ≤ 1
  | .error _ => true

/-! ### identities -/
namespace Node
mutual
  /-- does the `Binding` object `id` occur anywhere inside the node? -/
  def occursBind (id : Nat) : Node → Bool
    | atom _ => false
    | ident _ => false
    | set _ vs o _ _ => occursBindL id vs || occursBindL id o
    | bind i _ _ v _ _ => i == id || occursBind id v
    | inherit _ _ => false
    | entry _ leaf _ _ => occursBind id leaf
  def occursBindL (id : Nat) : List Node → Bool
    | [] => false
    | x :: xs => occursBind id x || occursBindL id xs
end
end Node

/-- identities of the Binding objects that are items of the list -/
def topIds (vs : List Node) : List Nat := vs.filterMap Node.bindId?

/-- Well-formedness of one `values` list as a list of distinct Python objects: its Binding items
    have pairwise different identities, and none of them occurs inside another item of the list
    (true of every tree the parser or `__setitem__` builds: each Binding object is created once
    and stored in one place). Decidable. -/
def DistinctItems (vs : List Node) : Bool :=
  decide (topIds vs).Nodup &&
  vs.all fun n => (topIds vs).all fun i => n.bindId? == some i || !occursBind i n

end Nima
